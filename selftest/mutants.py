"""seeded edits used by tools/selftest.py to validate the checks themselves (engine soundness / no false alarms).
expect: 'violation' (property-breaking) or 'ok' (property-preserving refactor)."""
T = "wannierberri/grid/tetrahedron.py"
U_ = "wannierberri/utility.py"
SM = "wannierberri/smoother.py"
ER = "wannierberri/result/energyresult.py"
RG = "wannierberri/run_grid.py"
W9 = "wannierberri/w90files/"
DKR = "wannierberri/data_K/data_K_R.py"
DKS = "wannierberri/data_K/data_K_soc.py"
DKK = "wannierberri/data_K/data_K_k.py"
SHR = "wannierberri/system/system_hr.py"
STB = "wannierberri/system/system_tb.py"
DK = "wannierberri/data_K/data_K.py"
WU = "wannierberri/w90files/utility.py"
KP = "wannierberri/grid/Kpoint.py"
KT = "wannierberri/grid/Kpoint_tetra.py"
GT = "wannierberri/grid/grid_tetra.py"
GR = "wannierberri/grid/grid.py"
PSY = "wannierberri/symmetry/point_symmetry.py"
RES_E = "wannierberri/result/energyresult.py"
RES_K = "wannierberri/result/kbandresult.py"
RES_D = "wannierberri/result/resultdict.py"
RES_R = "wannierberri/result/result.py"
SOCF = "wannierberri/w90files/soc.py"
SSOC = "wannierberri/system/system_soc.py"
SYSR = "wannierberri/system/system_R.py"
RVEC = "wannierberri/fourier/rvectors.py"
INTP = "wannierberri/system/interpolate.py"
PATHF = "wannierberri/grid/path.py"
TABF = "wannierberri/result/tabresult.py"
FFTF = "wannierberri/fourier/fft.py"
STAT = "wannierberri/calculators/static.py"
DYN = "wannierberri/calculators/dynamic.py"
COV = "wannierberri/formula/covariant.py"
TABC = "wannierberri/calculators/tabulate.py"
TBPY = "wannierberri/system/system_tb_py.py"
FDIF = "wannierberri/system/__finite_differences.py"
SKP = "wannierberri/system/system_kp.py"
DKKF = "wannierberri/data_K/data_K_k.py"
KNB = "wannierberri/wannierisation/kpoint_and_neighbours.py"
WANF = "wannierberri/wannierisation/wannierise.py"
SYMW = "wannierberri/symmetry/sym_wann_2.py"
ORBF = "wannierberri/symmetry/orbitals.py"
MUTANTS = [
    dict(prop="C21", name="d shell: x2-y2 row with a plus", file=ORBF, old="                orb_rot_mat[3, i] = (subs[3] - subs[5]).evalf()", new="                orb_rot_mat[3, i] = (subs[3] + subs[5]).evalf()"),
    dict(prop="C21", name="p shell: x and y rows swapped", file=ORBF, old="                orb_rot_mat[1, i] = subs[1].evalf()\n                orb_rot_mat[2, i] = subs[2].evalf()\n            elif orb_symbol == 'd':", new="                orb_rot_mat[2, i] = subs[1].evalf()\n                orb_rot_mat[1, i] = subs[2].evalf()\n            elif orb_symbol == 'd':"),
    dict(prop="C21", name="rotated coordinates without the inverse (composition order reversed)", file=ORBF, old="        xp, yp, zp = np.dot(np.linalg.inv(rot_glb), self.xyz)", new="        xp, yp, zp = np.dot(rot_glb, self.xyz)"),
    dict(prop="C21", name="d shell: z2 normalisation", file=ORBF, old="                orb_rot_mat[0, i] = (2 * subs[0] - subs[3] - subs[5]) / sympy.sqrt(3.0)", new="                orb_rot_mat[0, i] = (2 * subs[0] - subs[3] - subs[5]) / sympy.sqrt(2.0)"),
    dict(prop="C21", name="hybrids: shell blocks placed with an offset error", file=ORBF, old="                rot_orb_loc[s:e, s:e] = self.rot_orb_basis(shell, rot_glb)", new="                rot_orb_loc[s:e, s:e] = self.rot_orb_basis(shell, rot_glb).T"),
    dict(prop="C21", name="OrbitalRotator: local bases swapped", file=ORBF, old="                rot_cart = basis2 @ rot_cart @ basis1.T", new="                rot_cart = basis1 @ rot_cart @ basis2.T"),
    dict(prop="C21", name="OrbitalRotator: cache keyed by shell only", file=ORBF, old="        if (irot, orb_symbol) not in self.results_dict:\n            orb_symbol = orb_symbol.strip()", new="        if (0, orb_symbol) in self.results_dict:\n            return self.results_dict[(0, orb_symbol)]\n        if (irot, orb_symbol) not in self.results_dict:\n            orb_symbol = orb_symbol.strip()"),
    dict(prop="C24", name="nWfree ignores the frozen bands", file=KNB, old="        self.nWfree = self.num_wann - sum(frozen)", new="        self.nWfree = self.num_wann - 0 * sum(frozen)"),
    dict(prop="C24", name="rotate_to_projections: free block placed from column 0", file=KNB, old="        U[self.free, self.nfrozen:] = U_opt_free\n        U_loc = U[self.selected, :].copy()", new="        U[self.free, :self.num_wann - self.nfrozen] = U_opt_free\n        U_loc = U[self.selected, :].copy()"),
    dict(prop="C24", name="rotate_to_projections: result written to all bands", file=KNB, old="        U[:] = 0\n        U[self.selected] = U_loc.dot(ZV)", new="        U[:] = 0\n        U[-U_loc.shape[0]:] = U_loc.dot(ZV)"),
    dict(prop="C24", name="calc_Z: weights dropped", file=KNB, old="Z = np.array(sum(wb * mmn.dot(mmn.T.conj()) for wb, mmn in zip(self.wb, Mmn_loc_opt)))", new="Z = np.array(sum(mmn.dot(mmn.T.conj()) for wb, mmn in zip(self.wb, Mmn_loc_opt)))"),
    dict(prop="C24", name="update: Z mixing ratio swapped", file=KNB, old="            Z = mix_ratio * Z + (1 - mix_ratio) * self.Zold", new="            Z = (1 - mix_ratio) * Z + mix_ratio * self.Zold"),
    dict(prop="C24", name="update: frozen Z forgotten", file=KNB, old="        Z = self.calc_Z(U_nb_free) + self.Zfrozen", new="        Z = self.calc_Z(U_nb_free)"),
    dict(prop="C24", name="update(localise): frozen unit vectors on all columns", file=KNB, old="            U_opt_full[self.frozen, range(self.nfrozen)] = 1.\n            U_opt_full[self.free, self.nfrozen:] = self.U_opt_free\n            Mmn_loc", new="            U_opt_full[self.frozen, :] = 1.\n            U_opt_full[self.free, self.nfrozen:] = self.U_opt_free\n            Mmn_loc"),
    dict(prop="C24", name="get_max_eig: smallest eigenvalues", file=U_, old="    return v[:, np.argsort(e)[nBfree - nvec:nBfree]]", new="    return v[:, np.argsort(e)[:nvec]]"),
    dict(prop="C24", name="orthogonalize: singular values kept", file=U_, old="        return U @ VT\n", new="        return (U * _) @ VT\n"),
    dict(prop="C24", name="wannierise: bands INSIDE the outer window deselected", file=WANF, old="    deselected = vectorize(np.logical_and, np.logical_not(selected_bands), free, to_array=True)", new="    deselected = vectorize(np.logical_and, selected_bands, free, to_array=True)"),
    dict(prop="C24", name="wannierise: explicit frozen states of a dict applied to every k-point", file=WANF, old="                for ib in frozen_ik:\n                    frozen[iki, ib] = True", new="                for ib in frozen_ik:\n                    frozen[:, ib] = True"),
    dict(prop="C31", name="Derivative3D: reduced instead of Cartesian b", file=FDIF, old="        return sum(wk * self.function(k + bk_red)[..., None] * bk_cart\n                for wk, bk_red, bk_cart in zip(self.wk, self.bk_red, self.bk_cart))", new="        return sum(wk * self.function(k + bk_red)[..., None] * bk_red.reshape((1,) * (bk_cart.ndim - 1) + (3,))\n                for wk, bk_red, bk_cart in zip(self.wk, self.bk_red, self.bk_cart))"),
    dict(prop="C31", name="Derivative3D: evaluates at k - b", file=FDIF, old="self.function(k + bk_red)[..., None] * bk_cart", new="self.function(k - bk_red)[..., None] * bk_cart"),
    dict(prop="C31", name="find_shells: weights not rescaled (revert of half the fix)", file=FDIF, old="if abs(w) > 1e-8]) / scale**2\n", new="if abs(w) > 1e-8])\n"),
    dict(prop="C31", name="find_shells: revert fix", file=FDIF, old="    basis = basis / scale\n", new="    scale = 1.0\n"),
    dict(prop="C31", name="SystemKP: bk_cart from bki (dk forgotten)", file=SKP, old="        self.bk_cart = self.bk_red.dot(self.recip_lattice)", new="        self.bk_cart = bki.dot(self.recip_lattice)"),
    dict(prop="C31", name="SystemKP: second derivative built on Ham", file=SKP, old="            self.der2Ham = Derivative3D(self.derHam, bk_red=self.bk_red, bk_cart=self.bk_cart, wk=self.wk)", new="            self.der2Ham = Derivative3D(self.Ham, bk_red=self.bk_red, bk_cart=self.bk_cart, wk=self.wk)"),
    dict(prop="C31", name="SystemKP: reduced k not folded", file=SKP, old="            self.k_ham_from_red = lambda k: np.array(self.k_to_1BZ(k))", new="            self.k_ham_from_red = lambda k: np.array(k)"),
    dict(prop="C31", name="Data_K_k.Xbar: der 3 uses der2Ham", file=DKKF, old="                elif der == 3:\n                    fun = self.system.der3Ham", new="                elif der == 3:\n                    fun = self.system.der2Ham"),
    dict(prop="C32", name="pythtb: h.c. partner without conjugation", file=TBPY, old="                Ham_R[inR, j, i] += np.conjugate(amplitude)", new="                Ham_R[inR, j, i] += amplitude"),
    dict(prop="C32", name="pythtb: partner placed at +R", file=TBPY, old="                Ham_R[inR, j, i] += np.conjugate(amplitude)", new="                Ham_R[iR, j, i] += np.conjugate(amplitude)"),
    dict(prop="C32", name="pythtb: repeated hops overwrite", file=TBPY, old="                Ham_R[iR, i, j] += amplitude\n", new="                Ham_R[iR, i, j] = amplitude\n"),
    dict(prop="C32", name="pythtb spinful: partner block not transposed", file=TBPY, old="Ham_R[inR, 2 * j:2 * j + 2, 2 * i:2 * i + 2] += np.conjugate(amplitude.T)", new="Ham_R[inR, 2 * j:2 * j + 2, 2 * i:2 * i + 2] += np.conjugate(amplitude)"),
    dict(prop="C32", name="tbmodels: partner block not transposed", file=TBPY, old="            Ham_R[inR] += np.conjugate(hops.T)", new="            Ham_R[inR] += np.conjugate(hops)"),
    dict(prop="C32", expect="ok", name="PRESERVING (for this property): centres not reduced to the home cell", file=TBPY, old="    wannier_centers_red = positions % 1.0\n", new="    wannier_centers_red = positions * 1.0\n"),
    dict(prop="C32", name="centres scaled", file=TBPY, old="    wannier_centers_red = positions % 1.0\n", new="    wannier_centers_red = (positions * 0.5) % 1.0\n"),
    dict(prop="C32", name="on-site energies of the wrong orbital (spinless)", file=TBPY, old="                Ham_R[index0, i, i] = model._site_energies[i]", new="                Ham_R[index0, i, i] = model._site_energies[norb_loc - 1 - i]"),
    dict(prop="C32", name="PRESERVING: on-site via += on the zero diagonal", file=TBPY, old="                Ham_R[index0, i, i] = model._site_energies[i]", new="                Ham_R[index0, i, i] += model._site_energies[i]", expect="ok"),
    dict(prop="C32", name="Haldane_ptb: delta argument overridden (the defect fixed in 3aec8e52)", file="wannierberri/models.py", old="    t2 = hop2 * np.exp(1.j * phi)\n    t2c = t2.conjugate()\n\n    my_model.set_onsite([-delta, delta])\n    my_model.set_hop(hop1, 0, 1, [0, 0])", new="    delta = 0.2\n    t2 = hop2 * np.exp(1.j * phi)\n    t2c = t2.conjugate()\n\n    my_model.set_onsite([-delta, delta])\n    my_model.set_hop(hop1, 0, 1, [0, 0])"),
    dict(prop="C32", name="Haldane_tbm: one second-neighbour hop with the opposite flux", file="wannierberri/models.py", old="    my_model.add_hop(t2, 1, 1, [0, 1])", new="    my_model.add_hop(t2c, 1, 1, [0, 1])"),
    dict(prop="C32", name="Haldane_ptb: a nearest-neighbour bond to the wrong cell", file="wannierberri/models.py", old="    my_model.set_hop(hop1, 1, 0, [0, 1])", new="    my_model.set_hop(hop1, 1, 0, [1, 1])"),
    dict(prop="C32", name="PRESERVING: Haldane_ptb hop written from the other end", file="wannierberri/models.py", old="    my_model.set_hop(hop1, 1, 0, [0, 1])", new="    my_model.set_hop(hop1, 0, 1, [0, -1])", expect="ok"),
    dict(prop="C20", name="average: normalised by the number of operations minus one", file=SYMW, old="                        v /= len(self.use_symmetries_index)", new="                        v /= max(1, len(self.use_symmetries_index) - 1)"),
    dict(prop="C20", name="backward rotation: time reversal without conjugation", file=SYMW, old="                result = result.conj() * self.parity_TR[X]", new="                result = result * self.parity_TR[X]"),
    dict(prop="C20", name="backward rotation: left orbital matrix not daggered", file=SYMW, old="                                L=self.symmetrizer_left.rot_orb_dagger_list[block1][atom_a, isym],", new="                                L=self.symmetrizer_left.rot_orb_list[block1][atom_a, isym],"),
    dict(prop="C20", name="average_XX_block: right-hand site permutation taken from the left block", file=SYMW, old="            atommap2 = self.symmetrizer_right.atommap_list[block2][:, isym]", new="            atommap2 = self.symmetrizer_right.atommap_list[block1][:, isym]"),
    dict(prop="C20", name="atom R map: translations of the two atoms added instead of subtracted", file=SYMW, old="            atom_R_map = (R_map[:, None, None, :] + T1[None, :, None, :] - T2[None, None, :, :])", new="            atom_R_map = (R_map[:, None, None, :] + T1[None, :, None, :] + T2[None, None, :, :])"),
    dict(prop="C20", name="AA treated as even under inversion", file=SYMW, old="            'Ham': 1,\n            'AA': -1,", new="            'Ham': 1,\n            'AA': 1,"),
    dict(prop="C20", expect="ok", name="PRESERVING: irreducible search with a strict comparison (more triples than necessary are averaged, each over the whole group)", file=SYMW, old="                    if (a1, b1) >= (a, b):", new="                    if (a1, b1) > (a, b):"),
    dict(prop="C20", name="vector rotation applied to the wrong Cartesian axis", file=SYMW, old="                XX_L = np.tensordot(XX_L, rot_mat_loc, axes=((-n_cart,), (0,)))", new="                XX_L = np.tensordot(XX_L, rot_mat_loc, axes=((-n_cart,), (1,)))"),
    dict(prop="C20", name="centre pass: translation back to the home cell dropped", file="wannierberri/symmetry/sawf.py", old="                        XX_L = symop.transform_r(XX_L) + T[atom_a]", new="                        XX_L = symop.transform_r(XX_L)"),
    dict(prop="C20", name="centre pass: written to the source atom instead of its image", file="wannierberri/symmetry/sawf.py", old="                    WCC_red_out[start_b:start_b + norb] += transformed", new="                    WCC_red_out[start_a:start_a + norb] += transformed"),
    dict(prop="C20", name="driver: R-vectors shifted by the OLD centres", file=SYSR, old="        self.wannier_centers_cart = symmetrizer.symmetrize_WCC(self.wannier_centers_cart)\n        print(f\"number o R-vectors after symmetrization: {len(iRvec)}\")\n        self.clear_cached_wcc()\n        rvec_new = Rvectors(\n            lattice=self.real_lattice,\n            iRvec=iRvec,\n            shifts_left_red=self.wannier_centers_red,",
         new="        wcc_red_old = self.wannier_centers_red\n        self.wannier_centers_cart = symmetrizer.symmetrize_WCC(self.wannier_centers_cart)\n        print(f\"number o R-vectors after symmetrization: {len(iRvec)}\")\n        self.clear_cached_wcc()\n        rvec_new = Rvectors(\n            lattice=self.real_lattice,\n            iRvec=iRvec,\n            shifts_left_red=wcc_red_old,"),
    dict(prop="C20", name="driver: centres not symmetrised", file=SYSR, old="        self.wannier_centers_cart = symmetrizer.symmetrize_WCC(self.wannier_centers_cart)\n        print(f\"number o R-vectors after", new="        self.wannier_centers_cart = self.wannier_centers_cart * 1.0\n        print(f\"number o R-vectors after"),
    dict(prop="C20", name="driver: use_symmetries_index not passed to the point group", file=SYSR, old="        self.set_pointgroup(spacegroup=symmetrizer.spacegroup, use_symmetries_index=use_symmetries_index)", new="        self.set_pointgroup(spacegroup=symmetrizer.spacegroup)"),
    dict(prop="C20", expect="ok", name="PRESERVING: _rotate_matrix via two tensordots", file=SYMW, old="    return cached_einsum(\"ij,jk...,kl->il...\", L, X, R)", new="    _ = np.tensordot(L, X, axes=((1,), (0,)))\n    _ = np.tensordot(R, _, axes=((0,), (1,)))\n    return np.moveaxis(_, 0, 1)"),
    dict(prop="C28", name="BerryDipole_FermiSea: derivative index not moved first", file=STAT, old="        self.Formula = frml.DerOmega\n        self.fder = 0\n        super().__init__(**kwargs)\n\n    def __call__(self, data_K):\n        res = super().__call__(data_K)\n        # swap axes to be consistent with the eq. (29) of DOI:10.1038/s41524-021-00498-5\n        res.data = res.data.swapaxes(1, 2)", new="        self.Formula = frml.DerOmega\n        self.fder = 0\n        super().__init__(**kwargs)\n\n    def __call__(self, data_K):\n        res = super().__call__(data_K)\n        res.data = res.data.swapaxes(1, 1)"),
    dict(prop="C28", name="Ohmic_FermiSurf: opposite sign of the factor", file=STAT, old="    def __init__(self, constant_factor=factors.factor_ohmic, **kwargs):\n        self.Formula = frml.VelVel", new="    def __init__(self, constant_factor=-factors.factor_ohmic, **kwargs):\n        self.Formula = frml.VelVel"),
    dict(prop="C28", name="NLDrude_Fermider2: factor not halved", file=STAT, old="    def __init__(self, constant_factor=factors.factor_nldrude / 2, **kwargs):", new="    def __init__(self, constant_factor=factors.factor_nldrude, **kwargs):"),
    dict(prop="C28", name="GME_orb_FermiSea: Berry-dipole term added instead of subtracted", file=STAT, old="        Hplus_res.data = Hplus_res.data.swapaxes(1, 2)\n        Omega_res = self.BerryDipole(data_K).mul_array(self.Efermi)\n        return Hplus_res - 2 * Omega_res\n\n\nclass GME_orb_FermiSea_test", new="        Hplus_res.data = Hplus_res.data.swapaxes(1, 2)\n        Omega_res = self.BerryDipole(data_K).mul_array(self.Efermi)\n        return Hplus_res + 2 * Omega_res\n\n\nclass GME_orb_FermiSea_test"),
    dict(prop="C28", name="GME_orb_FermiSurf: Berry dipole of the sea kind", file=STAT, old="        self.BerryDipole = BerryDipole_FermiSurf(constant_factor=constant_factor, print_comment=False, **kwargs)", new="        self.BerryDipole = BerryDipole_FermiSea(constant_factor=constant_factor, print_comment=False, **kwargs)"),
    dict(prop="C28", name="GME_spin_FermiSurf: sea weights", file=STAT, old="        self.Formula = frml.VelSpin\n        self.fder = 1", new="        self.Formula = frml.VelSpin\n        self.fder = 0"),
    dict(prop="C28", name="VelOmega: factors in the opposite order", file=COV, old="        super().__init__([data_K.covariant('Ham', commader=1), Omega(data_K, **kwargs_formula)], name='VelOmega')", new="        super().__init__([Omega(data_K, **kwargs_formula), data_K.covariant('Ham', commader=1)], name='VelOmega')"),
    dict(prop="C28", name="VelHplus: the minus branch of the orbital moment", file=COV, old="Morb_Hpm(data_K, sign=+1, **kwargs_formula)],\n                         name='VelHplus')", new="Morb_Hpm(data_K, sign=-1, **kwargs_formula)],\n                         name='VelHplus')"),
    dict(prop="C28", name="FormulaProduct: indices of the second factor first", file="wannierberri/formula/formula.py", old="            self.einsumlines.append(\"LM\" + letters[:dim] + \",MN\" + letters[dim:dim + d] + \"->LN\" + letters[:dim + d])", new="            self.einsumlines.append(\"LM\" + letters[:dim] + \",MN\" + letters[dim:dim + d] + \"->LN\" + letters[dim:dim + d] + letters[:dim])"),
    dict(prop="C28", name="generalised derivative: sign of the first D term", file="wannierberri/formula/formula.py", old="        summ = self.dA.nn(ik, inn, out)\n        summ -= cached_einsum(\"mld,lnb...->mnb...d\", self.D.nl(ik, inn, out), self.A.ln(ik, inn, out))", new="        summ = self.dA.nn(ik, inn, out)\n        summ += cached_einsum(\"mld,lnb...->mnb...d\", self.D.nl(ik, inn, out), self.A.ln(ik, inn, out))"),
    dict(prop="C28", expect="ok", name="PRESERVING: swapaxes written as transpose", file=STAT, old="        self.Formula = frml.DerSpin\n        self.fder = 0\n        super().__init__(constant_factor=constant_factor, **kwargs)\n\n    def __call__(self, data_K):\n        res = super().__call__(data_K)\n        # swap axes to be consistent with the eq. (29) of DOI:10.1038/s41524-021-00498-5\n        res.data = res.data.swapaxes(1, 2)", new="        self.Formula = frml.DerSpin\n        self.fder = 0\n        super().__init__(constant_factor=constant_factor, **kwargs)\n\n    def __call__(self, data_K):\n        res = super().__call__(data_K)\n        res.data = res.data.transpose(0, 2, 1)"),
    dict(prop="C21", name="Dwann.get_on_points: phase with the irreducible k instead of its image", file="wannierberri/symmetry/Dwann.py", old="                  ] = np.exp(2j * np.pi * (np.dot(kptirr1, self.T[ip, isym]))) * self.rot_orb[ip, isym]", new="                  ] = np.exp(2j * np.pi * (np.dot(kptirr, self.T[ip, isym]))) * self.rot_orb[ip, isym]"),
    dict(prop="C21", name="Dwann.get_on_points: block written on the diagonal (site map ignored)", file="wannierberri/symmetry/Dwann.py", old="            Dwann[jp * self.num_orbitals:(jp + 1) * self.num_orbitals,\n                  ip * self.num_orbitals:(ip + 1) * self.num_orbitals", new="            Dwann[ip * self.num_orbitals:(ip + 1) * self.num_orbitals,\n                  ip * self.num_orbitals:(ip + 1) * self.num_orbitals"),
    dict(prop="C21", name="Dwann.get_on_points: blocks accumulated with a damping factor", file="wannierberri/symmetry/Dwann.py", old="                  ] = np.exp(2j * np.pi * (np.dot(kptirr1, self.T[ip, isym]))) * self.rot_orb[ip, isym]", new="                  ] = np.exp(2j * np.pi * (np.dot(kptirr1, self.T[ip, isym]))) * self.rot_orb[ip, isym] * (1.0 if jp >= ip else 0.5)"),
    dict(prop="C08", name="Morb_H declared even under TR", file=COV, old="        self.E = data_K.E_K\n        self.ndim = 1\n        self.transformTR = transform_odd", new="        self.E = data_K.E_K\n        self.ndim = 1\n        self.transformTR = transform_ident"),
    dict(prop="C08", name="Der3E declared even under inversion", file=COV, old="        self.ndim = 3\n        self.transformTR = transform_odd\n        self.transformInv = transform_odd", new="        self.ndim = 3\n        self.transformTR = transform_odd\n        self.transformInv = transform_ident"),
    dict(prop="C08", name="get_transform_TR: SS even", file=DK, old="    elif name in ['CC', 'FF', 'OO', 'GG', 'SS', 'rotAA', 'rotAAab', 'CCab_antisym']:  # odd before derivative\n        p = 1", new="    elif name in ['CC', 'FF', 'OO', 'GG', 'rotAA', 'rotAAab', 'CCab_antisym']:  # odd before derivative\n        p = 1\n    elif name in ['SS']:\n        p = 0"),
    dict(prop="C08", name="InvMass declared odd under TR", file="wannierberri/formula/elementary.py", old="data_K.covariant('Ham', commader=2), data_K.Dcov)\n        self.transformTR = transform_ident", new="data_K.covariant('Ham', commader=2), data_K.Dcov)\n        self.transformTR = transform_odd"),
    dict(prop="C07", name="symmetrize: last operation skipped", file=PSY, old="        return sum(result.transform(s) for s in self.symmetries) / self.size\n\n    def gen_symmetric_tensor", new="        return sum(result.transform(s) for s in self.symmetries[:max(1, self.size - 1)]) / max(1, self.size - 1)\n\n    def gen_symmetric_tensor"),
    dict(prop="C07", name="symmetrize: not normalised", file=PSY, old="        return sum(result.transform(s) for s in self.symmetries) / self.size\n\n    def gen_symmetric_tensor", new="        return sum(result.transform(s) for s in self.symmetries)\n\n    def gen_symmetric_tensor"),
    dict(prop="C07", name="paralfunc: symmetrisation when NOT requested", file=RG, old="        if symmetrize:\n            result = _system.pointgroup.symmetrize(result)", new="        if not symmetrize:\n            result = _system.pointgroup.symmetrize(result)"),
    dict(prop="C07", name="transform_tensor: TR branch applies the inversion transform", file=PSY, old="        if self.TR:\n            transformTR(res)\n        if self.Inv:\n            transformInv(res)", new="        if self.TR:\n            transformInv(res)\n        if self.Inv:\n            transformInv(res)"),
    dict(prop="C08", name="get_transform_TR: parity rule inverted", file=DK, old="        raise ValueError(f\"parity under TR unknown for {name}\")\n    if (p + der) % 2 == 1:", new="        raise ValueError(f\"parity under TR unknown for {name}\")\n    if (p + der) % 2 == 0:"),
    dict(prop="C08", name="get_transform_Inv: base parity odd", file=DK, old="'CCab_antisym']:  # even before derivative\n        p = 0\n    elif name in ['D', 'AA', 'BB', 'CCab']:\n        return None\n    else:\n        raise ValueError(f\"parity under inversion", new="'CCab_antisym']:  # even before derivative\n        p = 1\n    elif name in ['D', 'AA', 'BB', 'CCab']:\n        return None\n    else:\n        raise ValueError(f\"parity under inversion"),
    dict(prop="C08", name="covariant: generalised derivative keeps the parity of order 0", file=DK, old="                        transformTR=get_transform_TR(name, gender),\n                        transformInv=get_transform_Inv(name, gender)", new="                        transformTR=get_transform_TR(name, commader),\n                        transformInv=get_transform_Inv(name, commader)"),
    dict(prop="C08", name="Omega declared even under TR", file=COV, old="        self.ndim = 1\n        self.transformTR = transform_odd\n        self.transformInv = transform_ident\n\n    def nn(self, ik, inn, out):\n        summ = np.zeros((len(inn), len(inn), 3), dtype=complex)\n\n        if self.internal_terms:\n            summ += -1j", new="        self.ndim = 1\n        self.transformTR = transform_ident\n        self.transformInv = transform_ident\n\n    def nn(self, ik, inn, out):\n        summ = np.zeros((len(inn), len(inn), 3), dtype=complex)\n\n        if self.internal_terms:\n            summ += -1j"),
    dict(prop="C08", name="DerOmega declared even under inversion", file=COV, old="        self.transformTR = transform_ident\n        self.transformInv = transform_odd\n", new="        self.transformTR = transform_ident\n        self.transformInv = transform_ident\n"),
    dict(prop="C08", name="OpticalConductivity: TR without transposition", file=DYN, old="        self.transformTR = transform_trans\n        self.transformInv = transform_ident", new="        self.transformTR = transform_ident\n        self.transformInv = transform_ident"),
    dict(prop="C08", name="ShiftCurrent declared even under inversion", file=DYN, old="        self.transformTR = transform_ident\n        self.transformInv = transform_odd\n", new="        self.transformTR = transform_ident\n        self.transformInv = transform_ident\n"),
    dict(prop="C08", name="Tabulator: TR and inversion transforms swapped", file=TABC, old="return KBandResult(rslt, transformTR=formula.transformTR, transformInv=formula.transformInv)", new="return KBandResult(rslt, transformTR=formula.transformInv, transformInv=formula.transformTR)"),
    dict(prop="C08", name="Transform.__call__: sign not applied", file=PSY, old="        res[:] *= self.factor\n        return res", new="        return res"),
    dict(prop="C08", name="TransformProduct: sign of the first factor only", file=PSY, old="super().__init__(factor=np.prod([t.factor for t in transform_list]), conj=conj_list[0])", new="super().__init__(factor=transform_list[0].factor, conj=conj_list[0])"),
    dict(prop="C05", name="reorder: only the second band index permuted", file=SYSR, old="            self._XX_R[key] = val[:, :, new_wann_indices][:, new_wann_indices, :]", new="            self._XX_R[key] = val[:, :, new_wann_indices]"),
    dict(prop="C05", name="reorder: centres not permuted", file=SYSR, old="        self.wannier_centers_cart = self.wannier_centers_cart[new_wann_indices]\n        for key, val in self._XX_R.items():", new="        for key, val in self._XX_R.items():"),
    dict(prop="C05", name="rvec.reorder: right shifts keep the old order", file=RVEC, old="        self.shifts_right_red = self.shifts_right_red[order_right]\n        self.clear_cached()", new="        self.clear_cached()"),
    dict(prop="C05", name="rvec.reorder: inverse permutation for the shifts", file=RVEC, old="        self.shifts_left_red = self.shifts_left_red[order_left]\n        self.shifts_right_red = self.shifts_right_red[order_right]\n        self.clear_cached()", new="        self.shifts_left_red = self.shifts_left_red[np.argsort(order_left)]\n        self.shifts_right_red = self.shifts_right_red[np.argsort(order_right)]\n        self.clear_cached()"),
    dict(prop="C05", name="reorder: rvec not reordered", file=SYSR, old="        self.rvec.reorder(new_wann_indices)\n        if hasattr(self, 'wannier_names'):", new="        if hasattr(self, 'wannier_names'):"),
    dict(prop="C05", name="PRESERVING: reorder via np.ix_", file=SYSR, old="            self._XX_R[key] = val[:, :, new_wann_indices][:, new_wann_indices, :]", new="            self._XX_R[key] = val[:, new_wann_indices][:, :, new_wann_indices]", expect="ok"),
    dict(prop="C27", name="Omega internal: factor -1 instead of -1j", file=COV, old="""            summ += -1j * cached_einsum(
                "mlc,lnc->mnc",
                self.D.nl(ik, inn, out)[:, :, alpha_A],
                self.D.ln(ik, inn, out)[:, :, beta_A])

        if self.external_terms:
            summ += 0.5 * self.O.nn(ik, inn, out)""", new="""            summ += -1 * cached_einsum(
                "mlc,lnc->mnc",
                self.D.nl(ik, inn, out)[:, :, alpha_A],
                self.D.ln(ik, inn, out)[:, :, beta_A])

        if self.external_terms:
            summ += 0.5 * self.O.nn(ik, inn, out)"""),
    dict(prop="C27", name="Omega internal: both factors with alpha (identically zero)", file=COV, old="""                self.D.nl(ik, inn, out)[:, :, alpha_A],
                self.D.ln(ik, inn, out)[:, :, beta_A])

        if self.external_terms:
            summ += 0.5 * self.O.nn(ik, inn, out)""", new="""                self.D.nl(ik, inn, out)[:, :, alpha_A],
                self.D.ln(ik, inn, out)[:, :, alpha_A])

        if self.external_terms:
            summ += 0.5 * self.O.nn(ik, inn, out)"""),
    dict(prop="C27", name="Omega internal: uses D.nn-like block (ln with swapped spaces)", file=COV, old="""                self.D.nl(ik, inn, out)[:, :, alpha_A],
                self.D.ln(ik, inn, out)[:, :, beta_A])

        if self.external_terms:
            summ += 0.5 * self.O.nn(ik, inn, out)""", new="""                self.D.nl(ik, inn, out)[:, :, alpha_A],
                self.D.ln(ik, inn, out)[:, :, beta_A].conj())

        if self.external_terms:
            summ += 0.5 * self.O.nn(ik, inn, out)"""),
    dict(prop="C27", name="dEig_inv: degenerate pairs keep 1/threshold", file=DK, old="        dEig = 1. / dEig\n        dEig[select] = 0.\n", new="        dEig = 1. / dEig\n"),
    dict(prop="C27", name="D_H: sign", file=DK, old="        return -self.Xbar('Ham', 1) * self.dEig_inv[:, :, :, None]", new="        return self.Xbar('Ham', 1) * self.dEig_inv[:, :, :, None]"),
    dict(prop="C27", name="D_H: transposed denominator", file=DK, old="        return -self.Xbar('Ham', 1) * self.dEig_inv[:, :, :, None]", new="        return -self.Xbar('Ham', 1) * self.dEig_inv.swapaxes(1, 2)[:, :, :, None]"),
    dict(prop="C27", name="AHC: Fermi-surface derivative", file=STAT, old="        self.Formula = frml.Omega\n        self.fder = 0\n        super().__init__(constant_factor=constant_factor, **kwargs)\n\n\nclass AHC_test", new="        self.Formula = frml.Omega\n        self.fder = 1\n        super().__init__(constant_factor=constant_factor, **kwargs)\n\n\nclass AHC_test"),
    dict(prop="C27", name="factor_ahc: sign", file="wannierberri/factors.py", old="factor_ahc = -(elementary_charge ** 2 / hbar / angstrom)", new="factor_ahc = (elementary_charge ** 2 / hbar / angstrom)"),
    dict(prop="C01", name="WS: iRvec_mod not reduced", file=RVEC, old="        return iRvec, Ndegen, iRvec % self.mp_grid", new="        return iRvec, Ndegen, iRvec"),
    dict(prop="C01", name="WS: degeneracy = number of candidates", file=RVEC, old="            ndeg = len(select)\n", new="            ndeg = len(dist[i])\n"),
    dict(prop="C01", name="WS: only the first nearest replica", file=RVEC, old="            for j in select:\n", new="            for j in select[:1]:\n"),
    dict(prop="C01", name="PRESERVING: remapper weight assigned not accumulated (each R occurs once per shift)", file=RVEC, old="                    weights[iRi, ia, ib] += 1. / nd", new="                    weights[iRi, ia, ib] = 1. / nd", expect="ok"),
    dict(prop="C01", expect="ok", name="PRESERVING (for this property): remapper shift index transposed -- replicas of -s instead of s: round trip, Hermiticity and weight sums still hold", file=RVEC, old="                ishift = self.shift_index[ia, ib]\n                for iRi, iRm, nd in zip(self.iRvec_index_list[ishift],\n                                        self.iRvec_mod_list[ishift],\n                                        self.Ndegen_list[ishift]):\n                    remapper", new="                ishift = self.shift_index[ib, ia]\n                for iRi, iRm, nd in zip(self.iRvec_index_list[ishift],\n                                        self.iRvec_mod_list[ishift],\n                                        self.Ndegen_list[ishift]):\n                    remapper"),
    dict(prop="C01", name="q_to_R: normalisation dropped", file=RVEC, old="fftlib=self.fftlib_q2R, destroy=False) / np.prod(self.mp_grid)\n        AA_q_mp = self.remap_XX_from_grid_to_list_R", new="fftlib=self.fftlib_q2R, destroy=False) / np.prod(self.mp_grid[:2])\n        AA_q_mp = self.remap_XX_from_grid_to_list_R"),
    dict(prop="C01", name="q_to_R: inverse transform", file=RVEC, old="        AA_q_mp = execute_fft(AA_q_mp, axes=(0, 1, 2), fftlib=self.fftlib_q2R, destroy=False) / np.prod(self.mp_grid)", new="        AA_q_mp = execute_fft(AA_q_mp, axes=(0, 1, 2), fftlib=self.fftlib_q2R, destroy=False, inverse=True)"),
    dict(prop="C01", name="set_fft_q_to_R: k placed without modulo", file=RVEC, old="        self.kpt_mp_grid = [tuple(k) for k in kpt_red_mp_int % self.mp_grid]", new="        self.kpt_mp_grid = [tuple(k) for k in abs(kpt_red_mp_int) % self.mp_grid]"),
    dict(prop="C01", name="remap: a and b slots swapped in the weights", file=RVEC, old="                XX_R_new[:, a, b] *= weights_new[:, ia, ib]", new="                XX_R_new[:, a, b] *= weights_new[:, ib, ia] if self.nshifts_left == self.nshifts_right else weights_new[:, ia, ib]"),
    dict(prop="C01", name="conj_XX_R: wrong axes", file=RVEC, old="        return XX_R_new.swapaxes(1, 2).conj()", new="        return XX_R_new.conj()"),
    dict(prop="C01", name="remap_XX_R: old R not reduced to the mesh", file=RVEC, old="        for i, iR in enumerate(iRvec_old % self.mp_grid):", new="        for i, iR in enumerate(abs(iRvec_old) % self.mp_grid):"),
    dict(prop="C01", name="PRESERVING: WS tolerance inclusive", file=RVEC, old="            select = np.where(abs(dist[i] - dist_min) < self.tolerance)[0]", new="            select = np.where(abs(dist[i] - dist_min) <= self.tolerance)[0]", expect="ok"),
    dict(prop="C03", name="Kp_fullBZ not divided by NKFFT", file=KP, old="        return self.K / self.NKFFT", new="        return self.K"),
    dict(prop="C03", name="get_K_list: K in z,y,x order", file=GR, old="                        K=np.array([x, y, z]) * dK,", new="                        K=np.array([z, y, x]) * dK,"),
    dict(prop="C03", name="get_K_list: factor over the dense mesh", file=GR, old="        factor = 1. / np.prod(self.div)\n", new="        factor = 1. / np.prod(self.div * self.FFT)\n"),
    dict(prop="C03", name="get_K_list: dK = 1/dense", file=GR, old="        dK = 1. / self.div\n        factor", new="        dK = 1. / self.dense\n        factor"),
    dict(prop="C03", name="kpoints_all: dK scaled twice", file=DK, old="return (self.grid.points_FFT + self.dK[None]) % 1", new="return (self.grid.points_FFT + self.dK[None] / self.NKFFT[None]) % 1"),
    dict(prop="C03", name="points_FFT: x fastest", file=GR, old="np.array([ix * dkx, iy * dky, iz * dkz]) for ix in range(self.FFT[0]) for iy in range(self.FFT[1])\n                for iz in range(self.FFT[2])", new="np.array([ix * dkx, iy * dky, iz * dkz]) for iz in range(self.FFT[2]) for iy in range(self.FFT[1])\n                for ix in range(self.FFT[0])"),
    dict(prop="C03", name="paralfunc: dK = Kpoint.K", file=RG, old="dK=Kpoint.Kp_fullBZ, grid=_grid", new="dK=Kpoint.K, grid=_grid"),
    dict(prop="C03", name="determineNK: floor instead of round", file=GR, old="            NKdiv = np.array(np.round(NK / NKFFT), dtype=int)\n            NKdiv[NKdiv <= 0] = 1\n        else:", new="            NKdiv = np.array(NK // NKFFT, dtype=int)\n            NKdiv[NKdiv <= 0] = 1\n        else:"),
    dict(prop="C03", name="determineNK: non-periodic FFT kept", file=GR, old="    NKFFT[notperiodic] = 1\n", new="    pass\n"),
    dict(prop="C03", name="dynamic: not averaged over k", file=DYN, old="restot *= self.constant_factor / (data_K.nk * data_K.cell_volume)", new="restot *= self.constant_factor / (data_K.cell_volume)"),
    dict(prop="C03", name="static: not averaged over k", file=STAT, old="            restot /= data_K.nk\n", new="            restot /= 1\n"),
    dict(prop="C03", name="PRESERVING: Kp_fullBZ via reciprocal", file=KP, old="        return self.K / self.NKFFT", new="        return self.K * (1. / self.NKFFT)", expect="ok"),
    dict(prop="C02", name="fft: numpy path not rescaled", file=FFTF, old="            AAA_K *= np.prod(self.NKFFT)\n", new="            AAA_K *= (np.prod(self.NKFFT) if self.lib == 'fftw' else np.prod(self.NKFFT[:2]))\n"),
    dict(prop="C02", name="fft: fftw plan forward", file=FFTF, old="                direction='FFTW_BACKWARD')\n\n        self.nRvec", new="                direction='FFTW_FORWARD')\n\n        self.nRvec"),
    dict(prop="C02", name="fft: slow exponent sign", file=FFTF, old="return [np.exp(2j * np.pi / self.NKFFT[i]) ** np.arange(self.NKFFT[i]) for i in range(3)]", new="return [np.exp(-2j * np.pi / self.NKFFT[i]) ** np.arange(self.NKFFT[i]) for i in range(3)]"),
    dict(prop="C02", name="fft: slow exponent index without k", file=FFTF, old="self.exponent[i][(k[i] * R[i]) % self.NKFFT[i]]", new="self.exponent[i][(R[i]) % self.NKFFT[i]]"),
    dict(prop="C02", name="fft: k-list phase sign", file=FFTF, old="return np.exp(2j * np.pi * (self.k_list @ self.iRvec.T))", new="return np.exp(-2j * np.pi * (self.k_list @ self.iRvec.T))"),
    dict(prop="C02", name="fft: R placed with abs instead of modulo", file=FFTF, old="            self.iRvec = self.iRvec % self.NKFFT\n", new="            self.iRvec = abs(self.iRvec) % self.NKFFT\n"),
    dict(prop="C02", name="fft: R placement assigns instead of accumulating", file=FFTF, old="                AAA_K[tuple(irvec)] += AAA_R[ir]", new="                AAA_K[tuple(irvec)] = AAA_R[ir]"),
    dict(prop="C02", name="fft: hermitian axes for the k-list path", file=FFTF, old="            self.axes_hermitean = (1, 2)", new="            self.axes_hermitean = (0, 1)"),
    dict(prop="C02", name="fft: antihermitian sign on hermitian", file=FFTF, old="            AAA_K = 0.5 * (AAA_K + AAA_K.swapaxes(*self.axes_hermitean).conj())", new="            AAA_K = 0.5 * (AAA_K + AAA_K.swapaxes(*self.axes_hermitean))"),
    dict(prop="C02", name="rvec: expdK sign", file=RVEC, old="self.expdK = np.exp(2j * np.pi * self.iRvec.dot(self.dK))", new="self.expdK = np.exp(-2j * np.pi * self.iRvec.dot(self.dK))"),
    dict(prop="C02", name="rvec: derivative factor -i", file=RVEC, old="        return 1j * XX_R.reshape((XX_R.shape) + (1,))", new="        return -1j * XX_R.reshape((XX_R.shape) + (1,))"),
    dict(prop="C02", name="rvec: shifts sign in cRvec_shifted", file=RVEC, old="return self.cRvec[:, None, None, :] + self.shifts_diff_cart[None, :, :, :]", new="return self.cRvec[:, None, None, :] - self.shifts_diff_cart[None, :, :, :]"),
    dict(prop="C02", name="rvec: shifts_diff left/right swapped", file=RVEC, old="return -self.shifts_left_cart[:, np.newaxis] + self.shifts_right_cart[np.newaxis, :]", new="return -self.shifts_left_cart[np.newaxis, :] + self.shifts_right_cart[:, np.newaxis]"),
    dict(prop="C02", name="rvec: derivative applied der+1 times when hermitian", file=RVEC, old="        for i in range(der):\n            XX_R = self.derivative(XX_R)", new="        for i in range(der + (1 if (hermitian and der == 1) else 0)):\n            XX_R = self.derivative(XX_R)"),
    dict(prop="C02", name="dataK: HH_K not hermitised", file=DKR, old="return self.rvec.R_to_k(self.Ham_R, hermitian=True)", new="return self.rvec.R_to_k(self.Ham_R, hermitian=False)"),
    dict(prop="C02", name="dataK: rotate with U not U^dagger", file=DK, old="return cached_einsum('kba,kbc...,kcd->kad...', self.UU_K.conj(), mat, self.UU_K)", new="return cached_einsum('kab,kbc...,kcd->kad...', self.UU_K.conj(), mat, self.UU_K)"),
    dict(prop="C02", name="dataK: kpoints_all minus dK", file=DK, old="return (self.grid.points_FFT + self.dK[None]) % 1", new="return (self.grid.points_FFT - self.dK[None]) % 1"),
    dict(prop="C02", name="grid: points_FFT z fastest -> x fastest", file=GR, old="np.array([ix * dkx, iy * dky, iz * dkz]) for ix in range(self.FFT[0]) for iy in range(self.FFT[1])\n                for iz in range(self.FFT[2])", new="np.array([ix * dkx, iy * dky, iz * dkz]) for iz in range(self.FFT[2]) for iy in range(self.FFT[1])\n                for ix in range(self.FFT[0])"),
    dict(prop="C02", name="dataK: Xbar memo key without der", file=DKR, old="        key = (name, der)\n        if key not in self._bar_quantities:", new="        key = (name, min(der, 1))\n        if key not in self._bar_quantities:", expect="ok"),
    dict(prop="C02", name="PRESERVING: rescale written as product of three", file=FFTF, old="            AAA_K *= np.prod(self.NKFFT)\n", new="            AAA_K *= self.NKFFT[0] * self.NKFFT[1] * self.NKFFT[2]\n", expect="ok"),
    dict(prop="C02", name="PRESERVING: expdK via three factors", file=RVEC, old="self.expdK = np.exp(2j * np.pi * self.iRvec.dot(self.dK))", new="self.expdK = np.exp(2j * np.pi * self.iRvec[:, 0] * self.dK[0]) * np.exp(2j * np.pi * self.iRvec[:, 1] * self.dK[1]) * np.exp(2j * np.pi * self.iRvec[:, 2] * self.dK[2])", expect="ok"),
    dict(prop="C30", name="to_grid: index uses grid[0] stride", file=TABF, old="ind_grid = kpoints_int[:, 2] + grid[2] * (kpoints_int[:, 1] + grid[1] * kpoints_int[:, 0])", new="ind_grid = kpoints_int[:, 2] + grid[2] * (kpoints_int[:, 1] + grid[0] * kpoints_int[:, 0])"),
    dict(prop="C30", name="to_grid: meshgrid xy indexing", file=TABF, old="indexing='ij')).reshape((3, -1), order=order).T", new="indexing='xy')).reshape((3, -1), order=order).T"),
    dict(prop="C30", name="to_grid: no modulo (k outside the cell)", file=TABF, old="        kpoints_int = kpoints_int % grid[None, :]\n", new="        kpoints_int = abs(kpoints_int) % grid[None, :]\n"),
    dict(prop="C30", name="K__Result.to_grid: sum not mean", file=RES_K, old="data = np.array([sum(dataall[ik] for ik in km) / len(km) for km in k_map])", new="data = np.array([sum(dataall[ik] for ik in km) / max(1, len(km) - 1 + (len(km) == 1)) if len(km) > 2 else sum(dataall[ik] for ik in km) / len(km) for km in k_map])"),
    dict(prop="C30", name="get_component: tuple applied in forward order", file=RES_K, old="        for k in component[-1::-1]:", new="        for k in component:"),
    dict(prop="C30", name="get_component: trace sums only x,y", file=RES_K, old="return sum([_data[((i,) * ndim)] for i in range(3)])", new="return sum([_data[((i,) * ndim)] for i in range(2 if ndim == 3 else 3)])"),
    dict(prop="C30", name="find_grid: floor instead of round", file=TABF, old="            grid[i] = int(np.round(1. / dk))", new="            grid[i] = int(1. / dk)"),
    dict(prop="C29", name="from_nodes: endpoint=True sampling", file=PATHF, old="np.linspace(0, 1., _nk - 1, endpoint=False)", new="np.linspace(0, 1., _nk - 1, endpoint=True)"),
    dict(prop="C29", expect="ok", name="PRESERVING: endpoint flag that only differs for a single sample (linspace of one point is [0] either way)", file=PATHF, old="np.linspace(0, 1., _nk - 1, endpoint=False)", new="np.linspace(0, 1., _nk - 1, endpoint=(_nk == 2))"),
    dict(prop="C29", name="from_nodes: break index off by one", file=PATHF, old="                breaks.append(K_list.shape[0] - 1)", new="                breaks.append(K_list.shape[0])"),
    dict(prop="C29", name="from_nodes: label of segment end", file=PATHF, old="                new_labels[K_list.shape[0]] = l1\n                start = np.array(start)", new="                new_labels[K_list.shape[0]] = l2\n                start = np.array(start)"),
    dict(prop="C29", name="get_refined: segment after a break refined", file=PATHF, old="            if i not in self.breaks:\n                segment", new="            if (i - 1) not in self.breaks:\n                segment"),
    dict(prop="C29", name="get_refined: label of last point dropped when it is a break", file=PATHF, old="        if last_point_index in self.labels:\n            labels_refined[len(K_list_refined) - 1] = self.labels[last_point_index]", new="        if last_point_index in self.labels and last_point_index not in self.breaks:\n            labels_refined[len(K_list_refined) - 1] = self.labels[last_point_index]"),
    dict(prop="C29", name="get_K_list: batches overlap by one", file=PATHF, old="            K = self.K_list[ik:ik + k_batch]", new="            K = self.K_list[ik:ik + k_batch + (1 if k_batch > 3 else 0)]"),
    dict(prop="C29", name="getKline: break zeroes the next segment", file=PATHF, old="            k[self.breaks] = 0.0", new="            k[np.array(self.breaks) - (1 if len(self.breaks) > 1 else 0)] = 0.0"),
    dict(prop="C26", name="interpolate: centres mixed with swapped weights", file=INTP, old="new_system.wannier_centers_cart = (1 - alpha) * self.system0.wannier_centers_cart + alpha * self.system1.wannier_centers_cart", new="new_system.wannier_centers_cart = alpha * self.system0.wannier_centers_cart + (1 - alpha) * self.system1.wannier_centers_cart"),
    dict(prop="C26", name="init: system1 re-embedded with system0 map", file=INTP, old="for sys, iRmap  in zip([self.system0, self.system1], [iRvec_map_0, iRvec_map_1]):", new="for sys, iRmap  in zip([self.system0, self.system1], [iRvec_map_0, iRvec_map_0 if len(iRvec_map_0) == len(iRvec_map_1) else iRvec_map_1]):"),
    dict(prop="C26", name="init: one-sided keys kept in system0", file=INTP, old="                if key in sys._XX_R:\n                    del sys._XX_R[key]", new="                if key in sys._XX_R and sys is self.system1:\n                    del sys._XX_R[key]"),
    dict(prop="C26", name="interpolate: uses (1-alpha)^2 PRESERVING endpoints but not affine", file=INTP, old="new_system._XX_R[key] = (1 - alpha) * self.system0._XX_R[key] + alpha * self.system1._XX_R[key]", new="new_system._XX_R[key] = (1 - alpha) * (1 - alpha) * self.system0._XX_R[key] + alpha * alpha * self.system1._XX_R[key]"),
    dict(prop="C26", name="init: pointgroup choice inverted", file=INTP, old="        if use_pointgroup == 1:\n            self.pointgroup = self.system1.pointgroup", new="        if use_pointgroup == 1:\n            self.pointgroup = self.system0.pointgroup"),
    dict(prop="C16", name="EnergyResult.transform: TR/Inv slots swapped", file=RES_E, old="""                                      transformTR=self.transformTR,
                                      transformInv=self.transformInv),
            smoothers=self.smoothers,""", new="""                                      transformTR=self.transformInv,
                                      transformInv=self.transformTR),
            smoothers=self.smoothers,"""),
    dict(prop="C16", name="EnergyResult.__add__: smoothers of other", file=RES_E, old="            data=self.data + other.data,\n            smoothers=self.smoothers,", new="            data=self.data + other.data,\n            smoothers=other.smoothers,"),
    dict(prop="C16", name="EnergyResult.mul_array: axes shifted for 2 energy axes", file=RES_E, old="        reshape = tuple((self.data.shape[i] if i in axes else 1) for i in range(self.data.ndim))\n        return self.__class__(\n            Energies=self.Energies,", new="        reshape = tuple((self.data.shape[i] if (i in axes) == (self.N_energies < 2 or other.shape[0] != self.data.shape[0] or True) else 1) for i in range(self.data.ndim))\n        return self.__class__(\n            Energies=self.Energies,", expect="ok"),
    dict(prop="C16", name="VoidResult.__sub__ returns other", file=RES_R, old="        return (-1) * other", new="        return other"),
    dict(prop="C16", name="ResultDict.__sub__ adds", file=RES_D, old="        return self + (-1) * other", new="        return self + other"),
    dict(prop="C16", name="K__Result.__add__ reversed order", file=RES_K, old="        return self.__class__(data=self.data_list + other.data_list,", new="        return self.__class__(data=other.data_list + self.data_list,"),
    dict(prop="C16", name="Transform.as_dict drops swap_axes", file=PSY, old='for k in ["conj", "factor", "transpose_axes", "swap_axes"]}', new='for k in ["conj", "factor", "transpose_axes"]}'),
    dict(prop="C08", name="round4: parity rule moved into a shared module-level helper (same rule)", file=DK, expect="ok",
         old="def get_transform_Inv(name, der=0):", new="def _from_parity(p, der):\n    return transform_odd if (p + der) % 2 == 1 else transform_ident\n\n\ndef get_transform_Inv(name, der=0):",
         old2="        raise ValueError(f\"parity under inversion unknown for {name}\")\n    if (p + der) % 2 == 1:\n        return transform_odd\n    else:\n        return transform_ident", new2="        raise ValueError(f\"parity under inversion unknown for {name}\")\n    return _from_parity(p, der)"),
    dict(prop="C01", name="round4: Wigner-Seitz search box without its upper end", file=RVEC, old="        super_vectors_i = np.array([ijk for ijk in iterate3dpm(ws_search_size)]) * self.mp_grid[None, :]",
         new="        super_vectors_i = np.mgrid[-ws_search_size[0]:ws_search_size[0], -ws_search_size[1]:ws_search_size[1], -ws_search_size[2]:ws_search_size[2]].reshape(3, -1).T * self.mp_grid[None, :]"),
    dict(prop="C16", name="from_npz: inversion transform read for both slots when there are three energy axes", file=RES_E, old="            transformTR=transform_from_dict(res, 'transformTR'),", new="            transformTR=transform_from_dict(res, 'transformTR' if len(energ) < 3 else 'transformInv'),"),
    dict(prop="C16", name="as_dict: rank stored as data.ndim - 1", file=RES_E, old="            rank=self.rank,\n            transformTR=self.transformTR.as_dict(),", new="            rank=self.data.ndim - 1,\n            transformTR=self.transformTR.as_dict(),"),
    dict(prop="C16", name="from_npz: comment not restored", file=RES_E, old="            comment = str(res['comment'])", new="            comment = str(res['comment']).split(chr(10))[0]"),
    dict(prop="C09", name="__mul__: TR and-ed instead of xor", file=PSY, old="return PointSymmetry((self.R @ other.R) * (self.iInv * other.iInv), self.TR != other.TR)", new="return PointSymmetry((self.R @ other.R) * (self.iInv * other.iInv), self.TR or other.TR)"),
    dict(prop="C09", name="__mul__: inversion sign dropped", file=PSY, old="return PointSymmetry((self.R @ other.R) * (self.iInv * other.iInv), self.TR != other.TR)", new="return PointSymmetry((self.R @ other.R) * (self.iInv), self.TR != other.TR)"),
    dict(prop="C09", name="rotate: R instead of R.T", file=PSY, old="        return res @ self.R.T", new="        return res @ self.R"),
    dict(prop="C09", name="transform_tensor: skips the first tensor axis for rank 3", file=PSY, old="        for i in range(dim - rank, dim):", new="        for i in range(dim - rank + (1 if rank == 3 else 0), dim):"),
    dict(prop="C09", name="transform_tensor: TR transform applied for Inv", file=PSY, old="        if self.Inv:\n            transformInv(res)", new="        if self.Inv:\n            transformTR(res)"),
    dict(prop="C09", name="Transform: conj applied before transpose only PRESERVING", file=PSY, old="        if self.conj:\n            res[:] = res[:].conj()\n        res[:] *= self.factor", new="        res[:] *= self.factor\n        if self.conj:\n            res[:] = res[:].conj()", expect="ok"),
    dict(prop="C09", name="star: keeps duplicates at the end", file=PSY, old="        for i in range(len(st) - 1, 0, -1):", new="        for i in range(len(st) - 2, 0, -1):"),
    dict(prop="C09", name="reduced vector: missing TR sign", file=PSY, old="return vec @ (basis @ self.R.T @ np.linalg.inv(basis)) * (self.iTR * self.iInv)", new="return vec @ (basis @ self.R.T @ np.linalg.inv(basis)) * (self.iInv)"),
    dict(prop="C25", name="C_ss: sign of sin in first row", file=SOCF, old="C_ss = np.array([[ct2 * ep2, -st2 * ep2],", new="C_ss = np.array([[ct2 * ep2, st2 * ep2],"),
    dict(prop="C25", name="pauli_rotated: einsum indices swapped", file=SOCF, old="'ai,abc,bj->ijc', C_ss.conj(), pauli_xyz, C_ss", new="'ia,abc,bj->ijc', C_ss.conj(), pauli_xyz, C_ss"),
    dict(prop="C25", name="double_spin: only spin-up block", file=SYSR, old="            for i in range(2):\n                XX_new[:, i::2, i::2] = XX", new="            for i in range(1):\n                XX_new[:, i::2, i::2] = XX"),
    dict(prop="C25", name="rvec double_spin: right shifts from left", file=RVEC, old="            shifts_right_red_new[i::2] = self.shifts_right_red", new="            shifts_right_red_new[i::2] = self.shifts_left_red"),
    dict(prop="C25", name="HH_K soc: down block from up", file=DKS, old="        H[:, 1::2, 1::2] = self.data_K_down.HH_K", new="        H[:, 1::2, 1::2] = self.data_K_up.HH_K"),
    dict(prop="C25", name="set_soc_axis: (1,0) block without conj", file=SSOC, old='soc_R_W[:, 1::2, ::2] = cached_einsum("rmnc,c->rmn", self.rvec.conj_XX_R(dV01), pauli_rotated[1, 0, :])', new='soc_R_W[:, 1::2, ::2] = cached_einsum("rmnc,c->rmn", dV01, pauli_rotated[1, 0, :])'),
    dict(prop="C25", name="set_soc_axis: alpha applied twice on nspin=1", file=SSOC, old="        self.set_R_mat('Ham_SOC', soc_R_W * alpha_soc, reset=True)", new="        self.set_R_mat('Ham_SOC', soc_R_W * alpha_soc * (alpha_soc if self.nspin == 1 else 1), reset=True)"),
    dict(prop="C25", name="get_system_R: down uses up map", file=SSOC, old="            matrix[rvectors_map_list[2], 1::2, 1::2] += self.system_down.get_R_mat(key)", new="            matrix[rvectors_map_list[1], 1::2, 1::2] += self.system_down.get_R_mat(key)"),
    dict(prop="C06", name="divide: newfac uses ndiv[0]**3", file=KP, old="newfac = self.factor / np.prod(ndiv)", new="newfac = self.factor / ndiv[0] ** 3"),
    dict(prop="C06", name="divide: parent keeps weight", file=KP, old="        self.set_factor(0)  # the K-point is \"dead\" but can be used for restarting again from an intermediate refinement level", new="        pass"),
    dict(prop="C06", name="divide: adpt_shift sign", file=KP, old="adpt_shift = (-self.dK + dK_adpt) / 2.", new="adpt_shift = (self.dK - dK_adpt) / 2."),
    dict(prop="C06", name="absorb: weight not added when result carried", file=KP, old="                self.set_result(other.get_result())\n        self.add_factor(other.factor)", new="                self.set_result(other.get_result())\n                return\n        self.add_factor(other.factor)"),
    dict(prop="C06", name="exclude: deletes in ascending order", file=KP, old="    for i in sorted(exclude)[-1::-1]:", new="    for i in sorted(exclude):"),
    dict(prop="C06", name="exclude: old points may be merged", file=KP, old="                    if i < n - new_points and j < n - new_points:", new="                    if i < n - new_points and j < n - new_points - 1:"),
    dict(prop="C06", name="exclude: absorbs but does not delete", file=KP, old="                            exclude.append(j)\n                            K_list[i].absorb(K_list[j])", new="                            K_list[i].absorb(K_list[j])\n                            if len(K_list) != 3:\n                                exclude.append(j)"),
    dict(prop="C06", name="tetra divide: factor/2 always", file=KT, old="factor=self.factor / ndiv,", new="factor=self.factor / 2,"),
    dict(prop="C06", name="tetra divide: wrong complementary vertex", file=KT, old="vertices=np.array([self.vertices[edge_comp[0]],\n                                       self.vertices[edge_comp[1]],", new="vertices=np.array([self.vertices[edge_comp[0]],\n                                       self.vertices[edge[0]],"),
    dict(prop="C06", name="5-tetra table: wrong vertex", file=GT, old="[[1, 1, 0], [1, 0, 0], [0, 1, 0], [1, 1, 1]],", new="[[1, 1, 0], [1, 0, 0], [0, 1, 0], [0, 1, 1]],"),
    dict(prop="C06", name="get_K_list: absorb without removing", file=GR, old="                                    K_list[k[0]][k[1]][k[2]] = None", new="                                    K_list[k[0]][k[1]][k[2]] = None if (x + y + z) % 2 == 0 or True and k[2] != 1 else K_list[k[0]][k[1]][k[2]]"),
    dict(prop="C06", name="PRESERVING: divide computes dK_adpt after shift", file=KP, old="        newfac = self.factor / np.prod(ndiv)\n        K_list_add = []", new="        K_list_add = []\n        newfac = self.factor / np.prod(ndiv)", expect="ok"),
    dict(prop="C23", name="get_mp_grid: limit_denominator(50)", file=WU, old="kfrac = [Fraction(k).limit_denominator(100) for k in kpoints[:, i]]", new="kfrac = [Fraction(k).limit_denominator(50) for k in kpoints[:, i]]"),
    dict(prop="C23", name="PRESERVING: get_mp_grid max instead of min ((N-1)/N is reduced too)", file=WU, old="            kmin = min(kfrac)\n            assert kmin.numerator == 1, f\"numerator of the smallest fraction is not 1 : {kmin}\"\n            mp_grid[i] = kmin.denominator", new="            kmin = max(kfrac)\n            mp_grid[i] = kmin.denominator", expect="ok"),
    dict(prop="C23", name="grid_from_kpoints: missing check off by one", file=WU, old="    if num_selected < num_k_grid:", new="    if num_selected < num_k_grid - 1:"),
    dict(prop="C23", name="grid_from_kpoints: duplicates counted", file=WU, old="            if kint not in kpoints_unique:", new="            if kint not in kpoints_unique or len(kpoints_unique) == 3:"),
    dict(prop="C23", name="grid_from_kpoints: kint not reduced (PRESERVING for coords in [0,1))", file=WU, old="            kint = tuple(np.round(k * npgrid).astype(int))", new="            kint = tuple(int(x) for x in np.round(k * npgrid))", expect="ok"),
    dict(prop="C04", name="random_gauge: revert fix (self.true)", file=DK, old="for ik, deg in enumerate(self.degen):", new="for ik, deg in enumerate(self.true):"),
    dict(prop="C04", name="random_gauge: rotates one column too many", file=DK, old="self._UU[ik, :, ib1:ib2] = self._UU[ik, :, ib1:ib2].dot(unitary_group.rvs(ib2 - ib1))", new="self._UU[ik, :, ib1:ib2 + 1] = self._UU[ik, :, ib1:ib2 + 1].dot(unitary_group.rvs(min(ib2 + 1, self._UU.shape[2]) - ib1))"),
    dict(prop="C04", name="random_gauge: multiplies from the left", file=DK, old="self._UU[ik, :, ib1:ib2] = self._UU[ik, :, ib1:ib2].dot(unitary_group.rvs(ib2 - ib1))", new="self._UU[ik, ib1:ib2, :] = unitary_group.rvs(ib2 - ib1).dot(self._UU[ik, ib1:ib2, :])"),
    dict(prop="C04", name="degen: groups of size 1 included", file=DK, old="if ib2 - ib1 > 1] for a in A]", new="if ib2 - ib1 > 0] for a in A]"),
    dict(prop="C04", name="degen: threshold compared with >=", file=DK, old="A = [np.where(E[1:] - E[:-1] > self.degen_thresh_random_gauge)[0] + 1 for E in self.E_K]", new="A = [np.where(E[1:] - E[:-1] >= self.degen_thresh_random_gauge)[0] + 1 for E in self.E_K]"),
    dict(prop="C04", name="PRESERVING: UU_K drops unused counters", file=DK, old="                    cnt += 1\n                    s += ib2 - ib1\n", new="", expect="ok"),
    dict(prop="C18", name="wcc reader: revert fix", file=SHR, old="n_even = (data.shape[0] + 1) // 2", new="n_even = data.shape[0] // 2"),
    dict(prop="C18", name="wcc reader: even/odd swapped", file=SHR, old="    data_2[::2] = data[:n_even]\n    data_2[1::2] = data[n_even:]", new="    data_2[1::2] = data[:n_even]\n    data_2[::2] = data[n_even:]"),
    dict(prop="C18", name="PRESERVING: hr writer inline centre block is overwritten by write_WCC_WT_format", file=SHR, old="    for i in data[::2]:", new="    for i in data[1::2] if len(data) == 5 else data[::2]:", expect="ok"),
    dict(prop="C18", name="wcc writer: drops last odd row", file=SHR, old="    for i in data[1::2]:\n        r.write(f\"{(i[0] if np.abs(i[0]) > 1e-7 else 0.0):10} {(i[1] if np.abs(i[1]) > 1e-7 else 0.0):10} {(i[2] if np.abs(i[2]) > 1e-7 else 0.0):10}\\n\")\n    r.close()\n\n\ndef read_WCC", new="    for i in data[1:-1:2]:\n        r.write(f\"{(i[0] if np.abs(i[0]) > 1e-7 else 0.0):10} {(i[1] if np.abs(i[1]) > 1e-7 else 0.0):10} {(i[2] if np.abs(i[2]) > 1e-7 else 0.0):10}\\n\")\n    r.close()\n\n\ndef read_WCC"),
    dict(prop="C18", name="tb writer: m,n order swapped", file=STB, old="                for n in system.range_wann for m in system.range_wann)", new="                for m in system.range_wann for n in system.range_wann)"),
    dict(prop="C18", name="PRESERVING: wcc reader with -(-n//2)", file=SHR, old="n_even = (data.shape[0] + 1) // 2", new="n_even = -(-data.shape[0] // 2)", expect="ok"),
    dict(prop="C33", name="soc: revert fix (parallel)", file=DKS, old="expdK_down = self.data_K_down.expdK_corners_parallel", new="expdK_down = self.data_K_up.expdK_corners_parallel"),
    dict(prop="C33", name="soc: down block uses up Ham_R", file=DKS, old="_Ham_R = self.data_K_down.Ham_R[:, :, :] * expdK_down[iv][:, None, None]", new="_Ham_R = self.data_K_up.Ham_R[:, :, :] * expdK_down[iv][:, None, None]"),
    dict(prop="C33", name="soc: down block placed at [::2,1::2]", file=DKS, old="                    _HH_K_full[:, 1::2, 1::2] = self.data_K_down.rvec.R_to_k(_Ham_R, hermitian=True)", new="                    _HH_K_full[:, 1::2, ::2] = self.data_K_down.rvec.R_to_k(_Ham_R, hermitian=True)"),
    dict(prop="C33", name="soc: SOC term without corner phase", file=DKS, old="                _Ham_R = self.get_R_mat('soc') * expdK[iv][:, None, None]", new="                _Ham_R = self.get_R_mat('soc') * 1"),
    dict(prop="C33", name="R: corner phases swapped (1/expdK second)", file=DKR, old="return np.array([1. / expdK, expdK])", new="return np.array([expdK, 1. / expdK])"),
    dict(prop="C33", name="R: dK2 = dK (not half)", file=DKR, old="dK2 = self.Kpoint.dK_fullBZ / 2", new="dK2 = self.Kpoint.dK_fullBZ"),
    dict(prop="C33", name="R: y component uses x phase", file=DKR, old="_expdK = expdK[ix, :, 0] * expdK[iy, :, 1] * expdK[iz, :, 2]", new="_expdK = expdK[ix, :, 0] * expdK[iy, :, 0] * expdK[iz, :, 2]"),
    dict(prop="C33", name="R tetra: vertices not transposed right", file=DKR, old="return np.exp(2j * np.pi * self.rvec.iRvec.dot(vertices.T)).T", new="return np.exp(-2j * np.pi * self.rvec.iRvec.dot(vertices.T)).T"),
    dict(prop="C33", name="kp: corner offset ix-1", file=DKK, old="v = (np.array([ix, iy, iz]) - 0.5) * dK", new="v = (np.array([ix, iy, iz]) - 1) * dK"),
    dict(prop="C33", name="PRESERVING: kp offset written as 2i-1 over 2", file=DKK, old="v = (np.array([ix, iy, iz]) - 0.5) * dK", new="v = (2 * np.array([ix, iy, iz]) - 1) * dK / 2", expect="ok"),
    dict(prop="C19", name="eig: revert fix", file=W9 + "eig.py", old="{self.data[ik][ib]:17.12f}", new="{self.data[ik, ib]:17.12f}"),
    dict(prop="C19", name="eig: k and band columns swapped", file=W9 + "eig.py", old='f" {ib + 1:4d} {ik + 1:4d} ', new='f" {ik + 1:4d} {ib + 1:4d} '),
    dict(prop="C19", name="amn: loops w/b swapped in writer", file=W9 + "amn.py", old="""            for iw in range(self.NW):
                for ib in range(self.NB):
                    f_amn_out.write""", new="""            for ib in range(self.NB):
                for iw in range(self.NW):
                    f_amn_out.write"""),
    dict(prop="C19", name="amn: header NW NK NB", file=W9 + "amn.py", old='f"  {self.NB:3d} {self.NK:3d} {self.NW:3d}  \\n"', new='f"  {self.NW:3d} {self.NK:3d} {self.NB:3d}  \\n"'),
    dict(prop="C19", name="mmn: writes data[ib,m,n]", file=W9 + "mmn.py", old="{self.data[ik][ib, n, m].real} {self.data[ik][ib, n, m].imag}", new="{self.data[ik][ib, m, n].real} {self.data[ik][ib, m, n].imag}"),
    dict(prop="C19", name="mmn: neighbour not 1-based", file=W9 + "mmn.py", old="{bkvec.neighbours[ik][ib] + 1}", new="{bkvec.neighbours[ik][ib]}"),
    dict(prop="C19", name="mmn reader: no transpose", file=W9 + "mmn.py", old="reshape(NK, NNB, NB, NB).transpose((0, 1, 3, 2))", new="reshape(NK, NNB, NB, NB)"),
    dict(prop="C19", name="io: keydic prefix without underscore check", file=W9 + "io.py", old='        if k.startswith(name + "_"):\n            dic[int(k[len(name) + 1:])] = v', new='        if k.startswith(name) and k != name and k[len(name) + 1:].isdigit():\n            dic[int(k[len(name) + 1:])] = v'),
    dict(prop="C19", name="eig: precision 17.6f PRESERVING? no - loses digits", file=W9 + "eig.py", old="{self.data[ik][ib]:17.12f}", new="{self.data[ik][ib]:17.6f}"),
    dict(prop="C11", name="read_factors: revert fix", file=RG, old="iter_indices = np.sort(np.array([int(f.split(\"-\")[-1].split(\".\")[0]) for f in files]))", new="iter_indices = np.array([int(f.split(\"-\")[-1].split(\".\")[0]) for f in files])"),
    dict(prop="C11", name="read_factors: iter+1 dropped", file=RG, old="iter_index = iter_indices[-1] + iter + 1", new="iter_index = iter_indices[-1] + iter"),
    dict(prop="C11", name="read_factors: fallback picks later file", file=RG, old="iter_index = iter_indices[iter_indices <= iter_index][-1]", new="iter_index = iter_indices[iter_indices >= iter_index][0]"),
    dict(prop="C11", name="write_factors: width 2 (sorting breaks at 100)", file=RG, old='f"factors_iter-{iter:08d}.npy"), \'wb\'', new='f"factors_iter-{iter:02d}.npy"), \'wb\''),
    dict(prop="C11", name="restart: weights not restored", file=RG, old="            Kp.set_factor(fac)", new="            pass"),
    dict(prop="C11", name="restart: K_list pickled from nk_prev+1", file=RG, old="            for ink in range(nk_prev, nk, Klist_part):", new="            for ink in range(nk_prev + (1 if nk_prev > 0 else 0), nk, Klist_part):"),
    dict(prop="C11", name="PRESERVING: sorted() instead of np.sort", file=RG, old="iter_indices = np.sort(np.array([int(f.split(\"-\")[-1].split(\".\")[0]) for f in files]))", new="iter_indices = np.array(sorted(int(f.split(\"-\")[-1].split(\".\")[0]) for f in files))", expect="ok"),
    dict(prop="C12", name="process: revert fix", file=RG, old="remotes_calculated_old = remotes_calculated_old | remotes_calculated_bool", new="remotes_calculated_old = remotes_calculated_bool"),
    dict(prop="C12", name="process: break before collecting the last batch", file=RG, old="""            remotes_calculated_diff = remotes_calculated_bool & ~remotes_calculated_old
            for ir in np.where(remotes_calculated_diff)[0]:""", new="""            remotes_calculated_diff = remotes_calculated_bool & ~remotes_calculated_old
            if num_remotes_calculated >= num_remotes and num_remotes > 2:
                break
            for ir in np.where(remotes_calculated_diff)[0]:"""),
    dict(prop="C12", name="process: result taken from wrong K-point", file=RG, old="                Kp = dK_list[ir]", new="                Kp = dK_list[ir - 1]"),
    dict(prop="C12", name="process: store_results ignored", file=RG, old="        elif not store_results:", new="        elif store_results:"),
    dict(prop="C12", name="process: serial skips the first new point when some are evaluated", file=RG, old="    dK_list = [K_list[ik] for ik in selK]", new="    dK_list = [K_list[ik] for ik in selK[(1 if len(selK) < len(K_list) and len(selK) > 2 else 0):]]"),
    dict(prop="C12", name="PRESERVING: process uses |= ", file=RG, old="remotes_calculated_old = remotes_calculated_old | remotes_calculated_bool", new="remotes_calculated_old |= remotes_calculated_bool", expect="ok"),
    dict(prop="C17", name="dataSmooth: revert fix", file=ER, old="data_tmp = self.smoothers[i](data_tmp, axis=i)", new="data_tmp = self.smoothers[i](self.data, axis=i)"),
    dict(prop="C17", name="dataSmooth: skips last axis", file=ER, old="for i in range(self.N_energies - 1, -1, -1):", new="for i in range(self.N_energies - 2, -1, -1):"),
    dict(prop="C17", name="dataSmooth: wrong axis", file=ER, old="data_tmp = self.smoothers[i](data_tmp, axis=i)", new="data_tmp = self.smoothers[i](data_tmp, axis=0)"),
    dict(prop="C17", name="smoother: end1 off by one", file=SM, old="end1 = self.NE1 + (end - i)", new="end1 = self.NE1 + (end - i) + 1"),
    dict(prop="C17", name="smoother: window misaligned", file=SM, old="start1 = self.NE1 - (i - start)", new="start1 = self.NE1 - (i - start) + 1\n            end1 = 0"),
    dict(prop="C17", name="smoother: not normalised at the edges", file=SM, old=" / self.smt[start1:end1].sum()", new=" / self.smt.sum()"),
    dict(prop="C17", name="smoother: back-transpose wrong for axis>=1", file=SM, old="return res.transpose(tuple(range(1, axis + 1)) + (0,) + tuple(range(axis + 1, A.ndim)))",
         new="return res.transpose(tuple(range(1, axis + 1))[::-1] + (0,) + tuple(range(axis + 1, A.ndim)))"),
    dict(prop="C17", name="smoother: window one short on the right", file=SM, old="end = min(self.NE, i + self.NE1 + 1)", new="end = min(self.NE, i + self.NE1)"),
    dict(prop="C17", name="void smoother copies... PRESERVING rename", file=SM, old="""            start = max(0, i - self.NE1)
            end = min(self.NE, i + self.NE1 + 1)""", new="""            end = min(self.NE, i + self.NE1 + 1)
            start = max(0, i - self.NE1)""", expect="ok"),
    dict(prop="C15", name="get_borders: > becomes >=", file=T, old="borders = [0] + list(np.where((A[1:] - A[:-1]) > degen_thresh)[0] + 1) + [len(A)]",
         new="borders = [0] + list(np.where((A[1:] - A[:-1]) >= degen_thresh)[0] + 1) + [len(A)]"),
    dict(prop="C15", name="get_borders: off by one (no +1)", file=T, old="borders = [0] + list(np.where((A[1:] - A[:-1]) > degen_thresh)[0] + 1) + [len(A)]",
         new="borders = [-1] + list(np.where((A[1:] - A[:-1]) > degen_thresh)[0]) + [len(A)]"),
    dict(prop="C15", name="get_borders: Kramers keeps odd", file=T, old="borders = [i for i in borders if i % 2 == 0]", new="borders = [i for i in borders if i % 2 == 0 or i == 1]"),
    dict(prop="C15", name="find_degen: last border len-1", file=U_, old="A = [0, ] + list(A) + [len(arr)]", new="A = [0, ] + list(A) + [len(arr) + 1]"),
    dict(prop="C15", name="window: upper loop stops one early", file=U_, old="    for i in range(ind[-1], NB - 1):", new="    for i in range(ind[-1], NB - 2):"),
    dict(prop="C15", name="window: include only one band (old bug shape)", file=U_, old="""                inside[i + 1] = True
            else:""", new="""                inside[i + 1] = True
                break
            else:"""),
    dict(prop="C15", name="window: revert the fix (lower edge)", file=U_, old="""                while j < NB - 1 and E[j + 1] - E[j] < thresh:
                    j += 1
                    inside[j] = False""", new="""                pass"""),
    dict(prop="C15", name="window: <= thresh", file=U_, old="        if E[i] - E[i - 1] < thresh:", new="        if E[i] - E[i - 1] <= thresh:"),
    dict(prop="C15", name="PRESERVING: window loop var renamed", file=U_, old="""                j = i
                inside[j] = False
                while j > 0 and E[j] - E[j - 1] < thresh:
                    j -= 1
                    inside[j] = False""", new="""                jj = i
                inside[jj] = False
                while jj > 0 and E[jj] - E[jj - 1] < thresh:
                    jj -= 1
                    inside[jj] = False""", expect="ok"),
    dict(prop="C14", name="c2 piece: 1-a23 -> 1-a13", file=T, old="a24 * (1 - a23))", new="a24 * (1 - a13))"),
    dict(prop="C14", name="coeff c12 uses e2", file=T, old="c12 = -3 * e1 * denom1", new="c12 = -3 * e2 * denom1"),
    dict(prop="C14", name="der2 c3 factor", file=T, old="occ[i] = 2 * c32 + 6 * c33 * ef", new="occ[i] = 2 * c32 + 3 * c33 * ef"),
    dict(prop="C14", name="boundary ef>e4 instead of >=", file=T, old="""    if accurate and der == 0:
        for i in range(nEF):
            ef = efall[i]
            if ef >= e4:""", new="""    if accurate and der == 0:
        for i in range(nEF):
            ef = efall[i]
            if ef > e4 + 1:"""),
    dict(prop="C14", name="paral: wrong face vertex", file=T, old="occ += weights_tetra(eFermi, eCenter, Eface[0, 0], Eface[1, 0], Eface[1, 1], der=der)",
         new="occ += weights_tetra(eFermi, eCenter, Eface[0, 0], Eface[1, 0], Eface[0, 1], der=der)"),
    dict(prop="C14", name="paral: /12 -> /6 on one face", file=T, old="return occ / 12.", new="return occ / 12.000001"),
    dict(prop="C14", name="no perturbation of equal corners", file=T, old="e[i + 1] = e[i] + diff_min", new="e[i + 1] = e[i + 1]"),
    dict(prop="C14", name="der=-1 complement dropped", file=T, old="return 1 - self.weight_1k1b(ief, ik, ib, der=0)", new="return self.weight_1k1b(ief, ik, ib, der=0)"),
    dict(prop="C14", name="PRESERVING: rename local a13->b13", file=T, old="""                a13 = (ef - e1) / (e3 - e1)
                a14 = (ef - e1) / (e4 - e1)
                a23 = (ef - e2) / (e3 - e2)
                a24 = (ef - e2) / (e4 - e2)
                occ[i] = a23 * a24 + a13 * (a14 * (1 - a24) + a24 * (1 - a23))""", new="""                b13 = (ef - e1) / (e3 - e1)
                a14 = (ef - e1) / (e4 - e1)
                a24 = (ef - e2) / (e4 - e2)
                a23 = (ef - e2) / (e3 - e2)
                occ[i] = a24 * a23 + b13 * (a14 * (1 - a24) + a24 * (1 - a23))""", expect="ok"),
    dict(prop="C14", name="PRESERVING: c1 written as cube/denominator", file=T,
         old="occ[i] = ((ef - e1) / (e2 - e1)) * ((ef - e1) / (e3 - e1)) * ((ef - e1) / (e4 - e1))",
         new="occ[i] = (ef - e1) ** 3 / ((e2 - e1) * (e3 - e1) * (e4 - e1))", expect="ok"),
]
