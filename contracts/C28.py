"""C28  Fermi-sea and Fermi-surface formulations agree.

"Agree up to discretisation error, with the same index order and sign" decomposed into contracts, each decided where it lives:
  continuum identity (mathematics, assumed):  int f(E - E_F) d_a X  =  int (-f') v_a X   over the periodic zone (integration by parts).
  (D) each sea formula is the k-derivative of the surface pair's factor, derivative index LAST:
        InvMass = d v,  DerOmega = d Omega,  DerSpin = d S,  DerMorb = d Morb_Hpm(+),  Der3E = d InvMass
      -- a statement about formulas whose proof is calculus on eigen-decompositions: validated POINTWISE on the installed code by central
      differences of the band-resolved values (bounded, tolerance 1e-5 relative), not proved.
  (P) each surface formula is the band-space product  velocity x X  with the tensor indices in list order (FormulaProduct, real class on
      symbolic factor matrices; the real constructors of VelVel, VelOmega, VelSpin, VelHplus, MassVel, VelVelVel against recording stubs).
  (W) the paired calculators: sea uses the Der formula with fder = 0 and moves the derivative index first where the tensor is not symmetric
      (BerryDipole, GME_spin, GME_orb); the surface one uses the product with fder = 1 (fder = 2 and half the factor for NLDrude_Fermider2);
      both take the same constant factor; GME_orb = H-part - 2 E_F x the Berry-dipole calculator of the same kind.  Real __init__ / __call__
      text against recording stubs, tensors with one symbol per component.
  (F) a calculator with fder = n is the n-th E_F-derivative of the sea calculator of the same formula (C13's unit, registered here): this fixes
      the sign -- fder = 1 integrates against -f' > 0.
Bounded stand-in end to end: random smooth three-band model, Fermi-Dirac smoothing, both calculators of every pair on a grid; tolerance = the
observed discretisation error level of the grid (stated), enough to expose a sign, a transposition or a missing term, not a few per cent.
"""
import contextlib
import io
import types
import warnings

import numpy as rnp

from pyvc.core import ctx, sreal, SNum, SCplx, lift
from pyvc.unit import unit, Unit
from pyvc.npshim import Shim, sym_cplx_array, sym_real_array
from pyvc.phase import linform

F_FORM = "wannierberri/formula/formula.py"
F_COV = "wannierberri/formula/covariant.py"
F_STAT = "wannierberri/calculators/static.py"
F_UT = "wannierberri/utility.py"


def _zero(x, tol=1e-12):
    if isinstance(x, SCplx):
        return _zero(x.re, tol) and _zero(x.im, tol)
    if isinstance(x, (int, float, complex, rnp.generic)):
        return abs(x) < tol
    return z3_zero(x)


def z3_zero(x):
    import z3
    s = z3.Solver()
    s.add(lift(x).t != 0)
    return s.check() == z3.unsat


# ------------------------------------------------------------------ (P) products
@unit("C28", "FormulaProduct: band-space matrix product of the factors, tensor indices in list order", expect_min=4,
      scope="shape:2 and 3 factors of ranks 1, 1-2; one band and a two-band group; symbolic factor matrices")
def _product(U):
    NP = Shim(overrides=dict(array=lambda x, dtype=None: rnp.array(x, dtype=object)))         # np.array(res, dtype=complex): a complex array of the same (symbolic) values
    ce = U.fn(F_UT, "cached_einsum", globs=dict(np=NP, EINSUM_PATH_CACHE={}), model=False, rewrite_comps=False)
    tr = U.fn(F_FORM, "Formula_ln.trace", globs=dict(np=NP, cached_einsum=ce), model=False, rewrite_comps=False)
    Base = type("Formula_ln", (), {"trace": lambda self, ik, inn, out: tr(self, ik, inn, out)})
    rec = []
    FP = U.klass(F_FORM, "FormulaProduct", globs=dict(np=NP, cached_einsum=ce, TransformProduct=lambda gen: (rec.append(list(gen)), ("product", tuple(rec[-1])))[1]), bases=(Base,), rewrite_comps=False)

    def body():
        case = ctx().choose(3, "factors: rank 1 x 1, rank 1 x 2, rank 1 x 1 x 1")
        ranks = [(1, 1), (1, 2), (1, 1, 1)][case]
        nb = 3
        mats = [sym_cplx_array("F%d" % i, (1, nb, nb) + (3,) * r) for i, r in enumerate(ranks)]

        def mk(i):
            return types.SimpleNamespace(ndim=ranks[i], transformTR="TR%d" % i, transformInv="I%d" % i, nn=lambda ik, inn, out, i=i: mats[i][ik][inn][:, inn])
        fp = FP([mk(i) for i in range(len(ranks))], name="x")
        U.ensure("rank = sum of the factors' ranks; declared transformations = product of the factors' in list order",
                 fp.ndim == sum(ranks) and fp.transformTR == ("product", tuple("TR%d" % i for i in range(len(ranks)))) and fp.transformInv == ("product", tuple("I%d" % i for i in range(len(ranks)))))
        for inn in ([1], [0, 2]):
            out = [b for b in range(nb) if b not in inn]
            got = fp.trace(0, inn, out)
            ok = tuple(got.shape) == (3,) * sum(ranks)
            for idx in rnp.ndindex(*((3,) * sum(ranks))):
                parts, pos = [], 0
                for r in ranks:
                    parts.append(idx[pos:pos + r])
                    pos += r
                want = SCplx(0, 0)
                if len(ranks) == 2:
                    for L in inn:
                        for M in inn:
                            want = want + mats[0][(0, L, M) + parts[0]] * mats[1][(0, M, L) + parts[1]]
                else:
                    for L in inn:
                        for M in inn:
                            for N in inn:
                                want = want + mats[0][(0, L, M) + parts[0]] * mats[1][(0, M, N) + parts[1]] * mats[2][(0, N, L) + parts[2]]
                ok = ok and z3_zero(lift(got[idx]) - want.re)
            U.ensure("trace over %s: Re tr(F1 F2 ...) restricted to the group, component [indices of F1, indices of F2, ...]" % ("one band" if len(inn) == 1 else "a two-band group"), ok)
    U.run(body, check_feasible=False)


PRODUCTS = {      # surface formula -> factors in order; 'v' = data_K.covariant('Ham', commader=1)
    "VelVel": ["v", "v"], "VelVelVel": ["v", "v", "v"], "VelOmega": ["v", ("Omega", "kw")], "VelSpin": ["v", ("Spin", None)],
    "VelHplus": ["v", ("Morb_Hpm", "kw+sign")], "MassVel": [("InvMass", None), "v"],
}


@unit("C28", "surface formulas: velocity x X with the factors the pairing needs (real constructors)", expect_min=6, scope="shape:the six product formulas of the pairs")
def _surface_formulas(U):
    def body():
        for name, spec in PRODUCTS.items():
            made = []

            class Stub:
                def __init__(self, tag):
                    self.tag = tag

                def __call__(self, data_K, **kw):
                    made.append((self.tag, data_K, kw))
                    return (self.tag, len(made) - 1)
            sup = {}
            g = dict(np=rnp, super=lambda: types.SimpleNamespace(__init__=lambda lst, **kw: sup.update(list=list(lst), kw=kw)))
            for cls in ("Omega", "Spin", "Morb_Hpm", "InvMass"):
                g[cls] = Stub(cls)
            f = U.fn(F_COV, name + ".__init__", globs=g, model=False, rewrite_comps=False)
            cov = []
            dk = types.SimpleNamespace(covariant=lambda key, commader=0, gender=0: (cov.append((key, commader, gender)), ("v%d" % len(cov)))[1])
            f(types.SimpleNamespace(), dk, some_option=7)
            lst = sup.get("list", [])
            ok = len(lst) == len(spec)
            iv = 0
            for got, want in zip(lst, spec):
                if want == "v":
                    iv += 1
                    ok = ok and got == "v%d" % iv and cov[iv - 1] == ("Ham", 1, 0)
                else:
                    cls, kwmode = want
                    ok = ok and isinstance(got, tuple) and got[0] == cls
                    if ok:
                        _, d_, kw_ = made[got[1]]
                        ok = d_ is dk and (kw_ == {} if kwmode is None else kw_ == dict(some_option=7) if kwmode == "kw" else kw_ == dict(some_option=7, sign=+1))
            U.ensure("%s = %s (velocity = covariant Ham with one derivative; formula options passed to the factor that takes them)" % (name, " x ".join("v" if w == "v" else w[0] for w in spec)), ok)
    U.run(body, check_feasible=False)


# ------------------------------------------------------------------ (W) the paired calculators
PAIRS = [  # name, sea class, sea formula, derivative index moved first?, surface class, surface formula, fder of the surface one, factor name, ratio of the factors
    ("Ohmic", "Ohmic_FermiSea", "InvMass", False, "Ohmic_FermiSurf", "VelVel", 1, "factor_ohmic", 1.0),
    ("BerryDipole", "BerryDipole_FermiSea", "DerOmega", True, "BerryDipole_FermiSurf", "VelOmega", 1, None, 1.0),
    ("NLAHC", "NLAHC_FermiSea", "DerOmega", True, "NLAHC_FermiSurf", "VelOmega", 1, "factor_nlahc", 1.0),
    ("GME_spin", "GME_spin_FermiSea", "DerSpin", True, "GME_spin_FermiSurf", "VelSpin", 1, "factor_gme_spin", 1.0),
    ("GME_orb", "GME_orb_FermiSea", "DerMorb", True, "GME_orb_FermiSurf", "VelHplus", 1, "factor_gme_orb", 1.0),
    ("NLDrude", "NLDrude_FermiSea", "Der3E", False, "NLDrude_FermiSurf", "MassVel", 1, "factor_nldrude", 1.0),
    ("NLDrude (f'')", "NLDrude_FermiSea", "Der3E", False, "NLDrude_Fermider2", "VelVelVel", 2, "factor_nldrude", 0.5),
]
# (D): which factor each sea formula differentiates -- validated numerically below
DER_OF = {"InvMass": "Velocity", "DerOmega": "Omega", "DerSpin": "Spin", "DerMorb": "Morb_Hpm", "Der3E": "InvMass"}
SURF_X = {"VelVel": "Velocity", "VelOmega": "Omega", "VelSpin": "Spin", "VelHplus": "Morb_Hpm", "MassVel": "InvMass", "VelVelVel": None}


class _Res:
    """stands for EnergyResult in the calculators' own arithmetic: data + the operations C16 proves element-wise"""

    def __init__(self, data):
        self.data = data

    def __sub__(self, o):
        return _Res(self.data - o.data)

    def __rmul__(self, c):
        return _Res(self.data * c)
    __mul__ = __rmul__

    def mul_array(self, arr, axes=None):
        return _Res(self.data * rnp.asarray(arr).reshape((-1,) + (1,) * (self.data.ndim - 1)))


def _mk_calc(U, clsname, chain=(), **user_kw):
    """run the real __init__ (and those of its bases inside static.py up to StaticCalculator) on a bare object; returns (object, kwargs that reach StaticCalculator.__init__)"""
    import ast
    from pyvc.extract import read_source, find_def
    src, _ = read_source(F_STAT)
    tree = ast.parse(src)
    frml = types.SimpleNamespace(**{n: "formula:" + n for n in set(DER_OF) | set(SURF_X)})
    import wannierberri.factors as factors
    reached = {}

    def bases_of(name):
        node, _c = find_def(tree, name)
        return [ast.unparse(b) for b in node.bases]

    def init_of(name):
        node, _c = find_def(tree, name)
        return any(isinstance(i, ast.FunctionDef) and i.name == "__init__" for i in node.body)
    made = {}

    def construct(name, obj, kw):
        """semantics of `Class(**kw)` / super().__init__ along the real inheritance chain"""
        if name == "StaticCalculator":
            reached.setdefault(id(obj), {}).update(kw)
            obj.Efermi = kw.get("Efermi")
            # contract of StaticCalculator.__init__ (C13's hole_like units): the stored factor carries the hole-like sign of a Fermi-sea calculator
            obj.constant_factor = kw.get("constant_factor", 1.0) * (-1 if (kw.get("hole_like") and obj.fder == 0) else 1)
            return
        if not init_of(name):
            return construct(bases_of(name)[0], obj, kw)
        g = dict(np=rnp, frml=frml, factors=factors, super=lambda: types.SimpleNamespace(__init__=lambda **k2: construct(bases_of(name)[0], obj, k2)))
        for other in ("BerryDipole_FermiSurf", "BerryDipole_FermiSea"):
            g[other] = lambda _o=other, **k2: made.setdefault((id(obj), _o), _sub(_o, k2))
        f = U.fn(F_STAT, name + ".__init__", globs=g, model=False, rewrite_comps=False)
        f(obj, **kw)

    def _sub(name, kw):
        o = types.SimpleNamespace(_cls=name)
        construct(name, o, kw)
        o._kw = reached.get(id(o), {})
        return o
    me = types.SimpleNamespace(_cls=clsname)
    construct(clsname, me, dict(Efermi=rnp.array([0.5, 1.5]), tetra=False, **user_kw))
    return me, reached.get(id(me), {}), made, factors


@unit("C28", "paired calculators: formula, derivative of the distribution, factor, index order", expect_min=7, scope="shape:the seven documented pairs; tensors with one symbol per component, two Fermi levels")
def _pairs(U):
    import ast
    from pyvc.extract import read_source, find_def
    src, _ = read_source(F_STAT)
    tree = ast.parse(src)

    def call_of(name):
        """the class (or nearest base inside static.py) that defines __call__ below StaticCalculator, or None"""
        while name != "StaticCalculator":
            node, _c = find_def(tree, name)
            if any(isinstance(i, ast.FunctionDef) and i.name == "__call__" for i in node.body):
                return name
            name = ast.unparse(node.bases[0])
        return None

    def run_call(clsname, me, made, rank):
        """the calculator's own post-processing on a result whose components are distinct symbols"""
        base = sym_real_array("T_" + clsname, (2,) + (3,) * rank)
        owner = call_of(clsname)
        if owner is None:
            return base, base, None
        dip = sym_real_array("O_" + clsname, (2, 3, 3))
        f = U.fn(F_STAT, owner + ".__call__", globs=dict(np=rnp, super=lambda: types.SimpleNamespace(__call__=lambda data_K: _Res(base.copy()))), model=False, rewrite_comps=False)
        sub = [v for (i, n), v in made.items() if i == id(me)]
        if sub:
            me.BerryDipole = lambda data_K: _Res(dip.copy())
        out = f(me, "data_K")
        return base, out.data, (dip if sub else None)

    def body():
        for (name, sea, fsea, moved, surf, fsurf, fder, facname, ratio) in PAIRS:
            ms, kws, made_s, factors = _mk_calc(U, sea)
            mf, kwf, made_f, _ = _mk_calc(U, surf)
            ok = ms.Formula == "formula:" + fsea and mf.Formula == "formula:" + fsurf and ms.fder == 0 and mf.fder == fder
            ok = ok and SURF_X[fsurf] in (DER_OF[fsea], None)          # the surface product contains exactly the factor the sea formula differentiates
            cs, cf = kws.get("constant_factor", 1.0), kwf.get("constant_factor", 1.0)
            if facname is not None:
                ok = ok and cs == getattr(factors, facname)
            ok = ok and abs(cf - ratio * cs) <= 1e-15 * abs(cs)
            rank = {"InvMass": 2, "DerOmega": 2, "DerSpin": 2, "DerMorb": 2, "Der3E": 3}[fsea]
            bs, outs, dips = run_call(sea, ms, made_s, rank)
            bf, outf, dipf = run_call(surf, mf, made_f, rank)
            # sea: raw[e, X-index, derivative index]  ->  reported [e, derivative index, X-index] where the tensor is not symmetric
            for e in range(2):
                for a in range(3):
                    for b in range(3):
                        src_idx = (e, b, a) if moved else (e, a, b)
                        if rank == 2:
                            want_s, want_f = lift(bs[src_idx]), lift(bf[e, a, b])
                            if dips is not None:
                                want_s = want_s - 2 * dips[e, a, b] * ms.Efermi[e]
                                want_f = want_f - 2 * dipf[e, a, b] * mf.Efermi[e]
                            ok = ok and z3_zero(lift(outs[e, a, b]) - want_s) and z3_zero(lift(outf[e, a, b]) - want_f)
                        else:
                            ok = ok and all(z3_zero(lift(outs[e, a, b, c]) - bs[e, a, b, c]) and z3_zero(lift(outf[e, a, b, c]) - bf[e, a, b, c]) for c in range(3))
            if name == "GME_orb":
                subs = [v for (i, n), v in made_s.items() if i == id(ms)]
                subf = [v for (i, n), v in made_f.items() if i == id(mf)]
                ok = ok and len(subs) == 1 and subs[0]._cls == "BerryDipole_FermiSea" and len(subf) == 1 and subf[0]._cls == "BerryDipole_FermiSurf" \
                    and subs[0]._kw.get("constant_factor") == cs and subf[0]._kw.get("constant_factor") == cf and subs[0]._kw.get("Efermi") is kws.get("Efermi") and subf[0]._kw.get("Efermi") is kwf.get("Efermi")
            # a user-supplied factor reaches both calculators (and GME_orb's inner Berry-dipole calculators) unchanged
            for cls_ in (sea, surf):
                mu, kwu, made_u, _ = _mk_calc(U, cls_, constant_factor=3.25)
                ok = ok and kwu.get("constant_factor") == 3.25 and all(v._kw.get("constant_factor") == 3.25 for (i, n_), v in made_u.items() if i == id(mu))
            # hole-like Fermi sea: every calculator involved receives the user-level factor and the flag, and flips its own sign once
            mh, kwh, made_h, _ = _mk_calc(U, sea, hole_like=True)
            ok = ok and kwh.get("hole_like") is True and kwh.get("constant_factor", 1.0) == cs and mh.constant_factor == -cs \
                and all(v._kw.get("constant_factor") == cs and v._kw.get("hole_like") is True and v.constant_factor == -cs for (i, n_), v in made_h.items() if i == id(mh))
            U.ensure("%s: sea = %s (fder 0%s), surface = %s (fder %d), constant factors in the ratio %g, the surface product holds the factor the sea formula differentiates; a user-supplied factor and the hole_like flag reach every calculator involved, each flipping its sign once%s"
                     % (name, fsea, ", derivative index moved first" if moved else "", fsurf, fder, ratio, "; minus 2 E_F x the Berry dipole of the same kind and factor" if name == "GME_orb" else ""), bool(ok))
    U.run(body, check_feasible=False)
    U.external("EnergyResult arithmetic (-, scalar *, mul_array along the Fermi axis): element-wise (C16)")


# ------------------------------------------------------------------ (F) what fder means: C13's unit
from contracts.C13 import _static_unit as _c13_static
_c13_static(1, 2, True, False, prop="C28")
_c13_static(2, 2, True, False, prop="C28")


# ------------------------------------------------------------------ bounded: (D) pointwise, and end to end
def _model(seed, scale=0.12):
    from wannierberri.system.system_R import System_R
    rnp.random.seed(seed)
    s = System_R.from_random(num_wann=3, nRvec=27, max_R=1, berry=True, morb=True, spin=True, real_lattice=rnp.array([[1.0, 0.1, 0], [0, 1.2, 0.1], [0.05, 0, 0.9]]))
    for key in list(s._XX_R.keys()):
        X = s.get_R_mat(key)
        X = 0.5 * (X + s.rvec.conj_XX_R(X))
        w = rnp.where(rnp.all(s.rvec.iRvec == 0, axis=1), 1.0, scale)
        s.set_R_mat(key, X * w.reshape((-1,) + (1,) * (X.ndim - 1)), reset=True)
    s.set_pointgroup([])
    return s


def _real_derivatives(rng, n):
    import wannierberri as wb
    from wannierberri.formula import covariant as frml
    from wannierberri.calculators.tabulate import Tabulator
    fails, cases = [], 0
    h = 1e-4
    for t in range(1 if n <= 30 else 4):
        seed = rng.randint(0, 10 ** 6)
        with contextlib.redirect_stdout(io.StringIO()), warnings.catch_warnings():
            warnings.simplefilter("ignore")
            s = _model(seed, scale=1.0 if t % 2 else 0.2)
            rec = s.recip_lattice
            k = rnp.random.rand(3) - 0.5

            def val(name, kk, **kw):
                r = wb.evaluate_k(s, k=kk, calculators={name: Tabulator(getattr(frml, name), kwargs_formula=kw)})
                r = r[name] if isinstance(r, dict) else r
                return rnp.array(r.data[0])
            bad = []
            for der, base in DER_OF.items():
                kw = dict(sign=+1) if base == "Morb_Hpm" else {}
                D = val(der, k)
                fd = []
                for d in range(3):
                    dk = rnp.linalg.solve(rec.T, rnp.eye(3)[d] * h)
                    fd.append((val(base, k + dk, **kw) - val(base, k - dk, **kw)) / (2 * h))
                fd = rnp.moveaxis(rnp.array(fd), 0, -1)
                err = abs(D - fd).max() / max(1e-12, abs(D).max())
                if D.shape != fd.shape or err > 1e-5:
                    bad.append("%s is not the k-derivative of %s with the derivative index last (relative difference %.1e)" % (der, base, err))
            v = val("Velocity", k)
            for prod, spec in PRODUCTS.items():
                P = val(prod, k)
                facs = [v if w == "v" else val(w[0], k, **(dict(sign=+1) if w[0] == "Morb_Hpm" else {})) for w in spec]
                want = facs[0]
                for f_ in facs[1:]:        # one non-degenerate band at a time: the product of the band's own values, indices in list order
                    want = rnp.einsum("n...,n%s->n...%s" % ("abc"[:f_.ndim - 1], "abc"[:f_.ndim - 1]), want, f_) if False else rnp.array([rnp.multiply.outer(want[b], f_[b]) for b in range(len(want))])
                if P.shape != want.shape or abs(P - want).max() > 1e-9 * max(1.0, abs(want).max()):
                    bad.append("%s is not the product of its factors band by band" % prod)
        cases += 1
        if bad:
            fails.append(dict(input=dict(seed=seed, k=k.tolist()), clause="(D) Der formulas are k-derivatives, derivative index last; (P) products band by band", failed=bad[:6]))
    return dict(cases=cases, failures=fails, distinct=cases)


Unit("C28", "sea formulas are the k-derivatives of the surface factors, pointwise [installed code]", concrete=_real_derivatives,
     bounded_desc="random Hermitian 3-band models (smooth and rough), one generic k: central differences (h = 1e-4) of band-resolved Velocity, Omega, Spin, Morb_Hpm(+), InvMass against InvMass, DerOmega, DerSpin, DerMorb, Der3E to 1e-5; products against their factors to 1e-9")


def _real_pairs(rng, n):
    import wannierberri as wb
    from wannierberri import calculators as calc
    from wannierberri.smoother import FermiDiracSmoother
    NK, tol = (8, 0.45) if n <= 30 else (12, 0.25)
    fails = []
    with contextlib.redirect_stdout(io.StringIO()), warnings.catch_warnings():
        warnings.simplefilter("ignore")
        s = _model(3)
        E = rnp.array([wb.evaluate_k(s, k=k, quantities=["energy"]) for k in rnp.random.RandomState(1).rand(40, 3)])
        bw = E.max() - E.min()
        Ef = rnp.linspace(E.min() - 0.8 * bw, E.max() + 0.8 * bw, 261)
        sm = FermiDiracSmoother(Ef, T_Kelvin=0.12 * bw / 8.617333262e-5, maxdE=8)
        st = calc.static
        pairs = [("Ohmic", st.Ohmic_FermiSea, st.Ohmic_FermiSurf), ("BerryDipole", st.BerryDipole_FermiSea, st.BerryDipole_FermiSurf),
                 ("GME_spin", st.GME_spin_FermiSea, st.GME_spin_FermiSurf), ("GME_orb", st.GME_orb_FermiSea, st.GME_orb_FermiSurf)]
        cals = {}
        for nm, a, b in pairs:
            cals[nm + "_sea"], cals[nm + "_surf"] = a(Efermi=Ef, smoother=sm), b(Efermi=Ef, smoother=sm)
        res = wb.run(s, wb.Grid(s, NK=NK, NKFFT=4), cals, parallel=False, use_irred_kpt=False, symmetrize=False, print_Kpoints=False)
    for nm, a, b in pairs:
        x, y = res.results[nm + "_sea"].dataSmooth[100:161:10], res.results[nm + "_surf"].dataSmooth[100:161:10]
        err = abs(x - y).max() / abs(y).max()
        if x.shape != y.shape or err > tol:
            fails.append(dict(input=dict(pair=nm, NK=NK), clause="sea and surface forms agree within the grid's discretisation error (%.0f%% of the largest component)" % (100 * tol), failed=["relative difference %.2f" % err]))
    return dict(cases=len(pairs), failures=fails, distinct=len(pairs))


Unit("C28", "sea vs surface calculators on a grid with Fermi-Dirac smoothing [installed code]", concrete=_real_pairs,
     bounded_desc="random smooth 3-band model, k_B T = 0.12 x band width, 7 Fermi levels inside the band range, grid 8^3 (quick, tolerance 45%) / 12^3 (thorough, 25%): Ohmic, Berry dipole, GME spin, GME orbital")



# sea and surface formulas of a pair must carry consistent declared behaviour under time reversal / inversion (otherwise a symmetrised run keeps
# one form and projects the other to zero): the parity tables and the covariant() wiring that give the Der formulas theirs -- C08's unit, here as well
from contracts.C08 import _tables_unit as _c08_tables      # noqa: E402
_c08_tables(prop="C28")
