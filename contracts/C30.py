"""C30  Grid tabulation covers every grid point with its own values.

Under contract (real text on the real numpy; tabulated values SYMBOLIC):
  result/tabresult.py::TABresult.to_grid + result/kbandresult.py::K__Result.to_grid    every grid with 1..3 points per direction and 2x3x4 /
        4x1x3, the evaluated k-points listed in shuffled order, shifted by lattice vectors, with duplicated points (symmetry images) and
        off-grid points: the new k-list is the grid in C order, k_new[iz + g2 (iy + g1 ix)] = (ix/g0, iy/g1, iz/g2), every grid point
        exactly once; the value stored there is the mean of exactly the rows evaluated AT that point (its own values; images averaged);
        off-grid rows are ignored.
  result/tabresult.py::TABresult.find_grid      exhaustive: every complete regular grid with 1..6 points per direction, shuffled: sizes recovered.
  result/kbandresult.py::get_component          symbolic tensors of rank 0-3 with (k, band) leading axes: 'x','y','z', index strings, index
        tuples, 'trace', 'norm', 'sq' equal the algebraic operation on the stored tensor; components that do not exist raise.
"""
import itertools
import random
import warnings

import numpy as rnp
import z3
from pyvc.core import ctx, sreal, land, lift, SNum, ssqrt
from pyvc.unit import unit, Unit
from pyvc.npshim import Shim, sym_real_array

FT = "wannierberri/result/tabresult.py"
FK = "wannierberri/result/kbandresult.py"


def _valid(c):
    s = z3.Solver()
    s.add(z3.Not(c.t))
    return s.check() == z3.unsat


def _grid_unit(grids, tag):
    @unit("C30", "TABresult.to_grid[%s]" % tag, scope="shape:grids %s" % tag, expect_min=3)
    def _g(U):
        made = []

        class TAB:
            def __init__(self, kpoints, recip_lattice=None, results=None, mode=None, save_mode=None):
                self.kpoints, self.results, self.mode, self.recip_lattice, self.save_mode = kpoints, results, mode, recip_lattice, save_mode
                made.append(self)

        class KR:
            def __init__(self, data=None, **kw):
                self.data, self.kw = data, kw
                self.transformTR, self.transformInv, self.rank, self.other_properties = "TR", "INV", 0, {}
        kto = U.fn(FK, "K__Result.to_grid", globs=dict(np=Shim()), model=False)
        KR.to_grid = lambda s_, k_map: kto(s_, k_map)
        f = U.fn(FT, "TABresult.to_grid", globs=dict(np=rnp, time=lambda: 0.0, print=lambda *a, **k: None, warnings=warnings, TABresult=TAB), model=False)

        def body():
            rs = random.Random(11)
            bad_k, bad_v, bad_n = [], [], []
            for grid in grids:
                g = rnp.array(grid)
                pts = [(ix, iy, iz) for ix in range(grid[0]) for iy in range(grid[1]) for iz in range(grid[2])]
                rows = list(pts) + [pts[rs.randrange(len(pts))] for _ in range(max(1, len(pts) // 3))]      # duplicates = symmetry images
                rs.shuffle(rows)
                kp = rnp.array([[p[j] / grid[j] + rs.choice([-1, 0, 0, 2]) for j in range(3)] for p in rows], dtype=float)
                off = rnp.array([[0.5 / grid[0] + 0.013, 0.2, 0.77]])                                          # one off-grid point
                kp = rnp.vstack([kp[: len(kp) // 2], off, kp[len(kp) // 2:]])
                rows = rows[: len(rows) // 2] + [None] + rows[len(rows) // 2:]
                # rows that lie on the grid in one or two directions only are off the grid as well
                p0 = pts[rs.randrange(len(pts))]
                part = rnp.array([[p0[0] / grid[0], p0[1] / grid[1], (p0[2] + 0.5) / grid[2] + 0.003],
                                  [(p0[0] + 0.37) / grid[0], p0[1] / grid[1] - 1, p0[2] / grid[2]],
                                  [(p0[0] + 0.41) / grid[0], (p0[1] + 0.29) / grid[1], p0[2] / grid[2] + 1]])
                kp = rnp.vstack([part[:1], kp, part[1:]])
                rows = [None] + rows + [None, None]
                data = rnp.empty((len(rows), 2), dtype=object)
                for i in range(len(rows)):
                    for b in range(2):
                        data[i, b] = sreal("v_%d_%d" % (i, b))
                me = TAB(kp, recip_lattice="L", results={"q": KR(data=data)}, mode="grid", save_mode="bin")
                del made[:]
                with warnings.catch_warnings():
                    warnings.simplefilter("ignore")
                    out = f(me, g)
                N = len(pts)
                knew = rnp.asarray(out.kpoints)
                if knew.shape != (N, 3) or not all(rnp.allclose(knew[iz + grid[2] * (iy + grid[1] * ix)], [ix / grid[0], iy / grid[1], iz / grid[2]]) for (ix, iy, iz) in pts):
                    bad_k.append(grid)
                if list(out.grid) != list(grid) or out.gridorder != "C":
                    bad_n.append(grid)
                D = out.results["q"].data
                ok = D.shape == (N, 2)
                if ok:
                    for (ix, iy, iz) in pts:
                        s = iz + grid[2] * (iy + grid[1] * ix)
                        mine = [i for i, r in enumerate(rows) if r == (ix, iy, iz)]
                        for b in range(2):
                            tot = 0
                            for i in mine:
                                tot = tot + data[i, b]
                            ok = ok and _valid(lift(D[s, b]) * len(mine) == lift(tot))
                if not ok:
                    bad_v.append(grid)
            U.ensure("the new k-list is the grid in C order: k_new[iz + g2 (iy + g1 ix)] = (ix/g0, iy/g1, iz/g2), every grid point exactly once", not bad_k)
            U.ensure("grid size and order recorded on the result", not bad_n)
            U.ensure("the value at a grid point is the mean of exactly the rows evaluated at that point (k modulo lattice vectors); off-grid rows ignored", not bad_v)
        U.run(body, check_feasible=False)


_grid_unit([g for g in itertools.product((1, 2, 3), repeat=3)], "1..3 per direction")
_grid_unit([(2, 3, 4), (4, 1, 3), (5, 2, 2)], "2x3x4,4x1x3,5x2x2")


@unit("C30", "TABresult.find_grid", scope="shape:every complete grid with 1..6 points per direction", expect_min=1)
def _find(U):
    f = U.fn(FT, "TABresult.find_grid", globs=dict(np=rnp), model=False)

    def body():
        rs = random.Random(5)
        bad = []
        for grid in itertools.product(range(1, 7), repeat=3):
            pts = [[ix / grid[0], iy / grid[1], iz / grid[2]] for ix in range(grid[0]) for iy in range(grid[1]) for iz in range(grid[2])]
            rs.shuffle(pts)
            me = type("T", (), {})()
            me.kpoints = rnp.array(pts)
            got = f(me)
            if list(got) != list(grid):
                bad.append((grid, list(got)))
        U.ensure("a complete regular grid, listed in any order, is recognised", not bad)
        if bad:
            ctx().ghost["bad"] = bad[:3]
    U.run(body, check_feasible=False)


def _norm(d, axis=-1):
    out = rnp.empty(d.shape[:-1], dtype=object)
    for idx in rnp.ndindex(*d.shape[:-1]):
        tot = 0
        for c in range(d.shape[-1]):
            tot = tot + d[idx + (c,)] * d[idx + (c,)]
        out[idx] = ssqrt(tot)
    return out


def _comp_unit(rank):
    @unit("C30", "get_component[rank=%d]" % rank, scope="shape:2 k-points x 2 bands x rank-%d tensor" % rank, expect_min=3)
    def _c(U):
        class NoComp(RuntimeError):
            def __init__(self, comp, dim, err=""):
                super().__init__("no component %s" % comp)
        f = U.fn(FK, "get_component", globs=dict(np=Shim(overrides={"linalg.norm": _norm}), NoComponentError=NoComp, print=lambda *a, **k: None), model=False)

        def body():
            shape = (2, 2) + (3,) * rank
            D = sym_real_array("T", shape)
            xyz = "xyz"

            def same(A, fn):
                A = rnp.asarray(A, dtype=object)
                return A.shape == (2, 2) and all(_valid(lift(A[k, b]) == lift(fn(k, b))) for k in range(2) for b in range(2))
            if rank == 0:
                U.ensure("rank 0: component None returns the data", f(D, 0, None) is D)
                try:
                    f(D, 0, "x")
                    U.ensure("rank 0: a named component does not exist", False)
                except NoComp:
                    U.ensure("rank 0: a named component does not exist", True)
                U.ensure("rank 0: the empty index tuple returns the data", same(f(D, 0, ()), lambda k, b: D[k, b]))
                return
            for idx in itertools.product(range(3), repeat=rank):
                name = "".join(xyz[i] for i in idx)
                U.ensure("component '%s' == T[...,%s]" % (name, ",".join(map(str, idx))), same(f(D, rank, name), lambda k, b: D[(k, b) + idx]))
                U.ensure("component '%s' (upper case) is the same" % name.upper(), same(f(D, rank, name.upper()), lambda k, b: D[(k, b) + idx]))
                U.ensure("index tuple %s == T[...,%s]" % (idx, idx), same(f(D, rank, tuple(idx)), lambda k, b: D[(k, b) + idx]))
            if rank == 1:
                sq = f(D, 1, "sq")
                nrm = f(D, 1, "norm")
                ss = lambda k, b: D[k, b, 0] * D[k, b, 0] + D[k, b, 1] * D[k, b, 1] + D[k, b, 2] * D[k, b, 2]
                U.ensure("'sq' == sum_a T_a^2", lambda: land(*[lift(sq[k, b]) == ss(k, b) for k in range(2) for b in range(2)]))
                U.ensure("'norm' >= 0 and norm^2 == sum_a T_a^2", lambda: land(*[land(lift(nrm[k, b]) >= 0, lift(nrm[k, b]) * lift(nrm[k, b]) == ss(k, b)) for k in range(2) for b in range(2)]))
            if rank >= 2:
                U.ensure("'trace' == sum_a T[...,a,a%s]" % (",a" if rank == 3 else ""), same(f(D, rank, "trace"), lambda k, b: D[(k, b) + (0,) * rank] + D[(k, b) + (1,) * rank] + D[(k, b) + (2,) * rank]))
            for wrong in (["xx", "q"] if rank == 1 else ["xq" + "x" * (rank - 2)]):
                try:
                    f(D, rank, wrong)
                    U.ensure("component '%s' does not exist for rank %d" % (wrong, rank), False)
                except (NoComp, KeyError):
                    U.ensure("component '%s' does not exist for rank %d" % (wrong, rank), True)
            try:
                f(D, rank, 3.5)
                U.ensure("a component of the wrong type is refused", False)
            except ValueError:
                U.ensure("a component of the wrong type is refused", True)
        U.run(body, check_feasible=False)
        U.external("np.linalg.norm(v) = sqrt(sum v_a^2)")


for _r in (0, 1, 2, 3):
    _comp_unit(_r)


# ------------------------------------------------------------------ tabulators: what a K-point contributes, and reading the table back
FTAB = "wannierberri/calculators/tabulate.py"


@unit("C30", "TabulatorAll: one TABresult per K-point with that K-point's own k-points and every tabulator's values", scope="shape:2 tabulators + automatic Energy; band selections", expect_min=3)
def _taball(U):
    import types
    made = []

    class TAB:
        def __init__(self, **kw):
            self.kw = kw
            made.append(self)

    class EnergyStub:
        ibands = None
        comment = "energy"

        def __call__(self, data_K):
            return ("Energy-of", data_K.tag, None if self.ibands is None else tuple(self.ibands))

    class Calc:
        def _set_comment(self, print_comment):
            self.pc = print_comment
    TA = U.klass(FTAB, "TabulatorAll", globs=dict(np=rnp, Energy=EnergyStub, TABresult=TAB), model=False, rewrite_comps=False, bases=(Calc,))

    def body():
        class T:
            def __init__(self, name, ibands=None):
                self.name, self.ibands, self.comment = name, ibands, "c"

            def __call__(self, data_K):
                return (self.name, data_K.tag, None if self.ibands is None else tuple(self.ibands))
        tabs = {"berry": T("berry"), "v": T("v", ibands=rnp.array([0, 2]))}
        ta = TA(tabs, ibands=[0, 2], mode="Grid")
        U.ensure("Energy is always tabulated; the band selection is handed to every tabulator that has none; mode is case-insensitive",
                 set(ta.tabulators) == {"berry", "v", "Energy"} and all(tuple(t.ibands) == (0, 2) for t in ta.tabulators.values()) and ta.mode == "grid" and ta.allow_grid and not ta.allow_path)
        bad = []
        try:
            TA({"v": T("v", ibands=rnp.array([0, 1]))}, ibands=[0, 2])
            bad.append("conflicting ibands accepted")
        except ValueError:
            pass
        try:
            TA({"v": T("v", ibands=rnp.array([2, 0]))}, ibands=[0, 2])
            bad.append("the same bands in another order accepted (columns would be permuted relative to the other quantities)")
        except ValueError:
            pass
        try:
            TA({}, mode="line")
            bad.append("unknown mode accepted")
        except AssertionError:
            pass
        U.ensure("a tabulator with a different band selection and an unknown mode are refused", not bad)
        kp = rnp.array([[0.1, 0.2, 0.3], [0.6, 0.2, 0.3]])
        data = types.SimpleNamespace(tag="K7", kpoints_all=kp, system=types.SimpleNamespace(recip_lattice="RECIP"))
        ta(data)
        kw = made[-1].kw
        U.ensure("the TABresult of a K-point holds a copy of ITS k-points (kpoints_all), the mode, the reciprocal lattice and every tabulator evaluated on THAT Data_K",
                 rnp.array_equal(kw["kpoints"], kp) and kw["kpoints"] is not kp and kw["mode"] == "grid" and kw["recip_lattice"] == "RECIP" and kw["save_mode"] == "bin"
                 and kw["results"] == {"berry": ("berry", "K7", (0, 2)), "v": ("v", "K7", (0, 2)), "Energy": ("Energy-of", "K7", (0, 2))})
    U.run(body, check_feasible=False)


@unit("C30", "TABresult.get_data / self_to_grid / get_component_list", scope="shape:2x3x2 grid, 3 bands, rank-1 quantity", expect_min=3)
def _getdata(U):
    import types
    from collections.abc import Iterable
    gc = U.fn(FK, "get_component", globs=dict(np=rnp, Iterable=Iterable), model=False, rewrite_comps=False)
    KR = U.klass(FK, "K__Result", globs=dict(np=rnp, itertools=itertools, get_component=gc), rewrite_comps=False, only=("get_component_list", "ndim", "get_component", "data", "rank") if False else ("get_component_list", "ndim", "get_component", "data"))
    TAB = U.klass(FT, "TABresult", globs=dict(np=rnp, Iterable=Iterable), rewrite_comps=False, only=("get_data", "Enk", "self_to_grid", "_TABresult__get_data_grid", "_TABresult__get_data_path", "__get_data_grid", "__get_data_path"))

    def body():
        grid = (2, 3, 2)
        nk, nb = 12, 3
        E = rnp.arange(nk * nb, dtype=float).reshape(nk, nb)
        V = rnp.arange(nk * nb * 3, dtype=float).reshape(nk, nb, 3) * 0.5 + 100
        eres, vres = KR.__new__(KR), KR.__new__(KR)
        eres.data_list, vres.data_list = [E], [V]
        eres.rank, vres.rank = 0, 1
        t = TAB.__new__(TAB)
        t.results, t.nband, t.grid = {"Energy": eres, "v": vres}, nb, rnp.array(grid)
        ok = True
        for (ix, iy, iz) in itertools.product(*[range(g) for g in grid]):
            s = iz + grid[2] * (iy + grid[1] * ix)
            ok = ok and rnp.array_equal(t.get_data("Energy")[ix, iy, iz], E[s]) and rnp.array_equal(t.get_data("v")[ix, iy, iz], V[s])
            ok = ok and t.get_data("v", iband=1, component="y")[ix, iy, iz] == V[s, 1, 1] and rnp.array_equal(t.get_data("v", iband=[0, 2], component="z")[ix, iy, iz], V[s, [0, 2], 2])
        U.ensure("grid mode: get_data(quantity)[ix,iy,iz] is the row of grid point (ix,iy,iz) in C order, for all bands / one band / a band list, whole tensor or one component", ok)
        t.grid = None
        U.ensure("path mode: get_data returns the rows in path order", rnp.array_equal(t.get_data("Energy"), E) and rnp.array_equal(t.get_data("v", iband=2), V[:, 2]) and rnp.array_equal(t.get_data("v", iband=[1], component="x"), V[:, [1], 0]))
        U.ensure("get_component_list: rank 0 -> [None]; rank 1 -> x, y, z; rank 2 -> the 9 pairs + trace",
                 eres.get_component_list() == [None] and vres.get_component_list() == ["x", "y", "z"]
                 and (lambda r: (setattr(r, "data_list", [rnp.zeros((1, 1, 3, 3))]), r.get_component_list())[1])(KR.__new__(KR)) == ["".join(p) for p in itertools.product("xyz", repeat=2)] + ["trace"])
        seen = []
        t2 = TAB.__new__(TAB)
        t2.find_grid = "FOUND"
        t2.to_grid = lambda g, order="?": (seen.append((g, order)), types.SimpleNamespace(grid="G", kpoints="K", marker=1))[1]
        t2.self_to_grid()
        U.ensure("self_to_grid = to_grid(find_grid, order 'C') taken over in place", seen == [("FOUND", "C")] and t2.grid == "G" and t2.kpoints == "K" and t2.marker == 1)
    U.run(body, check_feasible=False)


# ------------------------------------------------------------------ the C-order slot formula, all grid sizes (unbounded, non-linear integer arithmetic)
@unit("C30", "lemma: slot = k2 + g2*(k1 + g1*k0) is a bijection from the grid onto [0, g0*g1*g2) for ALL grid sizes", expect_min=3)
def _slot_lemma(U):
    from pyvc.core import sint

    def inj():
        # uniqueness of division with remainder; applied twice (first with g = g2, then with g = g1) it gives injectivity of the slot map
        g, r, s_, X, Y = (sint(n) for n in ("g", "r", "s", "X", "Y"))
        hyp = [g >= 1, r >= 0, r < g, s_ >= 0, s_ < g, r + g * X == s_ + g * Y]
        return hyp, land(r == s_, X == Y)
    U.lemma("injective: r + g*X = s + g*Y with 0 <= r, s < g forces r = s and X = Y (apply to k2 | g2, then to k1 | g1)", inj)

    def rng():
        g0, g1, g2, k0, k1, k2 = (sint(n) for n in ("g0", "g1", "g2", "k0", "k1", "k2"))
        m = sint("m")
        hyp = [g0 >= 1, g1 >= 1, g2 >= 1, k0 >= 0, k0 < g0, k1 >= 0, k1 < g1, k2 >= 0, k2 < g2, m == k1 + g1 * k0]
        # staged: m <= g1*g0 - 1, then slot <= g2*(g1*g0) - 1
        return hyp, land(m >= 0, m <= g1 * g0 - 1)
    U.lemma("range, step 1: k1 + g1*k0 lies in [0, g0*g1)", rng)

    def rng2():
        g2, k2, m, n01 = sint("g2"), sint("k2"), sint("m"), sint("n01")
        hyp = [g2 >= 1, n01 >= 1, k2 >= 0, k2 < g2, m >= 0, m <= n01 - 1]
        return hyp, land(k2 + g2 * m >= 0, k2 + g2 * m <= g2 * n01 - 1)
    U.lemma("range, step 2: k2 + g2*m lies in [0, g2*n01) for m in [0, n01)", rng2)



# the tabulator itself (which band lands in which column, for any band selection): C15's unit, registered here as well
from contracts.C15 import _tab_unit as _c15_tab
_c15_tab([2, 0, 3], False, prop="C30")
_c15_tab(None, False, prop="C30")
