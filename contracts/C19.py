"""C19  Wannier90 files written by the code can be read back.

Under contract (real text, extracted):
  w90files/eig.py::EIG.to_w90_file, amn.py::AMN.to_w90_file, mmn.py::MMN.to_w90_file
      run on symbolic data (every stored number a distinct symbol; a formatted symbol is a token) with a capturing file object:
      total (no exception), and the token stream equals the Wannier90 layout that the matching reader consumes
      (eig: band fastest, `band kpoint energy`; amn: header NB NK NW, band fastest then wannier then k, `b w k re im`;
       mmn: header NB NK NNB, per (k, b-vector) a line `k+1 neighbour+1 G` followed by NB*NB lines with m outer / n inner
       holding data[ik][ib, n, m]) -- per shape.
  w90files/io.py::dic_to_keydic, keydic_to_dic   round trip for integer keys 0..N (incl. multi-digit), no foreign key is
      swallowed; class tags of every SavableNPZ subclass are prefix-free with respect to the dictionary tags.
Bounded stand-in: real files written by the real writers and read by the real readers (EIG/AMN/MMN text, all three + the
npz form), compared with W90_file.equals and exactly.
"""
import ast
import contextlib
import io
import itertools
import os
import shutil
import tempfile

import numpy as rnp
from pyvc.core import ctx, sreal, SNum, SCplx, land
from pyvc.unit import unit, Unit
from pyvc.extract import read_source

FE, FA, FM, FI = ("wannierberri/w90files/eig.py", "wannierberri/w90files/amn.py", "wannierberri/w90files/mmn.py",
                  "wannierberri/w90files/io.py")


class Cap:
    def __init__(self):
        self.text = []
        self.closed = False

    def write(self, s):
        self.text.append(s)

    def close(self):
        self.closed = True

    def lines(self):
        return "".join(self.text).split("\n")


class _Obj:
    pass


class CNum:
    """symbolic complex entry with .real / .imag symbols (numpy complex scalars expose the same attributes)"""

    def __init__(self, name):
        self.real = sreal(name + ".re")
        self.imag = sreal(name + ".im")


def _tok(x, spec):
    return format(x, spec)


def _writer_unit(kind, dims):
    name = "%s.to_w90_file[%s]" % (kind, ",".join("%s=%d" % kv for kv in dims.items()))

    def prove(U):
        caps = []

        def fopen(path, mode="r"):
            c = Cap()
            c.path, c.mode = path, mode
            caps.append(c)
            return c
        g = dict(open=fopen, print=lambda *a, **k: None, datetime=type("D", (), {"now": staticmethod(lambda: "NOW")}))
        if kind == "EIG":
            f = U.fn(FE, "EIG.to_w90_file", globs=g, model=False)
        elif kind == "AMN":
            f = U.fn(FA, "AMN.to_w90_file", globs=g, model=False)
        else:
            f = U.fn(FM, "MMN.to_w90_file", globs=g, model=False)

        def body():
            del caps[:]
            me = _Obj()
            NK, NB = dims["NK"], dims["NB"]
            me.NK, me.NB = NK, NB
            if kind == "EIG":
                me.data = {ik: rnp.array([sreal("E_%d_%d" % (ik, ib)) for ib in range(NB)], dtype=object) for ik in range(NK)}
                f(me, "/x/seed")
                want = "".join(" %4d %4d %s\n" % (ib + 1, ik + 1, _tok(me.data[ik][ib], "17.12f")) for ik in range(NK) for ib in range(NB))
                U.ensure("file name seed.eig opened for writing", caps and caps[0].path == "/x/seed.eig" and caps[0].mode == "w")
                U.ensure("token stream == Wannier90 .eig layout (band fastest; band, k-point, energy)", "".join(caps[0].text) == want)
            elif kind == "AMN":
                NW = dims["NW"]
                me.NW = NW
                me.data = {}
                for ik in range(NK):
                    a = rnp.empty((NB, NW), dtype=object)
                    for ib in range(NB):
                        for iw in range(NW):
                            a[ib, iw] = CNum("A_%d_%d_%d" % (ik, ib, iw))
                    me.data[ik] = a
                f(me, "/x/seed")
                txt = "".join(caps[0].text).split("\n")
                U.ensure("header line 2 is NB NK NW", txt[1].split() == [str(NB), str(NK), str(NW)])
                want = ["%4d %4d %4d %s %s" % (ib + 1, iw + 1, ik + 1, _tok(me.data[ik][ib, iw].real, "17.12f"), _tok(me.data[ik][ib, iw].imag, "17.12f"))
                        for ik in range(NK) for iw in range(NW) for ib in range(NB)]
                U.ensure("token stream == Wannier90 .amn layout (band fastest, then Wannier function, then k; b w k re im)",
                         [" ".join(l.split()) for l in txt[2:2 + len(want)]] == [" ".join(l.split()) for l in want] and txt[2 + len(want):] == [""])
            else:
                NNB = dims["NNB"]
                me.NNB = NNB
                me.data = {}
                for ik in range(NK):
                    a = rnp.empty((NNB, NB, NB), dtype=object)
                    for ib in range(NNB):
                        for m in range(NB):
                            for n in range(NB):
                                a[ib, m, n] = CNum("M_%d_%d_%d_%d" % (ik, ib, m, n))
                    me.data[ik] = a
                me.bk_reorder = {ik: rnp.arange(NNB)[::-1].copy() for ik in range(NK)}      # a non-trivial reordering record: the data ARE already in b-vector order
                bk = _Obj()
                bk.neighbours = {ik: rnp.array([(ik + 1 + ib) % NK for ib in range(NNB)]) for ik in range(NK)}
                bk.G = {ik: rnp.array([[ib, -ik, 1] for ib in range(NNB)]) for ik in range(NK)}
                f(me, "/x/seed", bk)
                txt = "".join(caps[0].text).split("\n")
                U.ensure("header line 2 is NB NK NNB", txt[1].split() == [str(NB), str(NK), str(NNB)])
                want = []
                for ik in range(NK):
                    for ib in range(NNB):
                        want.append("%d %d %s" % (ik + 1, bk.neighbours[ik][ib] + 1, " ".join(str(x) for x in bk.G[ik][ib])))
                        for m in range(NB):
                            for n in range(NB):
                                want.append("%s %s" % (_tok(me.data[ik][ib, n, m].real, ""), _tok(me.data[ik][ib, n, m].imag, "")))
                U.ensure("token stream == Wannier90 .mmn layout (per k and b: `k nb G`, then m outer / n inner holding data[ik][ib,n,m]; neighbours and G of the b-vector object in the data's order)",
                         [" ".join(l.split()) for l in txt[2:2 + len(want)]] == want and txt[2 + len(want):] == [""])
                U.ensure("file closed", caps[0].closed)
        U.run(body, check_feasible=False)
        U.assumption("text model: a formatted number is one whitespace-free token; parsing it back returns the number to the printed precision")
    Unit("C19", name, prove=prove, scope="shape:%s" % dims, expect_min=2, replay=lambda mv, ob: _roundtrip_case(kind, dims), replay_once=True)


def _bkvec(NKdiv=2):
    from wannierberri.w90files.bkvectors import BKVectors
    lat = rnp.eye(3) * 2 * rnp.pi
    kpts = rnp.array([[i, j, k] for i in range(NKdiv) for j in range(NKdiv) for k in range(NKdiv)]) / NKdiv
    with contextlib.redirect_stdout(io.StringIO()):
        return BKVectors.from_kpoints(recip_lattice=lat, mp_grid=(NKdiv,) * 3, kpoints_red=kpts), len(kpts)


def _roundtrip_case(kind, dims, seed=0):
    """real writer -> real file -> real reader"""
    from wannierberri.w90files.eig import EIG
    from wannierberri.w90files.amn import AMN
    from wannierberri.w90files.mmn import MMN
    rs = rnp.random.RandomState(seed)
    import multiprocessing

    class SerialPool:          # external contract of multiprocessing.Pool.map: the list of f(x); (pool workers here are daemonic)
        def __init__(self, *a, **k): pass
        def map(self, f, it): return [f(x) for x in it]
        def close(self): pass
        def join(self): pass
    realpool = multiprocessing.Pool
    multiprocessing.Pool = SerialPool
    try:
        return _roundtrip_case_inner(kind, dims, seed, rs)
    finally:
        multiprocessing.Pool = realpool


def _roundtrip_case_inner(kind, dims, seed, rs):
    from wannierberri.w90files.eig import EIG
    from wannierberri.w90files.amn import AMN
    from wannierberri.w90files.mmn import MMN
    d = tempfile.mkdtemp(prefix="verif_c19_")
    seedname = os.path.join(d, "seed")
    try:
        with contextlib.redirect_stdout(io.StringIO()):
            NK, NB = dims["NK"], dims["NB"]
            if kind == "EIG":
                obj = EIG(data=[rs.rand(NB) * 20 - 10 for _ in range(NK)])
                obj.to_w90_file(seedname)
                back = EIG.from_w90_file(seedname)
                tol = 1e-11
            elif kind == "AMN":
                NW = dims["NW"]
                obj = AMN(data=[rs.rand(NB, NW) + 1j * rs.rand(NB, NW) for _ in range(NK)])
                obj.to_w90_file(seedname)
                back = AMN.from_w90_file(seedname, npar=1)
                tol = 1e-11
            else:
                bk, NK = _bkvec(2)
                NNB = bk.NNB if hasattr(bk, "NNB") else len(bk.wk)
                obj = MMN(data=[rs.rand(NNB, NB, NB) + 1j * rs.rand(NNB, NB, NB) for _ in range(NK)])
                obj.to_w90_file(seedname, bk)
                back = MMN.from_w90_file(seedname, bk, npar=1)
                tol = 1e-14
            ok, msg = obj.equals(back, tolerance=tol)
            exact = all(rnp.allclose(obj.data[k], back.data[k], atol=tol, rtol=0) for k in obj.data) and set(obj.data) == set(back.data)
            # npz form
            obj.to_npz(seedname + "." + kind.lower() + ".npz")
            cls = type(obj)
            back2 = cls.from_npz(seedname + "." + kind.lower() + ".npz")
            ok2, msg2 = obj.equals(back2, tolerance=0)
        bad = []
        if not (ok and exact):
            bad.append("text round trip: " + str(msg))
        if not ok2:
            bad.append("npz round trip: " + str(msg2))
        return dict(reproduced=bool(bad), input=dict(kind=kind, dims=dims, seed=seed), clause="reader(writer(x)) == x", failed=bad)
    finally:
        shutil.rmtree(d, ignore_errors=True)


for _nk, _nb in ((1, 1), (2, 3), (3, 2)):
    _writer_unit("EIG", dict(NK=_nk, NB=_nb))
for _nk, _nb, _nw in ((1, 1, 1), (2, 3, 2), (2, 2, 3)):
    _writer_unit("AMN", dict(NK=_nk, NB=_nb, NW=_nw))
for _nk, _nb, _nnb in ((1, 1, 1), (2, 2, 3), (3, 3, 2)):
    _writer_unit("MMN", dict(NK=_nk, NB=_nb, NNB=_nnb))


def _real_files(rng, n):
    fails, cases = [], 0
    todo = [("EIG", dict(NK=3, NB=4)), ("EIG", dict(NK=1, NB=1)), ("AMN", dict(NK=2, NB=3, NW=2)), ("AMN", dict(NK=1, NB=1, NW=1)),
            ("AMN", dict(NK=3, NB=2, NW=2)), ("MMN", dict(NK=8, NB=3)), ("MMN", dict(NK=8, NB=1))]
    for kind, dims in todo:
        r = _roundtrip_case(kind, dims, seed=rng.randint(0, 10 ** 6))
        cases += 1
        if r["reproduced"]:
            fails.append(r)
    return dict(cases=cases, failures=fails, distinct=cases)


Unit("C19", "text + npz round trip [real files]", concrete=_real_files,
     bounded_desc="real writer -> file -> real reader for EIG (NK<=3,NB<=4), AMN (NK<=3,NB<=3,NW<=2), MMN (2x2x2 mesh, NB<=3); npz save/load of each; equals() and exact comparison")


# ------------------------------------------------------------------ npz key encoding
@unit("C19", "dic_to_keydic/keydic_to_dic", scope="shape:integer keys 0..120, tags of all SavableNPZ subclasses", expect_min=4)
def _keys(U):
    enc = U.fn(FI, "dic_to_keydic", globs={}, model=False)
    dec = U.fn(FI, "keydic_to_dic", globs=dict(np=rnp), model=False)
    # class tags of every SavableNPZ subclass, read from the sources
    tags, dict_tags = set(), set()
    base = os.path.join(os.environ.get("VERIF_REPO", "/repo"), "wannierberri", "w90files")
    for fn in sorted(os.listdir(base)):
        if fn.endswith(".py"):
            tree = ast.parse(open(os.path.join(base, fn)).read())
            for node in ast.walk(tree):
                if isinstance(node, ast.ClassDef):
                    for st in node.body:
                        if isinstance(st, ast.Assign) and isinstance(st.targets[0], ast.Name) and st.targets[0].id.startswith("npz_"):
                            try:
                                vals = ast.literal_eval(st.value)
                            except Exception:
                                continue
                            (dict_tags if "dict_int" in st.targets[0].id else tags).update(vals)

    def body():
        for keys in ([0], [0, 1, 2], [3, 10, 11, 100, 120], list(range(0, 121, 7))):
            d = {k: sreal("v%d" % k) for k in keys}
            for nm in sorted(dict_tags) or ["data"]:
                kd = enc(d, nm)
                kd2 = dict(kd)
                kd2.update({t: "other" for t in tags if t != nm})       # the other entries of a saved file
                kd2.update(enc({5: "foreign"}, "zz_unrelated"))
                kd2[nm + "x3"] = "foreign"          # keys that merely share the prefix must not be swallowed
                kd2.update(enc({4: "foreign"}, nm + "s"))
                back = dec(kd2, nm)
                U.ensure("keydic_to_dic(dic_to_keydic(d, %r) + other tags, %r) == d for keys %s" % (nm, nm, keys[:4]),
                         set(back) == set(d) and all(back[k] is d[k] for k in d))
        U.ensure("no class tag starts with a dictionary tag followed by '_' (it would be parsed as an integer key)",
                 not [(t, dtg) for t in tags | dict_tags for dtg in dict_tags if t != dtg and t.startswith(dtg + "_")])
        U.ensure("None passes through", enc(None, "data") is None)
    U.run(body, check_feasible=False)
