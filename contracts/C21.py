"""C21  Orbital rotation matrices form an orthogonal representation.

The matrices are produced by expanding the orbital polynomials in rotated coordinates with sympy.  The REAL text of
Orbitals.rot_orb_basis / rot_orb is executed here with the rotation given SYMBOLICALLY by an unnormalised quaternion q = (a,b,c,d):
   R~(q) = |q|^2 R(q)   (every proper rotation is R(q) for some q; entries of R~ are quadratic polynomials in q),
with np.linalg.inv replaced by the transpose (the inverse of an orthogonal matrix; for R~ it is the inverse up to the scalar |q|^4).
The result D_l(R~) has entries that are homogeneous polynomials of degree 2l in q, and the claims become polynomial identities that
sympy decides by expansion (coefficients are floats -- sqrt(3.0) etc. -- and are compared to 1e-9):
   orthogonality   D_l(R~) D_l(R~)^T = |q|^(4l) 1                 for ALL proper rotations, l = s, p, d (quick), f (thorough)
   improper        D_l(-R~) = (-1)^l D_l(R~)                       so all of O(3)
   identity        D_l(1) = 1                                      (concrete)
   composition     D_l(R~(q1) R~(q2)) = D_l(R~(q1)) D_l(R~(q2))    s, p (quick), d (thorough); f: stand-in only (the expansion is too large)
Hybrids: rot_orb(h, R) = H D H^T with H the (row-orthonormal) hybrid matrix.  It is orthogonal exactly when the rotation maps the span of
the hybrid set onto itself: proved for sp3 (spans s+p) under all rotations, for sp2 / pxy / pz under all rotations about z, for sp / p2
under all rotations about x, and for t2g / eg / sp3d2 under the 24 proper cubic rotations (enumerated).  For a rotation that does not
preserve the span the matrix is a compression and NOT orthogonal: the property as stated ("all rotations, all hybrids") does not hold
there -- recorded known finding K3, part of the stand-in.
OrbitalRotator.__call__: local bases enter as basis2 R basis1^T, results are cached per (rotation, shell), ';'-separated shells are block
diagonal.
Not covered: the Wannier-function representation matrices of Dwann (site maps of a space group: C20 territory).
"""
import contextlib
import io
import itertools
import types
import warnings

from fractions import Fraction

import numpy as rnp
import sympy

from pyvc.core import ctx
from pyvc.unit import unit, Unit
from pyvc.npshim import Shim, sym_real_array
from pyvc.phase import linform

F_ORB = "wannierberri/symmetry/orbitals.py"
F_DW = "wannierberri/symmetry/Dwann.py"
TOL = 1e-9


def Rq(a, b, c, d):
    return rnp.array([[a * a + b * b - c * c - d * d, 2 * (b * c - a * d), 2 * (b * d + a * c)],
                      [2 * (b * c + a * d), a * a - b * b + c * c - d * d, 2 * (c * d - a * b)],
                      [2 * (b * d - a * c), 2 * (c * d + a * b), a * a - b * b - c * c + d * d]], dtype=object)


def _world(U):
    import wannierberri.symmetry.orbitals as om
    NP = Shim(overrides={"linalg.inv": lambda M: rnp.array(M, dtype=object).T})
    g = dict(np=NP, num_orbitals=om.num_orbitals, hybrid_shells_list=om.hybrid_shells_list)
    rob = U.fn(F_ORB, "Orbitals.rot_orb_basis", globs=g, model=False, rewrite_comps=False)
    ro = U.fn(F_ORB, "Orbitals.rot_orb", globs=g, model=False, rewrite_comps=False)
    with contextlib.redirect_stdout(io.StringIO()):
        O = om.Orbitals()                  # the tables of orbital polynomials and hybrid coefficients (data), built by the installed constructor
    O.rot_orb_basis = lambda sh, R: rob(O, sh, R)
    return om, O, rob, ro


def _maxcoef(M, syms):
    worst = 0.0
    for e in M:
        e = sympy.expand(e)
        if e == 0:
            continue
        worst = max([worst] + [abs(complex(c)) for c in sympy.Poly(e, *syms).coeffs()])
    return worst


L = {"s": 0, "p": 1, "d": 2, "f": 3}


def _orth_unit(shells, tiers):
    @unit("C21", "rot_orb_basis: orthogonal for every proper rotation, (-1)^l under inversion, identity [%s]" % ",".join(shells), scope="shape:shells %s; symbolic quaternion" % (shells,), expect_min=3, tiers=tiers,
          replay=lambda mv, ob: _replay_real(mv, ob), replay_once=True)
    def _o(U):
        om, O, rob, ro = _world(U)

        def body():
            q = sympy.symbols("a b c d")
            N = sum(x * x for x in q)
            R = Rq(*q)
            for sh in shells:
                D = sympy.Matrix(rob(O, sh, R))
                n = D.shape[0]
                U.ensure("%s: D D^T = |q|^(4l) 1 as a polynomial identity in the quaternion (all proper rotations)" % sh, _maxcoef(D * D.T - sympy.eye(n) * N ** (2 * L[sh]), q) < TOL)
                Dm = sympy.Matrix(rob(O, sh, -R))
                U.ensure("%s: D(-R) = (-1)^l D(R) (improper rotations)" % sh, _maxcoef(Dm - D * (-1) ** L[sh], q) < TOL)
                Did = rnp.array(rob(O, sh, rnp.eye(3)), dtype=float)
                U.ensure("%s: the identity rotation gives the identity matrix" % sh, Did.shape == (n, n) and rnp.allclose(Did, rnp.eye(n), atol=1e-12))
                U.ensure("%s: (non-vacuity) the matrix depends on the rotation" % sh, sh == "s" or _maxcoef(D - sympy.eye(n) * N ** L[sh], q) > 0.1)
        U.run(body, check_feasible=False)
        _ext(U)


def _ext(U):
    U.external("sympy expand / subs / evalf: polynomial arithmetic of the CAS (the computation the code itself relies on)")
    U.assumption("np.linalg.inv of an orthogonal matrix is its transpose; identities are verified on the cone |q|^2 R(q) and hold on SO(3) by homogeneity; float coefficients compared to 1e-9")


_orth_unit(("s", "p", "d"), ("quick", "thorough"))
_orth_unit(("f",), ("thorough",))


def _comp_unit(shells, tiers):
    @unit("C21", "rot_orb_basis: D(R1 R2) = D(R1) D(R2) for all pairs of rotations [%s]" % ",".join(shells), scope="shape:shells %s; two symbolic quaternions" % (shells,), expect_min=1, tiers=tiers,
          replay=lambda mv, ob: _replay_real(mv, ob), replay_once=True)
    def _c(U):
        om, O, rob, ro = _world(U)

        def body():
            q1, q2 = sympy.symbols("a1 b1 c1 d1"), sympy.symbols("a2 b2 c2 d2")
            R1, R2 = Rq(*q1), Rq(*q2)
            R12 = rnp.array((sympy.Matrix(R1) * sympy.Matrix(R2)).applyfunc(sympy.expand).tolist(), dtype=object)
            for sh in shells:
                D1, D2, D12 = sympy.Matrix(rob(O, sh, R1)), sympy.Matrix(rob(O, sh, R2)), sympy.Matrix(rob(O, sh, R12))
                U.ensure("%s: composition law (a representation, in this order)" % sh, _maxcoef(D12 - D1 * D2, q1 + q2) < TOL)
                if sh != "s":
                    U.ensure("%s: (non-vacuity) the opposite order is NOT an identity" % sh, _maxcoef(D12 - D2 * D1, q1 + q2) > 0.1)
        U.run(body, check_feasible=False)
        _ext(U)


_comp_unit(("s", "p"), ("quick", "thorough"))
_comp_unit(("d",), ("thorough",))


CUBIC = None


def _cubic_rotations():
    """the 24 proper rotations of the cube: signed permutation matrices of determinant +1"""
    out = []
    for perm in itertools.permutations(range(3)):
        for sg in itertools.product((1, -1), repeat=3):
            M = rnp.zeros((3, 3))
            for i in range(3):
                M[i, perm[i]] = sg[i]
            if abs(rnp.linalg.det(M) - 1) < 1e-9:
                out.append(M)
    return out


@unit("C21", "rot_orb for hybrids: orthogonal whenever the rotation preserves the span of the hybrid set", scope="shape:sp3 all rotations; sp2 / pxy / pz about z; sp / p2 about x; t2g / eg / sp3d2 for the 24 cubic rotations", expect_min=4,
      replay=lambda mv, ob: _replay_real(mv, ob), replay_once=True)
def _hyb(U):
    om, O, rob, ro = _world(U)

    def body():
        q = sympy.symbols("a b c d")
        a, b, c, d = q
        zero = sympy.Integer(0)
        cases = [("sp3", q, Rq(*q), 1), ("sp2", (a, d), Rq(a, zero, zero, d), 1), ("pxy", (a, d), Rq(a, zero, zero, d), 1), ("pz", (a, d), Rq(a, zero, zero, d), 1),
                 ("sp", (a, b), Rq(a, b, zero, zero), 1), ("p2", (a, b), Rq(a, b, zero, zero), 1)]
        for hs, syms, R, _ in cases:
            D = sympy.Matrix(ro(O, hs, R))
            n = D.shape[0]
            N = sum(x * x for x in syms)
            # mixed degrees (s: 0, p: 2 in q): orthogonality on the unit sphere |q| = 1 -- substitute the normalisation by homogenising each block
            G = (D * D.T).applyfunc(sympy.expand)
            ok = True
            for i in range(n):
                for j in range(n):
                    e = G[i, j]
                    # on |q|^2 = 1 every monomial of degree 2k equals itself times |q|^(2(m-k)): compare after homogenising to degree 4
                    p_ = sympy.Poly(e, *syms)
                    hom = sum(cf * sympy.prod([s_ ** m_ for s_, m_ in zip(syms, mon)]) * N ** ((4 - sum(mon)) // 2) for mon, cf in zip(p_.monoms(), p_.coeffs()))
                    want = (N ** 2 if i == j else 0)
                    ok = ok and _maxcoef([hom - want], syms) < TOL
            U.ensure("%s: D D^T = 1 for every rotation %s" % (hs, "whatsoever" if hs == "sp3" else "about the axis that preserves its span"), ok)
        # composition for a hybrid set that spans full shells (H square and orthogonal): sp3
        q1, q2 = sympy.symbols("a1 b1 c1 d1"), sympy.symbols("a2 b2 c2 d2")
        R1, R2 = Rq(*q1), Rq(*q2)
        R12 = rnp.array((sympy.Matrix(R1) * sympy.Matrix(R2)).applyfunc(sympy.expand).tolist(), dtype=object)
        H1, H2, H12 = sympy.Matrix(ro(O, "sp3", R1)), sympy.Matrix(ro(O, "sp3", R2)), sympy.Matrix(ro(O, "sp3", R12))
        # s block has degree 0, p block degree 2 in each quaternion: compare on |q1| = |q2| = 1 by homogenising every monomial to degree (2, 2)
        N1, N2 = sum(x * x for x in q1), sum(x * x for x in q2)

        def homog(e):
            p_ = sympy.Poly(sympy.expand(e), *q1, *q2)
            return sum(cf * sympy.prod([s_ ** m_ for s_, m_ in zip(q1 + q2, mon)]) * N1 ** ((2 - sum(mon[:4])) // 2) * N2 ** ((2 - sum(mon[4:])) // 2) for mon, cf in zip(p_.monoms(), p_.coeffs()))
        P = H1 * H2
        U.ensure("sp3: rot_orb(R1 R2) = rot_orb(R1) rot_orb(R2) for all pairs of rotations", _maxcoef([homog(H12[i, j]) - homog(P[i, j]) for i in range(4) for j in range(4)], q1 + q2) < TOL)
        bad = []
        for hs in ("t2g", "eg", "sp3d2"):
            for M in _cubic_rotations():
                Dn = rnp.array(ro(O, hs, M), dtype=float)
                if not rnp.allclose(Dn @ Dn.T, rnp.eye(Dn.shape[0]), atol=1e-9):
                    bad.append((hs, M.tolist()))
        U.ensure("t2g, eg, sp3d2: orthogonal for each of the 24 proper rotations of the cube", not bad)
    U.run(body, check_feasible=False)
    _ext(U)


@unit("C21", "OrbitalRotator.__call__: local bases, cache, composite shells", scope="shape:p, s, 'p;s', 's;p' with two local bases; rotations 5e-3 and 1e-7 apart", expect_min=6)
def _rotator(U):
    import wannierberri.symmetry.orbitals as om
    from scipy.linalg import block_diag
    calls = []
    orbs = types.SimpleNamespace(rot_orb=lambda orb_symbol=None, rot_glb=None: (calls.append((orb_symbol, rnp.array(rot_glb))), rnp.eye({"p": 3, "s": 1}[orb_symbol]) * (len(calls)))[1])
    call = U.fn(F_ORB, "OrbitalRotator.__call__", globs=dict(np=rnp, block_diag=block_diag), model=False, rewrite_comps=False)

    init = U.fn(F_ORB, "OrbitalRotator.__init__", globs=dict(np=rnp, UniqueList=om.UniqueList, get_orbitals=lambda: orbs), model=False, rewrite_comps=False)

    def body():
        class Me:
            def __call__(self, *a, **k):
                return call(self, *a, **k)
        m = Me()
        init(m)                      # the rotator's own state: the list of rotations seen so far (with ITS matching tolerance), the shell calculator, the cache
        R = rnp.array([[0.0, -1, 0], [1, 0, 0], [0, 0, 1]])
        b1, b2 = rnp.array([[0.0, 1, 0], [-1, 0, 0], [0, 0, 1]]), rnp.array([[1.0, 0, 0], [0, 0, 1], [0, -1, 0]])
        del calls[:]
        A = m("p", rot_cart=R, basis1=b1, basis2=b2)
        U.ensure("local bases: the shell matrix is computed for basis2 R basis1^T", len(calls) == 1 and calls[0][0] == "p" and rnp.allclose(calls[0][1], b2 @ R @ b1.T))
        B = m("p", rot_cart=R, basis1=b1, basis2=b2)
        U.ensure("the same rotation and shell are served from the cache", B is A and len(calls) == 1)
        C = m(" p;s ", rot_cart=R)
        U.ensure("';'-separated shells: block diagonal of the shells' matrices for the same rotation", C.shape == (4, 4) and rnp.allclose(C[3, :3], 0) and rnp.allclose(C[:3, 3], 0) and len(calls) == 3
                 and all(rnp.allclose(c_[1], R) for c_ in calls[1:]))
        n0 = len(calls)
        s1, p1, C2 = m("s", rot_cart=R), m("p", rot_cart=R), m("p;s", rot_cart=R)
        U.ensure("after a composite request its sub-shells and the composite itself are still served with their own matrices (the cache is keyed by the requested shell string)",
                 s1.shape == (1, 1) and p1.shape == (3, 3) and C2.shape == (4, 4) and rnp.allclose(C2, C) and len(calls) == n0)
        del calls[:]
        Cl = m("s;p", rot_cart=R, basis1=b1, basis2=b2)
        U.ensure("composite shell with local bases: every sub-shell is computed for basis2 R basis1^T (the bases enter once)",
                 Cl.shape == (4, 4) and [c_[0] for c_ in calls] == ["s"] and rnp.allclose(calls[0][1], b2 @ R @ b1.T) and rnp.allclose(Cl[1:, 1:], A))
        # distinct rotations are not conflated: a rotation 5e-3 away from an earlier one gets its own matrix; one 1e-7 away (noise) shares it
        th = 5e-3
        Rt = rnp.array([[rnp.cos(th), -rnp.sin(th), 0], [rnp.sin(th), rnp.cos(th), 0], [0, 0, 1.0]])
        del calls[:]
        near = m("p", rot_cart=R @ Rt)
        noise = m("p", rot_cart=R + 1e-7)
        U.ensure("a rotation 5e-3 away from a cached one is computed on its own; rounding noise (1e-7) is served from the cache",
                 len(calls) == 1 and rnp.allclose(calls[0][1], R @ Rt, atol=1e-12) and near is not p1 and noise is p1)
        try:
            m("p", rot_cart=R, basis1=b1)
            ok = False
        except AssertionError:
            ok = True
        U.ensure("one local basis without the other is refused", ok)
    U.run(body, check_feasible=False)


# ------------------------------------------------------------------ Wannier representation: Dwann.get_on_points for every k
@unit("C21", "Dwann.get_on_points: a block permutation of the orbital matrices with unit-modulus phases -- unitary for every k", expect_min=3,
      scope="shape:orbits of 3 points, every site permutation, 2 orbitals per site, spinless; symbolic k; 3 operations (proper, improper with time reversal, with a translation)")
def _dwann(U):
    from pyvc.phase import PhSum, phsum_eq
    from pyvc.core import conc

    def sround(x):
        """np.round on an array whose symbolic entries are in fact numerals (k-dependence cancelled)"""
        out = rnp.empty(rnp.shape(x), dtype=object)
        for i in rnp.ndindex(*rnp.shape(x)):
            v = x[i]
            if isinstance(v, (int, float, rnp.generic)):
                out[i] = round(float(v))
                continue
            lf = linform(v)
            if set(lf) - {1}:
                raise AssertionError("kpt - symop(kptirr) depends on k: not a reciprocal lattice vector")
            out[i] = round(float(lf.get(1, 0)))
        return out
    NP = Shim(overrides=dict(round=sround))
    f = U.fn(F_DW, "Dwann.get_on_points", globs=dict(np=NP), model=False, rewrite_comps=False)

    def body():
        import itertools as it
        perm = list(it.permutations(range(3)))[ctx().choose(6, "site permutation of the operation")]
        iop = ctx().choose(3, "operation")
        Sk = [rnp.array([[0, 1, 0], [-1, 0, 0], [0, 0, 1]]), -rnp.eye(3, dtype=int), rnp.array([[1, 0, 0], [0, -1, 0], [0, 0, -1]])][iop]
        k = sym_real_array("k", (3,))
        op = types.SimpleNamespace(transform_k=lambda kk: rnp.dot(kk, Sk))          # external contract (irrep): a linear integer map of the reduced k (sign of time reversal included)
        th = [0.3, 1.1, -2.0]
        rot = rnp.array([[[[rnp.cos(t), -rnp.sin(t)], [rnp.sin(t), rnp.cos(t)]]] for t in th])      # one orthogonal block per site (for this operation)
        T = rnp.array([[[1, 0, -2]], [[0, 0, 0]], [[-1, 3, 1]]])
        me = types.SimpleNamespace(spacegroup=types.SimpleNamespace(symmetries=[op]), orbit=[0, 1, 2], atommap=rnp.array(perm).reshape(3, 1), T=T, rot_orb=rot, num_wann=6, num_orbitals=2)
        G = rnp.array([2, -1, 0])
        k1 = rnp.dot(k, Sk)
        D = f(me, k, k1 + G, 0)
        U.ensure("shape (num_wann, num_wann)", tuple(D.shape) == (6, 6))
        ok_blocks, ok_val = True, True
        for ip in range(3):
            for jp in range(3):
                blk = D[2 * jp:2 * jp + 2, 2 * ip:2 * ip + 2]
                if jp != perm[ip]:
                    ok_blocks = ok_blocks and all(isinstance(v, (int, float, complex)) and v == 0 for v in blk.flat)
                else:
                    from pyvc.phase import Ph
                    form = {}
                    for c in range(3):
                        for d in range(3):
                            if Sk[c, d] * T[ip, 0, d]:
                                form["k_%d" % c] = form.get("k_%d" % c, 0) + Fraction(int(Sk[c, d] * T[ip, 0, d]))
                    for a in range(2):
                        for b in range(2):
                            dv = PhSum.of(blk[a, b]) - PhSum.of(Ph(form)) * float(rot[ip, 0, a, b])
                            ok_val = ok_val and all(conc(v.re) is not None and conc(v.im) is not None and abs(float(conc(v.re))) < 1e-12 and abs(float(conc(v.im))) < 1e-12 for v in dv.t.values())
        U.ensure("site ip is mapped onto its image atommap[ip] and nowhere else (every other block is exactly zero)", ok_blocks)
        U.ensure("the block is e^{2 pi i symop(k).T[ip]} times the site's orbital matrix", ok_val)
        ok_u = True
        for a in range(6):
            for b in range(6):
                tot = PhSum({})
                for c in range(6):
                    x, y = D[a, c], D[b, c]
                    if (isinstance(x, (int, float, complex)) and x == 0) or (isinstance(y, (int, float, complex)) and y == 0):
                        continue
                    tot = tot + PhSum.of(x) * PhSum.of(y).conj()
                want = PhSum.of(1.0) if a == b else PhSum({})
                d_ = tot - want            # concrete float coefficients (cos^2 + sin^2 to rounding): every coefficient of every character below 1e-12
                ok_u = ok_u and all(conc(v.re) is not None and conc(v.im) is not None and abs(float(conc(v.re))) < 1e-12 and abs(float(conc(v.im))) < 1e-12 for v in d_.t.values())
        U.ensure("D D^dagger = 1 for every k (orthogonal orbital blocks, a bijective site map, unit-modulus phases)", ok_u)
        try:
            f(me, k, k1 + rnp.array([0.5, 0, 0]), 0)
            refused = False
        except AssertionError:
            refused = True
        U.ensure("a k-point that is not the image of the irreducible one up to a reciprocal lattice vector is refused", refused)
    U.run(body, check_feasible=False)
    U.external("irrep SymmetryOperation.transform_k: linear integer map on reduced k; orbital blocks orthogonal (units above); atommap a permutation (checked against the geometry by the stand-in and by C20's units)")


# ------------------------------------------------------------------ bounded stand-in: installed code, numeric rotations
def _real_rot(rng, n):
    from scipy.spatial.transform import Rotation
    import wannierberri.symmetry.orbitals as om
    fails, cases = [], 0
    with contextlib.redirect_stdout(io.StringIO()), warnings.catch_warnings():
        warnings.simplefilter("ignore")
        O = om.Orbitals()
        for t in range(3 if n <= 30 else 10):
            R1 = Rotation.random(random_state=rng.randint(0, 10 ** 6)).as_matrix()
            R2 = Rotation.random(random_state=rng.randint(0, 10 ** 6)).as_matrix() * (-1 if t % 2 else 1)
            bad = []
            for sh in ("s", "p", "d", "f"):
                D1, D2, D12 = O.rot_orb(sh, R1), O.rot_orb(sh, R2), O.rot_orb(sh, R1 @ R2)
                if not rnp.allclose(D1 @ D1.T, rnp.eye(len(D1)), atol=1e-9) or not rnp.allclose(D2 @ D2.T, rnp.eye(len(D2)), atol=1e-9):
                    bad.append("%s: not orthogonal" % sh)
                if not rnp.allclose(D12, D1 @ D2, atol=1e-9):
                    bad.append("%s: D(R1 R2) != D(R1) D(R2)" % sh)
            cases += 1
            if bad:
                fails.append(dict(input=dict(R1=R1.tolist(), R2=R2.tolist()), clause="orthogonality / composition of the shell matrices", failed=bad[:4]))
        # known finding K3: a hybrid under a rotation that does not preserve its span
        C4x = rnp.array([[1.0, 0, 0], [0, 0, -1], [0, 1, 0]])
        D = O.rot_orb("sp2", C4x)
        cases += 1
        if not rnp.allclose(D @ D.T, rnp.eye(3), atol=1e-9):
            fails.append(dict(input=dict(shell="sp2", rotation="C4x", case="hybrid-sp2-C4x/not-orthogonal"), clause="rot_orb of a hybrid is orthogonal for every rotation", failed=["D D^T = %s" % rnp.round(D @ D.T, 6).tolist()]))
        # the Wannier representation on real structures: unitary for every operation at random k, centres mapped onto their images
        from wannierberri.symmetry.Dwann import Dwann
        from irrep import __version__ as irrep_version
        from irrep.spacegroup import SpaceGroup
        from packaging import version
        for sname, lat, pos, typ, orb, spinor in (("orthorhombic two-site p orbit", rnp.diag([1.0, 1.2, 1.5]), [[0.2, 0, 0], [-0.2, 0, 0]], [0, 0], "p", False),
                                                   ("hexagonal two-site s;p orbit, spinor", rnp.array([[1, 0, 0], [-0.5, 0.8660254037844386, 0], [0, 0, 1.6]]), [[1 / 3, 2 / 3, 0.1], [2 / 3, 1 / 3, 0.1]], [0, 0], "s;p", True),
                                                   ("tetragonal four-site d orbit", rnp.diag([1.0, 1.0, 1.4]), [[0.2, 0.1, 0.3], [-0.1, 0.2, 0.3], [-0.2, -0.1, 0.3], [0.1, -0.2, 0.3]], [0, 0, 0, 0], "d", False)):
            if version.parse(irrep_version) < version.parse("2.2.0"):
                sg = SpaceGroup(cell=(lat, rnp.array(pos), rnp.array(typ)), magmom=None, include_TR=True, spinor=spinor)
            else:
                sg = SpaceGroup.from_cell(real_lattice=lat, positions=rnp.array(pos), typat=rnp.array(typ), magmom=None, include_TR=True, spinor=spinor)
            dw = Dwann(sg, rnp.array(pos), orbital=orb, orbitalrotator=om.OrbitalRotator(), basis_list=[rnp.eye(3)] * len(pos), spinor=spinor)
            bad = []
            rs = rnp.random.RandomState(rng.randint(0, 10 ** 6))
            for isym, g in enumerate(sg.symmetries):
                k = rs.rand(3) - 0.5
                G = rs.randint(-2, 3, size=3)
                D = dw.get_on_points(k, g.transform_k(k) + G, isym)
                if D.shape != (dw.num_wann, dw.num_wann) or not rnp.allclose(D @ D.conj().T, rnp.eye(dw.num_wann), atol=1e-9):
                    bad.append("operation %d: D_wann is not unitary" % isym)
                for ip, p_ in enumerate(dw.orbit):
                    img = rnp.array(g.rotation) @ rnp.array(p_) + rnp.array(g.translation)
                    jp = dw.atommap[ip, isym]
                    d_ = img - rnp.array(dw.orbit[jp])
                    if not rnp.allclose(d_, rnp.round(d_), atol=1e-6) or not (rnp.allclose(rnp.round(d_), dw.T[ip, isym]) or rnp.allclose(rnp.round(d_), -dw.T[ip, isym])):
                        bad.append("operation %d: site %d is not mapped onto its symmetry image (up to the recorded lattice vector)" % (isym, ip))
            # the documented short form: ONE representative position (2D array), the rest of the orbit generated by the group -- the same object as
            # when the generated orbit is passed in full
            dw1 = Dwann(sg, rnp.array(pos[:1]), orbital=orb, orbitalrotator=om.OrbitalRotator(), basis_list=[rnp.eye(3)] * len(dw.orbit), spinor=spinor)
            dwf = Dwann(sg, rnp.array(dw1.orbit), orbital=orb, orbitalrotator=om.OrbitalRotator(), basis_list=[rnp.eye(3)] * len(dw1.orbit), spinor=spinor)
            if len(dw1.orbit) != len(dw.orbit) or rnp.shape(dw1.rot_orb) != rnp.shape(dwf.rot_orb) or not rnp.allclose(dw1.rot_orb, dwf.rot_orb, atol=1e-12) \
                    or not rnp.array_equal(dw1.atommap, dwf.atommap) or not rnp.array_equal(dw1.T, dwf.T):
                bad.append("built from one representative position: differs from the object built from the full orbit")
            cases += 1
            if bad:
                fails.append(dict(input=dict(structure=sname, orbital=orb, spinor=spinor), clause="Wannier representation matrices are unitary and map each centre onto its symmetry image", failed=bad[:4]))
    return dict(cases=cases, failures=fails, distinct=cases)


def _replay_real(mv, ob):
    import random
    r = _real_rot(random.Random(2), 10)
    r["failures"] = [f_ for f_ in r["failures"] if f_["input"].get("case") != "hybrid-sp2-C4x/not-orthogonal"]
    return dict(reproduced=bool(r["failures"]), input="installed Orbitals.rot_orb on random proper and improper rotations, shells s, p, d, f", failed=r["failures"][:3])


Unit("C21", "shell matrices on random rotations of O(3) [real code]", concrete=_real_rot,
     bounded_desc="installed Orbitals.rot_orb for s, p, d, f on 3 (quick) / 10 (thorough) pairs of random rotations (every second pair improper): orthogonality and the composition law (the only coverage of the f-shell composition law); "
                  "the recorded known finding K3 (sp2 under C4x); real Dwann objects on three structures (p, s;p with spinors, d): unitary at random k for every operation, sites mapped onto their images")
