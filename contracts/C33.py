"""C33  Tetrahedron corner energies are the band energies at the corners.

Spec (from the property): the matrix handed to the eigen-solver for corner v must be the Hamiltonian at k+v, i.e. for a
real-space system  sum_R H[R] ph(R.(k+v)):  every call of `rvec.R_to_k(X)` made for corner v must receive
X[iR] = H[iR] * ph(iRvec[iR] . v)  with H and iRvec of THE SAME sub-system whose rvec performs the transform
(R_to_k's own contract, C02, supplies ph(R.k)).  For spin-orbit systems the up block must come from the up system, the
down block from the down system (own Hamiltonian, own R-vectors, own phases), the SOC term from the SOC matrices.

Under contract (real text, real numpy on symbolic scalars; dK / vertices symbolic reals, H symbolic complex, R-vector sets
concrete and DIFFERENT for up/down/soc): Data_K_R.expdK_corners_parallel, expdK_corners_tetra, E_K_corners_parallel,
E_K_corners_tetra; Data_K_soc.E_K_corners_parallel, E_K_corners_tetra; Data_K_k.E_K_corners_parallel, E_K_corners_tetra.
"""
import itertools
from fractions import Fraction

import numpy as rnp
from pyvc.core import ctx, sreal, SNum, SCplx
from pyvc.unit import unit, Unit
from pyvc.npshim import Shim, sym_real_array, sym_cplx_array, same_scaled
from pyvc.phase import Ph, Scaled

FR = "wannierberri/data_K/data_K_R.py"
FS = "wannierberri/data_K/data_K_soc.py"
FK = "wannierberri/data_K/data_K_k.py"


class _Obj:
    pass


R_UP = rnp.array([[0, 0, 0], [1, 0, -1], [0, 2, 1]])
R_DN = rnp.array([[0, 0, 0], [-1, 1, 0], [0, 0, 3], [2, -1, 1]])
R_SOC = rnp.array([[0, 0, 0], [1, 1, 1]])
NW = 2


def _mk_dataK(U, name, iR, eig_log, parallel=True, tetra=True):
    """a Data_K_R shell: real methods extracted, R_to_k / eigvalsh recording stubs"""
    me = _Obj()
    me.name = name
    me.rvec = _Obj()
    me.rvec.iRvec = iR
    me.rvec.nRvec = len(iR)
    me.calls = []

    def R_to_k(X, hermitian=False, der=0):
        out = sym_cplx_array("HK_%s_%d" % (name, len(me.calls) + 1), (1, X.shape[1], X.shape[2]))
        me.calls.append(dict(X=X, hermitian=hermitian, der=der, out=out))
        return out
    me.rvec.R_to_k = R_to_k
    me.Ham_R = sym_cplx_array("H_" + name, (len(iR), NW, NW))
    me.num_wann = NW
    me.nk = 1
    me.nk_selected = 1
    me.nb_selected = NW
    me.nbands = NW
    me.select_K = rnp.array([0])
    me.select_B = rnp.arange(NW)
    me.E_K = None
    me.phonon_freq_from_square = _ph
    me.grid = _Obj()
    me.grid.dense = rnp.array([7, 11, 13])            # deliberately unrelated to the K-point's own cell
    me.select_bands = lambda E: None
    me.Kpoint = _Obj()
    me.Kpoint.dK_fullBZ = rnp.array([sreal("dK0"), sreal("dK1"), sreal("dK2")], dtype=object)
    me.Kpoint.vertices_fullBZ = sym_real_array("vtx", (4, 3))
    return me


def _np(eig_log):
    def eigvalsh(M):
        eig_log.append(M)
        n = len(eig_log)
        out = rnp.zeros(M.shape[:-1])
        for idx in rnp.ndindex(*out.shape):
            out[idx] = 10.0 * n + idx[-1] + 0.125 * idx[0]          # distinct, recognisable eigenvalues of the n-th diagonalisation
        return out
    return Shim(overrides={"linalg.eigvalsh": eigvalsh})


def _ph(E):
    """stand-in for phonon_freq_from_square: strictly monotone and NOT idempotent, so applying it twice (or never) is visible"""
    return E * E + 1.0


def _eigval(n, ik, ib):
    return 10.0 * n + ib + 0.125 * ik


def _phase_parallel(R, s):
    # v_j = (s_j - 1/2) * dK_j
    form = {}
    for j in range(3):
        c = Fraction(int(R[j])) * (Fraction(s[j]) - Fraction(1, 2))
        if c:
            form["dK%d" % j] = c
    return Ph(form)


def _phase_tetra(R, iv):
    form = {}
    for j in range(3):
        if int(R[j]):
            form["vtx_%d_%d" % (iv, j)] = Fraction(int(R[j]))
    return Ph(form)


def _check_calls(U, me, label, corners, phase_of):
    U.ensure("%s: one R_to_k call per corner" % label, len(me.calls) == len(corners))
    for c, call in zip(corners, me.calls):
        X = call["X"]
        ok = X.shape == me.Ham_R.shape and call["hermitian"] is True and call["der"] == 0
        if ok:
            for iR in range(len(me.rvec.iRvec)):
                for a in range(NW):
                    for b in range(NW):
                        ok = ok and same_scaled(X[iR, a, b], me.Ham_R[iR, a, b], phase_of(me.rvec.iRvec[iR], c))
        U.ensure("%s corner %s: coefficient of R is H[R]*ph(R.v) with this sub-system's own H and R-vectors" % (label, (c,)), ok)


CORN_P = list(itertools.product((0, 1), repeat=3))


@unit("C33", "Data_K_R.E_K_corners_parallel", scope="shape:3 R-vectors, 2 bands, 1 k", expect_min=5)
def _r_par(U):
    eig = []
    NPs = _np(eig)
    exp_f = U.fn(FR, "Data_K_R.expdK_corners_parallel", globs=dict(np=NPs), model=False)
    f = U.fn(FR, "Data_K_R.E_K_corners_parallel", globs=dict(np=NPs), model=False)

    def body():
        del eig[:]
        me = _mk_dataK(U, "R", R_UP, eig)
        me.expdK_corners_parallel = exp_f(me)
        res = f(me)
        _check_calls(U, me, "R", CORN_P, _phase_parallel)
        U.ensure("eigenvalues are taken of exactly the transformed matrices, corner by corner", len(eig) == 8 and all(eig[i] is not None for i in range(8)))
        U.ensure("result shape (nk,2,2,2,nb)", tuple(res.shape) == (1, 2, 2, 2, NW))
        U.ensure("corner (ix,iy,iz) holds the eigenvalues of ITS matrix, with the phonon/electron energy map applied exactly once",
                 all(abs(res[0, c[0], c[1], c[2], b] - _ph(_eigval(n + 1, 0, b))) < 1e-12 for n, c in enumerate(CORN_P) for b in range(NW)))
    U.run(body, check_feasible=False)
    U.external("rvec.R_to_k(X): sum_R X[R] ph(R.k) with this rvec's own R-vectors (contract of C02)")
    U.external("np.exp(2j*pi*x) = ph(x); ph(x)ph(y)=ph(x+y); 1/ph(x)=ph(-x)")


@unit("C33", "Data_K_R.E_K_corners_tetra", scope="shape:3 R-vectors, 2 bands, 1 k", expect_min=4)
def _r_tet(U):
    eig = []
    NPs = _np(eig)
    exp_f = U.fn(FR, "Data_K_R.expdK_corners_tetra", globs=dict(np=NPs), model=False)
    f = U.fn(FR, "Data_K_R.E_K_corners_tetra", globs=dict(np=NPs), model=False)

    def body():
        del eig[:]
        me = _mk_dataK(U, "R", R_UP, eig)
        me.expdK_corners_tetra = exp_f(me)
        res = f(me)
        _check_calls(U, me, "R", [0, 1, 2, 3], _phase_tetra)
        U.ensure("result shape (nk,4,nb)", tuple(res.shape) == (1, 4, NW))
        U.ensure("vertex iv holds the eigenvalues of ITS matrix, with the phonon/electron energy map applied exactly once",
                 all(abs(res[0, iv, b] - _ph(_eigval(iv + 1, 0, b))) < 1e-12 for iv in range(4) for b in range(NW)))
    U.run(body, check_feasible=False)


def _soc_unit(kind, has_soc, nspin):
    name = "Data_K_soc.E_K_corners_%s[%s,nspin=%d]" % (kind, "soc" if has_soc else "nosoc", nspin)

    def prove(U):
        eig = []
        NPs = _np(eig)
        expR = U.fn(FR, "Data_K_R.expdK_corners_%s" % kind, globs=dict(np=NPs), model=False)
        f = U.fn(FS, "Data_K_soc.E_K_corners_%s" % kind, globs=dict(np=NPs), model=False)
        corners = CORN_P if kind == "parallel" else [0, 1, 2, 3]
        phase_of = _phase_parallel if kind == "parallel" else _phase_tetra

        def body():
            del eig[:]
            up = _mk_dataK(U, "up", R_UP, eig)
            dn = _mk_dataK(U, "dn", R_DN, eig) if nspin == 2 else up
            me = _mk_dataK(U, "soc", R_SOC, eig)
            me.num_wann = me.nbands = me.nb_selected = 2 * NW
            me.select_B = rnp.arange(2 * NW)
            me.has_soc = has_soc
            me.data_K_up, me.data_K_down = up, dn
            socmat = sym_cplx_array("SOC", (len(R_SOC), 2 * NW, 2 * NW))
            me.get_R_mat = lambda key: socmat if key == "soc" else None
            for o in (up, dn, me):
                setattr(o, "expdK_corners_%s" % kind, expR(o))
            res = f(me)
            if nspin == 2:
                _check_calls(U, up, "up block", corners, phase_of)
                _check_calls(U, dn, "down block", corners, phase_of)
            else:
                U.ensure("nspin=1: two transforms per corner on the shared sub-system", len(up.calls) == 2 * len(corners))
            if has_soc:
                U.ensure("SOC term: one transform per corner", len(me.calls) == len(corners))
                for c, call in zip(corners, me.calls):
                    X = call["X"]
                    ok = X.shape == socmat.shape
                    if ok:
                        for iR in range(len(R_SOC)):
                            for a in range(2 * NW):
                                for b in range(2 * NW):
                                    ok = ok and same_scaled(X[iR, a, b], socmat[iR, a, b], phase_of(R_SOC[iR], c))
                    U.ensure("SOC term corner %s: H_soc[R]*ph(R.v) with the SOC R-vectors" % (c,), ok)
            else:
                U.ensure("no SOC: no transform of the spinor system", len(me.calls) == 0)
            # assembly: the matrix diagonalised for corner c has the up result at [::2,::2], the down result at [1::2,1::2]
            U.ensure("one diagonalisation per corner", len(eig) == len(corners))
            import z3
            flat = res.reshape(1, len(corners), 2 * NW)
            U.ensure("corner c holds the eigenvalues of ITS assembled matrix, energy map applied exactly once",
                     all(abs(flat[0, n, b] - _ph(_eigval(n + 1, 0, b))) < 1e-12 for n in range(len(corners)) for b in range(2 * NW)))
            for ci, M in enumerate(eig[:len(corners)]):
                upk = up.calls[ci if nspin == 2 else 2 * ci]
                dnk = dn.calls[ci if nspin == 2 else 2 * ci + 1]
                ok = tuple(M.shape) == (1, 2 * NW, 2 * NW)
                if ok:
                    for a in range(2 * NW):
                        for b in range(2 * NW):
                            want = SCplx(0, 0)
                            if a % 2 == 0 and b % 2 == 0:
                                want = want + upk["out"][0, a // 2, b // 2]
                            if a % 2 == 1 and b % 2 == 1:
                                want = want + dnk["out"][0, a // 2, b // 2]
                            if has_soc:
                                want = want + me.calls[ci]["out"][0, a, b]
                            got = SCplx.of(M[0, a, b])
                            sv = z3.Solver()
                            sv.add(z3.Not((got == want).t))
                            ok = ok and sv.check() == z3.unsat
                U.ensure("corner %d: matrix diagonalised = up block at [::2,::2] + down block at [1::2,1::2] (+ SOC term), zero elsewhere" % ci, ok)
        U.run(body, check_feasible=False)
    Unit("C33", name, prove=prove, scope="shape:up 3 / down 4 / soc 2 R-vectors, 2+2 bands", expect_min=4, replay=lambda mv, ob: _replay_soc(), replay_once=True)


def _replay_soc(seed=3):
    """real SystemSOC whose up/down R-vector sets differ: corners vs direct evaluation (the package's own *_test method)"""
    import contextlib
    import io
    import wannierberri as wb
    from wannierberri.system.system_R import System_R
    from wannierberri.system.system_soc import SystemSOC
    from wannierberri.data_K.data_K_soc import Data_K_soc
    rnp.random.seed(seed)
    with contextlib.redirect_stdout(io.StringIO()):
        def herm(s):
            for key in list(s._XX_R.keys()):
                X = s.get_R_mat(key)
                s.set_R_mat(key, 0.5 * (X + s.rvec.conj_XX_R(X)), reset=True)
            return s
        lat = 3 * rnp.eye(3)
        up = herm(System_R.from_random(num_wann=2, nRvec=27, max_R=1, real_lattice=lat))
        dn = herm(System_R.from_random(num_wann=2, nRvec=27, max_R=1, real_lattice=lat))
        # give the down system a differently ORDERED R list (same set): the up phases no longer match position by position
        perm = rnp.random.permutation(dn.rvec.nRvec)
        dn.rvec.iRvec = dn.rvec.iRvec[perm]
        for key in list(dn._XX_R.keys()):
            dn._XX_R[key] = dn._XX_R[key][perm]
        if hasattr(dn.rvec, "clear_cached"):
            dn.rvec.clear_cached()
        up.wannier_centers_cart = rnp.zeros((2, 3))
        dn.wannier_centers_cart = rnp.zeros((2, 3))
        soc = SystemSOC(system_up=up, system_down=dn)
        grid = wb.Grid(system=up, NK=2, NKFFT=1)
        K = grid.get_K_list(use_symmetry=False)[1]
        dk = Data_K_soc(soc, dK=K.Kp_fullBZ, grid=grid, Kpoint=K)
        a = dk.E_K_corners_parallel()
        b = dk.E_K_corners_parallel_test()
    diff = float(abs(a - b).max())
    return dict(reproduced=diff > 1e-8, input=dict(seed=seed, systems="two random Hermitian 2-band System_R, down R-list permuted"),
                clause="E_K_corners_parallel == energies evaluated directly at the corner k-points", max_abs_diff=diff)


for _k in ("parallel", "tetra"):
    _soc_unit(_k, True, 2)
    _soc_unit(_k, False, 2)
    _soc_unit(_k, True, 1)


def _kp_unit(kind):
    @unit("C33", "Data_K_k.E_K_corners_%s" % kind, scope="shape:2 k-points, 2 bands", expect_min=2)
    def _kp(U):
        eig = []
        NPs = _np(eig)
        f = U.fn(FK, "Data_K_k.E_K_corners_%s" % kind, globs=dict(np=NPs), model=False)

        def body():
            del eig[:]
            me = _mk_dataK(U, "kp", R_UP, eig)
            me.nk = me.nk_selected = 2
            me.kpoints_all = sym_real_array("k", (2, 3))
            seen = []
            me.system = _Obj()
            me.system.Ham = lambda k: (seen.append(k), rnp.zeros((NW, NW)))[1]
            me.select_K = rnp.array([0, 1])
            res = f(me)
            import z3
            corners = CORN_P if kind == "parallel" else [0, 1, 2, 3]
            ok = len(seen) == len(corners) * 2
            if ok:
                t = 0
                for c in corners:
                    for ik in range(2):
                        for j in range(3):
                            if kind == "parallel":
                                want = me.kpoints_all[ik, j] + (Fraction(c[j]) - Fraction(1, 2)) * me.Kpoint.dK_fullBZ[j]
                            else:
                                want = me.kpoints_all[ik, j] + me.Kpoint.vertices_fullBZ[c, j]
                            got = seen[t][j]
                            s = z3.Solver()
                            s.add((got != want).t)
                            ok = ok and s.check() == z3.unsat
                        t += 1
            U.ensure("Ham is evaluated at k + v for every k-point and corner, v = (s - 1/2) dK resp. the tetrahedron vertex", ok)
            U.ensure("one diagonalisation per corner", len(eig) == len(corners))
            flat = res.reshape(2, len(corners), NW)
            U.ensure("corner c holds the eigenvalues of ITS matrix, energy map applied exactly once",
                     all(abs(flat[ik, n, b] - _ph(_eigval(n + 1, ik, b))) < 1e-12 for ik in range(2) for n in range(len(corners)) for b in range(NW)))
        U.run(body, check_feasible=False)


_kp_unit("parallel")
_kp_unit("tetra")


def _real_corners(rng, n):
    r = _replay_soc(seed=rng.randint(0, 1000))
    return dict(cases=1, failures=[r] if r["reproduced"] else [], distinct=1)


Unit("C33", "SystemSOC corners == direct evaluation [real objects]", concrete=_real_corners,
     bounded_desc="one random Hermitian SOC system (2+2 bands, 27 R-vectors, down R-list permuted), 2x2x2 grid K-point: E_K_corners_parallel vs E_K_corners_parallel_test")
