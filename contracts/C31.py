"""C31  k.p models: numerical and analytic derivatives agree.

"To finite-difference accuracy" made precise as a contract: the scheme  D f(k) = sum_b w_b f(k + b) b_cart  with the weights and
shells of find_shells (B1 condition  sum_b w_b b_i b_j = delta_ij,  shells closed under b -> -b)
  (E) reproduces the Cartesian gradient of EVERY polynomial of degree <= 2 exactly (the error of a smooth function is the cubic
      remainder, O(dk^2)) -- hence for a quadratic k.p Hamiltonian all three numerical derivatives are the analytic ones;
  (H) maps Hermitian-valued functions to Hermitian-valued functions (real weights and vectors), for any function whatsoever;
  (W) SystemKP.__init__ builds derHam / der2Ham / der3Ham by nesting that scheme on Ham exactly when the analytic ones are not
      supplied, with bk_red = bki * finite_diff_dk, bk_cart = bk_red . recip_lattice, k handed to the user's functions in
      Cartesian or reduced coordinates as requested and folded into [-1/2, 1/2); Data_K_k.Xbar('Ham', der) takes the
      der-th of these functions at every k-point and rotates it with that k-point's eigenvectors.
Tier S (per shape): the real text on concrete lattices (cubic, hexagonal, triclinic boxes) with SYMBOLIC polynomial coefficients /
function values.  find_shells' search (sorting, SVD) runs on concrete floats: its output is checked, not re-derived.
General smooth Hamiltonians (truncation error) and "every calculator gives the same results to that accuracy" are numerical
statements: bounded stand-in on random polynomial + trigonometric two-band models.
"""
import contextlib
import io
import itertools
import types
import warnings
from fractions import Fraction

import numpy as rnp
import z3

from pyvc.core import ctx, sreal, SNum, SCplx, land, lift
from pyvc.unit import unit, Unit
from pyvc.npshim import Shim, sym_cplx_array, sym_real_array
from pyvc.phase import linform

F_FD = "wannierberri/system/__finite_differences.py"
F_KP = "wannierberri/system/system_kp.py"
F_DKK = "wannierberri/data_K/data_K_k.py"
F_DK = "wannierberri/data_K/data_K.py"
F_UT = "wannierberri/utility.py"

LATTICES = {
    "cubic box 2*kmax, kmax=1": rnp.eye(3) * 2.0,
    "hexagonal": rnp.array([[1.0, 0, 0], [-0.5, 0.8660254037844386, 0], [0, 0, 1.7]]) * 2 * rnp.pi,
    "triclinic": rnp.array([[1.0, 0.1, 0.0], [0.2, 1.3, 0.1], [0.05, 0.3, 0.9]]),
    "monoclinic": rnp.array([[1.0, 0, 0], [0, 1.2, 0], [0.3, 0, 1.4]]),
    # almost cubic (rhombohedral, cos(alpha) = 3e-4): the first shell alone misses the completeness relation by 7e-4 -- more than the 1e-5 the code allows
    "nearly cubic rhombohedral": (lambda c: rnp.linalg.cholesky(rnp.array([[1, c, c], [c, 1, c], [c, c, 1.0]])).T * 1.7)(3e-4),
}


def _fd(U):
    fdeg = U.fn(F_UT, "find_degen", globs=dict(np=rnp), model=False, rewrite_comps=False)
    g = dict(np=rnp, find_degen=fdeg)
    g["check_parallel"] = U.fn(F_FD, "check_parallel", globs=g, model=False, rewrite_comps=False)
    g["check_B1"] = U.fn(F_FD, "check_B1", globs=g, model=False, rewrite_comps=False)
    fs = U.fn(F_FD, "find_shells", globs=g, model=False, rewrite_comps=False)
    D3 = U.klass(F_FD, "Derivative3D", globs=dict(np=Shim(float_object=False)), rewrite_comps=False)
    return fs, D3


def _close(expr, tol=1e-7):
    """a linear form in the symbols with all coefficients below tol in magnitude (floats: the weights come out of an SVD)"""
    return max([0.0] + [abs(float(v)) for v in linform(expr).values()]) < tol


def _replay_shells(mv, ob):
    """installed code: SystemKP with numerical derivatives on non-orthogonal boxes at the default step"""
    import wannierberri as wb
    bad = []
    H = lambda k: rnp.array([[k[0], k[1] - 1j * k[2]], [k[1] + 1j * k[2], -k[0]]])
    for name, rec in LATTICES.items():
        try:
            with contextlib.redirect_stdout(io.StringIO()):
                s_ = wb.system.SystemKP(Ham=H, kmax=None, recip_lattice=rec)
            d = s_.derHam([0.05, 0.1, -0.02])
            if abs(d[:, :, 0] - rnp.array([[1, 0], [0, -1]])).max() > 1e-6:
                bad.append(dict(lattice=name, clause="numerical first derivative of a linear Hamiltonian", got=d[:, :, 0].tolist()))
        except Exception as e:
            bad.append(dict(lattice=name, recip_lattice=rec.tolist(), clause="SystemKP(Ham, recip_lattice) with the default finite_diff_dk", raised="%s: %s" % (type(e).__name__, e)))
    return dict(reproduced=bool(bad), input="SystemKP(Ham=linear two-band model, recip_lattice=...) with the default finite_diff_dk = 1e-4", failed=bad)


@unit("C31", "find_shells: B1 condition, shells closed under b -> -b with equal weights", scope="shape:4 lattices x 2 step sizes", expect_min=2, replay=_replay_shells, replay_once=True)
def _shells(U):
    fs, D3 = _fd(U)

    def body():
        bad = []
        for name, rec in LATTICES.items():
            for dk in (1e-4, 1e-2):
                wk, bki = fs(rec * dk)
                b = (bki * dk).dot(rec)
                M = sum(w * rnp.outer(x, x) for w, x in zip(wk, b))
                if rnp.linalg.norm(M - rnp.eye(3)) > 2e-5:
                    bad.append((name, dk, "B1 violated by %.1e" % rnp.linalg.norm(M - rnp.eye(3))))
                wmap = {tuple(int(v) for v in x): w for x, w in zip(bki, wk)}
                if len(wmap) != len(wk) or any(abs(wmap.get(tuple(-v for v in x), 1e99) - w) > 1e-9 * abs(w) for x, w in wmap.items()):
                    bad.append((name, dk, "not closed under b -> -b with equal weights"))
        U.ensure("sum_b w_b b_i b_j = delta_ij within the code's own 1e-5 tolerance", not [x for x in bad if x[2].startswith("B1")])
        U.ensure("every b comes with -b and the same weight, no b twice", not [x for x in bad if not x[2].startswith("B1")])
    U.run(body, check_feasible=False)
    U.external("np.linalg.svd / np.argsort / np.linalg.norm on concrete floats inside find_shells: the outcome is checked")


def _deriv_unit(lname):
    @unit("C31", "Derivative3D is exact on polynomials of degree <= 2 and keeps Hermiticity [%s]" % lname, scope="shape:%s, dk = 1e-2 and 1e-4; 10 k-points; all quadratic polynomials; all Hermitian-valued functions (2 bands)" % lname, expect_min=3)
    def _d(U):
        fs, D3 = _fd(U)
        rec = LATTICES[lname]

        def body():
            import random
            rs = random.Random(3)
            ok_grad, ok_second = True, True
            c0 = sreal("c0")
            c1 = [sreal("c1_%d" % i) for i in range(3)]
            Q = [[sreal("q_%d_%d" % (min(i, j), max(i, j))) for j in range(3)] for i in range(3)]          # symmetric

            def poly(kred):
                kc = rnp.array(kred, dtype=float).dot(rec)
                v = c0
                for i in range(3):
                    v = v + c1[i] * float(kc[i])
                    for j in range(3):
                        v = v + Q[i][j] * float(kc[i] * kc[j])
                return rnp.array(v, dtype=object)
            for dk in (1e-2, 1e-4):
                wk, bki = fs(rec * dk)
                bk_red = bki * dk
                bk_cart = bk_red.dot(rec)
                D = D3(poly, bk_red=bk_red, bk_cart=bk_cart, wk=wk)
                DD = D3(D, bk_red=bk_red, bk_cart=bk_cart, wk=wk)
                for _ in range(5):
                    k = [rs.uniform(-0.3, 0.3) for _ in range(3)]
                    kc = rnp.array(k).dot(rec)
                    g = D(k)
                    for c in range(3):
                        want = c1[c]
                        for j in range(3):
                            want = want + Q[c][j] * float(2 * kc[j])
                        ok_grad = ok_grad and _close(lift(g[c]) - want, 2e-4 * max(1.0, float(abs(kc).max())))
                    h = DD(k)
                    for a in range(3):
                        for b in range(3):
                            ok_second = ok_second and _close(lift(h[a, b]) - Q[a][b] * 2.0, 5e-4)
            U.ensure("(E) D f = grad f for every polynomial f of degree <= 2: every coefficient of every polynomial coefficient agrees (tolerance of the B1 weights)", ok_grad)
            U.ensure("(E) nesting: D D f = the constant Hessian of f", ok_second)
            # (H) Hermiticity for an arbitrary Hermitian-valued function: every evaluation point returns its own symbolic Hermitian matrix
            count = [0]

            def herm_fun(kred):
                count[0] += 1
                n = count[0]
                A = rnp.empty((2, 2), dtype=object)
                A[0, 0], A[1, 1] = SCplx(sreal("f%d_00" % n), 0), SCplx(sreal("f%d_11" % n), 0)
                v = SCplx(sreal("f%d_01.re" % n), sreal("f%d_01.im" % n))
                A[0, 1], A[1, 0] = v, v.conj()
                return A
            wk, bki = fs(rec * 1e-2)
            D = D3(herm_fun, bk_red=bki * 1e-2, bk_cart=(bki * 1e-2).dot(rec), wk=wk)
            G = D([0.1, -0.2, 0.05])
            cl = []
            for a in range(2):
                for b in range(2):
                    for c in range(3):
                        x, y = SCplx.of(G[a, b, c]), SCplx.of(G[b, a, c])
                        cl.append(land(x.re == y.re, x.im == -y.im))
            U.ensure("(H) the derivative of ANY Hermitian-valued function is Hermitian in the band indices, for each Cartesian component", land(*cl))
            U.ensure("(H) shape (nw, nw, 3)", tuple(G.shape) == (2, 2, 3))
        U.run(body, check_feasible=False)
        U.assumption("the weights w_b are floats produced by an SVD: polynomial coefficients are compared with a tolerance tied to the code's own B1 tolerance (1e-5)")


for _l in LATTICES:
    _deriv_unit(_l)


@unit("C31", "SystemKP.__init__: numerical derivatives nest the scheme on Ham exactly when analytic ones are missing; coordinates handed to the user's functions",
      scope="shape:cubic box and a triclinic reciprocal lattice; Cartesian and reduced k; with / without analytic derivatives", expect_min=4)
def _wiring(U):
    made = []

    class D3stub:
        def __init__(self, function, bk_red=None, bk_cart=None, wk=None):
            self.function, self.bk_red, self.bk_cart, self.wk = function, bk_red, bk_cart, wk
            made.append(self)

        def __call__(self, k):
            return rnp.zeros(rnp.shape(self.function(k)) + (3,))

    class Sup:
        def __init__(self, **kw):
            Sup.kw = kw

    def find_shells(basis):
        find_shells.arg = rnp.array(basis)
        return rnp.array([0.5, 0.5, 1.0]), rnp.array([[1, 0, 0], [-1, 0, 0], [0, 2, 0]])
    init = U.fn(F_KP, "SystemKP.__init__", globs=dict(np=rnp, find_shells=find_shells, Derivative3D=D3stub, super=lambda: Sup(), print=lambda *a, **k: None), model=False, rewrite_comps=False)

    def body():
        cart = bool(ctx().choose(2, "k_vector_cartesian"))
        analytic = ctx().choose(3, "analytic derivatives supplied: none / first only / all")
        tri = bool(ctx().choose(2, "triclinic reciprocal lattice"))
        rec = LATTICES["triclinic"] if tri else None
        seen = []

        def Ham(k):
            seen.append(("H", rnp.array(k, dtype=float)))
            return rnp.zeros((2, 2))

        def dH(k):
            seen.append(("dH", rnp.array(k, dtype=float)))
            return rnp.zeros((2, 2, 3))

        def d2H(k):
            seen.append(("d2H", rnp.array(k, dtype=float)))
            return rnp.zeros((2, 2, 3, 3))

        def d3H(k):
            seen.append(("d3H", rnp.array(k, dtype=float)))
            return rnp.zeros((2, 2, 3, 3, 3))
        me = types.SimpleNamespace()

        def set_real_lattice(real_lattice=None, recip_lattice=None):
            me.recip_lattice = rnp.array(recip_lattice)
        me.set_real_lattice = set_real_lattice
        me.set_pointgroup = lambda: None
        del made[:]
        kw = dict(kmax=None, recip_lattice=rec) if tri else dict(kmax=1.5)
        init(me, Ham, derHam=dH if analytic >= 1 else None, der2Ham=d2H if analytic == 2 else None, der3Ham=d3H if analytic == 2 else None,
             k_vector_cartesian=cart, finite_diff_dk=1e-3, **kw)
        R = rec if tri else rnp.eye(3) * 3.0
        U.ensure("reciprocal lattice: the given one, or a cubic box of size 2*kmax; System initialised with internal terms only", rnp.allclose(me.recip_lattice, R) and Sup.kw.get("force_internal_terms_only") is True)
        U.ensure("stencil: find_shells(recip_lattice * dk); bk_red = bki * dk; bk_cart = bk_red . recip_lattice",
                 rnp.allclose(find_shells.arg, R * 1e-3) and rnp.allclose(me.bk_red, rnp.array([[1, 0, 0], [-1, 0, 0], [0, 2, 0]]) * 1e-3) and rnp.allclose(me.bk_cart, me.bk_red.dot(R)) and list(me.wk) == [0.5, 0.5, 1.0])
        del seen[:]
        kq = rnp.array([0.7, -0.2, 0.45])                       # outside [-1/2, 1/2) in the first component
        me.Ham(kq)
        folded = rnp.array([-0.3, -0.2, 0.45])
        U.ensure("the user's Hamiltonian receives k folded into [-1/2, 1/2), in Cartesian or reduced coordinates as requested", len(seen) == 1 and rnp.allclose(seen[0][1], folded.dot(R) if cart else folded))
        n_num = 3 - (0 if analytic == 0 else 1 if analytic == 1 else 3)
        U.ensure("a numerical derivative object exists exactly for the derivatives that were not supplied, each built on the previous order with the same stencil",
                 len(made) == n_num and all(m.bk_red is me.bk_red and m.bk_cart is me.bk_cart and m.wk is me.wk for m in made)
                 and (analytic != 0 or (made[0].function == me.Ham and made[1].function is made[0] and made[2].function is made[1] and me.derHam is made[0] and me.der2Ham is made[1] and me.der3Ham is made[2]))
                 and (analytic != 1 or (made[0].function == me.derHam and made[1].function is made[0] and me.der2Ham is made[0] and me.der3Ham is made[1])))
        if analytic >= 1:
            ok = True
            for tag, fun in [("dH", me.derHam)] + ([("d2H", me.der2Ham), ("d3H", me.der3Ham)] if analytic == 2 else []):
                del seen[:]
                fun(kq)
                ok = ok and len(seen) == 1 and seen[0][0] == tag and bool(rnp.allclose(seen[0][1], folded.dot(R) if cart else folded))
            U.ensure("every supplied derivative (first, second, third) receives the same folded / converted k as the Hamiltonian", ok)
        U.ensure("the *_cart variants convert Cartesian k back to reduced coordinates first", rnp.allclose(me.k_cart2red(folded.dot(R)), folded))
    U.run(body, check_feasible=False)


@unit("C31", "Data_K_k.HH_K / Xbar('Ham', der): the system's own functions at every k-point, rotated with that k-point's eigenvectors", scope="shape:2 k-points, 2 bands, der 1-3", expect_min=3)
def _xbar(U):
    NP = Shim()
    ce = U.fn(F_UT, "cached_einsum", globs=dict(np=NP, EINSUM_PATH_CACHE={}), model=False, rewrite_comps=False)
    DK = U.klass(F_DK, "Data_K", globs=dict(np=NP, cached_einsum=ce), rewrite_comps=False, only=("_rotate",))
    DKK = U.klass(F_DKK, "Data_K_k", globs=dict(np=NP), rewrite_comps=False, bases=(DK,), only=("HH_K", "Xbar"))

    def body():
        der = 1 + ctx().choose(3, "derivative order")
        kp = rnp.array([[0.1, 0.2, 0.3], [-0.4, 0.0, 0.25]])
        vals = {}

        def mk(tag, order):
            def fun(k):
                key = (tag, tuple(rnp.round(k, 9)))
                if key not in vals:
                    vals[key] = sym_cplx_array("%s_k%d" % (tag, len([1 for t in vals if t[0] == tag])), (2, 2) + (3,) * order)
                return vals[key]
            return fun
        me = DKK.__new__(DKK)
        me.system = types.SimpleNamespace(Ham=mk("H", 0), derHam=mk("d1", 1), der2Ham=mk("d2", 2), der3Ham=mk("d3", 3))
        me.kpoints_all = kp
        me._bar_quantities = {}
        me.select_K = rnp.array([True, True])
        UU = sym_cplx_array("U", (2, 2, 2))
        me.__dict__["UU_K"] = UU
        HK = me.HH_K
        U.ensure("HH_K[ik] = system.Ham(kpoints_all[ik])", all(HK[ik, a, b] is vals[("H", tuple(rnp.round(kp[ik], 9)))][a, b] for ik in range(2) for a in range(2) for b in range(2)))
        X = me.Xbar("Ham", der)
        tag = "d%d" % der
        cl = []
        for ik in range(2):
            src = vals[(tag, tuple(rnp.round(kp[ik], 9)))]
            for idx in rnp.ndindex(*((2, 2) + (3,) * der)):
                a, d = idx[:2]
                want = SCplx(0, 0)
                for b in range(2):
                    for c in range(2):
                        want = want + UU[ik, b, a].conj() * src[(b, c) + idx[2:]] * UU[ik, c, d]
                got = SCplx.of(X[(ik,) + idx])
                cl.append(land(got.re == want.re, got.im == want.im))
        U.ensure("Xbar('Ham', %d)[ik] = U_ik^dagger (the system's derivative function of order %d at kpoints_all[ik]) U_ik" % (der, der), land(*cl))
        try:
            me.Xbar("AA", 1)
            ok = False
        except ValueError:
            ok = True
        U.ensure("other matrices are refused for a k.p model; results are memoised", ok and me.Xbar("Ham", der) is X)
    U.run(body, check_feasible=False)


# ------------------------------------------------------------------ bounded stand-in: smooth (non-polynomial) models, calculators
def _real_kp(rng, n):
    import wannierberri as wb
    fails, cases = [], 0
    with contextlib.redirect_stdout(io.StringIO()), warnings.catch_warnings():
        warnings.simplefilter("ignore")
        for t in range(2 if n <= 30 else 6):
            rs = rnp.random.RandomState(rng.randint(0, 10 ** 6))
            c = rs.randn(3, 4)          # d(k) = c0 + c.k + quadratic + sin terms for the three Pauli components
            q = rs.randn(3, 3, 3) * 0.3
            s_ = rs.randn(3, 3) * 0.2
            sig = [rnp.array([[0, 1], [1, 0]], complex), rnp.array([[0, -1j], [1j, 0]]), rnp.array([[1, 0], [0, -1]], complex)]

            def dvec(k, order=0):
                k = rnp.array(k, dtype=float)
                if order == 0:
                    return rnp.array([c[i, 0] + c[i, 1:].dot(k) + k.dot(q[i]).dot(k) + s_[i].dot(rnp.sin(k)) for i in range(3)])
                if order == 1:
                    return rnp.array([c[i, 1:] + (q[i] + q[i].T).dot(k) + s_[i] * rnp.cos(k) for i in range(3)])
                if order == 2:
                    return rnp.array([(q[i] + q[i].T) - rnp.diag(s_[i] * rnp.sin(k)) for i in range(3)])

            def Ham(k):
                return sum(d * s for d, s in zip(dvec(k), sig))

            def dHam(k):
                return sum(d[None, None, :] * s[:, :, None] for d, s in zip(dvec(k, 1), sig))

            def d2Ham(k):
                return sum(d[None, None, :, :] * s[:, :, None, None] for d, s in zip(dvec(k, 2), sig))
            dk = 1e-3
            num = wb.system.SystemKP(Ham=Ham, kmax=1.0, finite_diff_dk=dk)
            ana = wb.system.SystemKP(Ham=Ham, derHam=dHam, der2Ham=d2Ham, kmax=1.0, finite_diff_dk=dk)
            bad = []
            for _ in range(3):
                k = rs.uniform(-0.2, 0.2, 3)
                e1 = abs(num.derHam(k) - ana.derHam(k)).max()
                e2 = abs(num.der2Ham(k) - ana.der2Ham(k)).max()
                if e1 > 50 * (2 * dk) ** 2 or e2 > 1e-3:
                    bad.append("numerical vs analytic derivative: first %.1e, second %.1e at k=%s" % (e1, e2, k.tolist()))
                for fun, nm in ((num.derHam, "first"), (num.der2Ham, "second"), (num.der3Ham, "third")):
                    X = fun(k)
                    if abs(X - X.swapaxes(0, 1).conj()).max() > 1e-9 * max(1.0, abs(X).max()):
                        bad.append("%s numerical derivative not Hermitian" % nm)
            grid = wb.grid.Grid(num, NK=[3, 3, 3], NKFFT=[1, 1, 1], use_symmetry=False)        # no grid point on the box boundary, where a polynomial model is discontinuous
            Ef = rnp.linspace(-1, 1, 3)
            mk = lambda: {"dos": wb.calculators.static.CumDOS(Efermi=Ef, tetra=False), "ohmic": wb.calculators.static.Ohmic_FermiSea(Efermi=Ef, tetra=False),
                          "ahc": wb.calculators.static.AHC(Efermi=Ef, tetra=False)}
            ra = wb.run(num, grid=grid, calculators=mk(), adpt_num_iter=0, use_irred_kpt=False, symmetrize=False, print_Kpoints=False)
            rb = wb.run(ana, grid=grid, calculators=mk(), adpt_num_iter=0, use_irred_kpt=False, symmetrize=False, print_Kpoints=False)
            for key in ("dos", "ohmic", "ahc"):
                a, b = ra.results[key].data, rb.results[key].data
                if abs(a - b).max() > 1e-4 * max(1e-12, abs(b).max()) + 1e-9 * abs(float(getattr(mk()[key], "constant_factor", 1.0))):
                    bad.append("%s: numerical-derivative system differs from the analytic one by %.1e (scale %.1e)" % (key, abs(a - b).max(), abs(b).max()))
            cases += 1
            if bad:
                fails.append(dict(input=dict(case=t), clause="numerical = analytic derivatives to finite-difference accuracy; same calculator results", failed=bad[:4]))
    return dict(cases=cases, failures=fails, distinct=cases)


Unit("C31", "smooth two-band k.p models: numerical vs analytic derivatives and calculators [real code]", concrete=_real_kp,
     bounded_desc="2 (quick) / 6 (thorough) random two-band models d(k).sigma with linear, quadratic and sin terms, dk = 1e-3: first / second numerical derivatives within O(dk^2) of the analytic ones at random k, all numerical derivatives Hermitian, "
                  "CumDOS / Ohmic / AHC on a 3x3x3 grid (no point on the box boundary) equal (1e-4) between the numerical-derivative and the analytic-derivative system")
