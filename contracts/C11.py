"""C11  Restarting an interrupted refinement run reproduces the uninterrupted run.

Under contract:
  run_grid.py::read_factors   the real text, executed for EVERY order in which glob.glob may list the factor files (all
                              permutations of up to 4 files, incl. gaps in the iteration numbers) and restart_iteration
                              -1..-5: the iteration chosen must be  max(indices)+iter+1  (clamped at 0; if that file is
                              missing, the closest earlier one) -- independent of the listing order.  Per-shape proof.
  run_grid.py::write_factors / get_Kpoint_storage_path   file-name format: fixed width, iteration recoverable by the
                              parser used in read_factors for every iteration < 10^8.
Bounded stand-in (real runs): run(N iterations) == run(k) + restart(...) for several splittings, under permuted
directory listings (glob patched), both storage modes.
"""
import itertools
import os
import sys
import types

import numpy as rnp
from pyvc.core import ctx, land, lift, sint, forall, implies, SNum
from pyvc.unit import unit, Unit

F = "wannierberri/run_grid.py"


def _spec_choice(indices, it):
    idx = max(indices) + it + 1
    if idx < 0:
        return 0
    if idx in indices:
        return idx
    return max(i for i in indices if i <= idx)


def _mk_read_unit(indices, tiers=("quick", "thorough")):
    name = "read_factors[files=%s]" % (",".join(map(str, indices)))

    def prove(U):
        st = {}
        perms = list(itertools.permutations(indices))
        d = "/k-list.dir/run-1"

        names = {}

        def fname(i):
            # the name the REAL writer produces (write_factors run with a capturing `open`)
            if i not in names:
                cap = []

                class W:
                    def __enter__(self): return self
                    def __exit__(self, *a): return False
                wf = U.fn(F, "write_factors", globs=dict(os=os, open=lambda p_, m_="r": (cap.append(p_), W())[1],
                                                         np=types.SimpleNamespace(save=lambda f_, x_: None)), model=False)
                wf(d, None, i)
                names[i] = cap[0]
            return names[i]

        fakeglob = types.SimpleNamespace(glob=lambda pat: [fname(i) for i in st["perm"]])

        class FH:
            def __init__(self, path): self.path = path
            def __enter__(self): return self
            def __exit__(self, *a): return False

        def fopen(path, mode="r"):
            st["opened"].append(path)
            if path not in [fname(i) for i in indices]:
                raise FileNotFoundError(path)
            return FH(path)

        class NPX:
            def __getattr__(self, k): return getattr(rnp, k)
            def load(self, f): return ("factors of", f.path)
        f = U.fn(F, "read_factors", globs=dict(np=NPX(), glob=fakeglob, os=os, open=fopen, Warning=Warning), model=False)

        def body():
            st["perm"] = perms[ctx().choose(len(perms), "listing order")]
            it = -1 - ctx().choose(5, "restart_iteration")
            st["opened"] = []
            got_iter, got = f(d, it)
            want = _spec_choice(indices, it)
            ctx().ghost["listing"] = list(st["perm"])
            U.ensure("iteration chosen for restart_iteration=%d is %d whatever the listing order" % (it, want), got_iter == want)
            U.ensure("the weights returned are those of that iteration's file", got == ("factors of", fname(want)))
            # explicit non-negative iteration: that very file
            for j in indices:
                gi, g = f(d, j)
                U.ensure("explicit iteration %d" % j, gi == j and g == ("factors of", fname(j)))
        U.run(body, check_feasible=False)
        U.external("glob.glob returns the matching paths in ARBITRARY order (python documentation)")

    def replay(mv, ob):
        return _replay_read(indices)
    Unit("C11", name, prove=prove, replay=replay, replay_once=True, scope="shape:files %s, all listing orders" % (indices,), tiers=tiers, expect_min=4)


def _replay_read(indices):
    """real read_factors/write_factors on a real directory, glob patched to list the files in reversed sorted order"""
    import importlib
    import tempfile
    import shutil
    rg = importlib.import_module("wannierberri.run_grid")
    d = tempfile.mkdtemp(prefix="verif_c11_")
    try:
        for i in indices:
            rg.write_factors(d, rnp.array([float(i)]), i)
        real = rg.glob.glob
        bad = []
        for order in ("reversed", "rotated"):
            def fake(pat, real=real, order=order):
                fs = sorted(real(pat))
                return fs[::-1] if order == "reversed" else fs[1:] + fs[:1]
            rg.glob = types.SimpleNamespace(glob=fake)
            try:
                for it in (-1, -2):
                    gi, fac = rg.read_factors(d, it)
                    want = _spec_choice(list(indices), it)
                    if gi != want or float(fac[0]) != float(want):
                        bad.append(dict(listing=order, restart_iteration=it, chosen=int(gi), expected=want))
            finally:
                rg.glob = types.SimpleNamespace(glob=real)
                import glob as _g
                rg.glob = _g
        return dict(reproduced=bool(bad), input=dict(files=list(indices)), clause="iteration chosen independent of listing order", mismatches=bad)
    finally:
        shutil.rmtree(d, ignore_errors=True)


_mk_read_unit((0,))
_mk_read_unit((0, 1))
_mk_read_unit((0, 1, 2))
_mk_read_unit((0, 2, 5))
_mk_read_unit((9, 10, 100))
_mk_read_unit((0, 99999999))
_mk_read_unit((0, 1, 2, 3), tiers=("thorough",))
_mk_read_unit((0, 3, 4, 9), tiers=("thorough",))


# ------------------------------------------------------------------ bounded stand-in: real runs
def _real_restart(rng, n):
    import contextlib
    import glob as _glob
    import importlib
    import io
    import shutil
    import tempfile
    import wannierberri as wb
    from wannierberri.system.system_R import System_R
    rg = importlib.import_module("wannierberri.run_grid")
    fails, cases = [], 0
    # dump = "only": dump_results alone, without allow_restart -- dumping implies restartability, also for a first leg without refinement
    scen = [((1, 2), "reversed", False), ((1, 1, 1), "rotated", True), ((0, 2), "sorted", "only")] if n <= 30 else \
        [((1, 2), "reversed", False), ((1, 1, 1), "rotated", True), ((0, 2), "sorted", "only"), ((2, 1), "reversed", True), ((1, 2), "sorted", False), ((1, 1, 1), "reversed", False), ((0, 1, 1), "reversed", "only")]
    for split, order, dump in scen:
        allow = dump != "only"
        dump = bool(dump)
        rnp.random.seed(rng.randint(0, 10 ** 6))
        with contextlib.redirect_stdout(io.StringIO()):
            system = System_R.from_random(num_wann=3, nRvec=27, max_R=1, berry=True)
        Ef = rnp.linspace(-1, 1, 5)

        def calcs():
            return {"dos": wb.calculators.static.DOS(Efermi=Ef, tetra=False), "ahc": wb.calculators.static.AHC(Efermi=Ef)}

        def go(d, **kw):
            with contextlib.redirect_stdout(io.StringIO()):
                return wb.run(system, wb.Grid(system, NK=4, NKFFT=2), calcs(), parallel=False, fout_name=os.path.join(d, "res"),
                              file_Klist_path=os.path.join(d, "kl"), use_irred_kpt=False, symmetrize=False, adpt_fac=1, **kw)
        total = sum(split)
        d1, d2 = tempfile.mkdtemp(prefix="verif_c11a_"), tempfile.mkdtemp(prefix="verif_c11b_")
        real = _glob.glob

        def fake(pat, order=order):
            fs = sorted(real(pat))
            return fs if order == "sorted" else fs[::-1] if order == "reversed" else fs[1:] + fs[:1]
        try:
            ref = go(d1, adpt_num_iter=total, allow_restart=allow, dump_results=dump)
            rg.glob = types.SimpleNamespace(glob=fake)
            out = go(d2, adpt_num_iter=split[0], allow_restart=allow, dump_results=dump)
            for more in split[1:]:
                out = go(d2, adpt_num_iter=more, restart=True, allow_restart=allow, dump_results=dump)
            cases += 1
            for k in ("dos", "ahc"):
                a, b = ref.results[k].data, out.results[k].data
                if not rnp.allclose(a, b, rtol=1e-8, atol=1e-10 * (1 + abs(a).max())):
                    fails.append(dict(input=dict(split=list(split), listing=order, dump_results=dump, allow_restart=allow, calculator=k),
                                      clause="restarted run == uninterrupted run", max_abs_diff=float(abs(a - b).max())))
        finally:
            rg.glob = _glob
            shutil.rmtree(d1, ignore_errors=True)
            shutil.rmtree(d2, ignore_errors=True)
    return dict(cases=cases, failures=fails, distinct=cases)


Unit("C11", "run()+restart == uninterrupted run [real runs]", concrete=_real_restart,
     bounded_desc="random 3-band System_R, 4x4x4 grid, 2-3 refinement iterations split over 1-2 restarts, directory listing sorted/reversed/rotated, memory and dump_results storage; rtol 1e-8")


# ------------------------------------------------------------------ state reconstruction and continuation, on the real text of run()
# (the machinery is shared with C10: run() + process() executed for every refinement/merge history with symbolic results; here the
#  obligations concern what is written for a restart and what a restarted run rebuilds from it -- in one and in two restart legs)
from contracts.C10 import _mk_restart_unit, _mk_unit      # noqa: E402

_mk_restart_unit(2, 1, 0, prop="C11", legs=2)
_mk_restart_unit(2, 2, 1, prop="C11", legs=2)
_mk_unit(2, 2, "restart", True, ("quick", "thorough"), prop="C11", klist_part=1)
_mk_unit(3, 2, "restart", True, ("quick", "thorough"), prop="C11", klist_part=2)
_mk_unit(2, 0, "dump", True, ("quick", "thorough"), prop="C11")          # a first leg without refinement, dump_results alone: the restart files must exist
_mk_unit(2, 1, "dump", True, ("quick", "thorough"), prop="C11")
