"""C20  Real-space symmetrisation yields a symmetric, Hermitian model.

What is algebra, and what is decided how:
  (A) SymWann.symmetrize (irreducible (R,a,b) search, backward rotation, averaging, completion of the R-set) is a linear map on the
      real-space matrices.  Contract, with a specification written here from the GEOMETRY alone (the operations {S|t}(,T) of the space
      group, the atomic positions, the vector representation of p orbitals -- not from the symmetrizer's atom maps / translations /
      orbital matrices):
          symmetrize(X) = (1/|G|) sum_g g.X ,   (g.X)[S R + n_b - n_a, a', b'] = D_a(g) X[R, a, b] D_b(g)^T   (conjugated for T),
          Cartesian indices rotated with the Cartesian matrix of S,   S tau_a + t = tau_a' + n_a ,
      on the union of all images of the input R-set and zero elsewhere.  Being the group average of a group action it is invariant under
      every g (energies at g k equal those at k, Berry curvature / spin transform as pseudo-vectors), keeps X(-R) = X(R)^dagger, and
      is a projection.  Hermiticity and idempotence are ALSO checked directly on the real code (second run on the first run's output).
      Tier S: concrete structures (orthorhombic mmm with a two-site s orbit and a p shell; a 2_1 screw axis; quick; tetragonal 4/mmm and
      hexagonal with p orbitals mixing under C3 in the thorough tier), SYMBOLIC matrices Ham and AA on a non-symmetric R-set.
      Float rotation matrices (cos 60 deg): linear forms are compared coefficient-wise to 1e-12.
  (B) centre symmetrisation: one pass of symmetrize_wannier_property is the orbital-weighted average
          c'[a', i] = (1/|G|) sum_g sum_j D_ij(g)^2 (g c[a, j]);
      symmetric input (the atomic positions) is a fixed point.  One pass is a projection only when every D(g) is a signed permutation.
  (C) the driver System_R.symmetrize2: matrices and R-vectors replaced by SymWann's output; the centres stored are a FIXED POINT of the
      centre symmetrisation ("symmetrising the result again changes nothing", "the centres map onto each other"); the new R-vectors
      carry the new centres as shifts; point group and structure from the symmetrizer's space group.
Bounded stand-in (installed code end to end): System_R.symmetrize on random Hermitian systems for five structures, without / with
spin-orbit coupling, with magnetic moments: E(gk) = E(k), Berry curvature and spin at gk = transformed values, Hermiticity,
idempotence of matrices and centres, centres invariant under every operation.
External (concrete set-up, installed code on concrete input, output cross-checked by (A)'s independent specification): irrep's SpaceGroup,
Projection, SymmetrizerSAWF.from_spacegroup_and_projections (atom maps, translations, orbital rotation matrices; the latter: C21).
"""
import contextlib
import copy
import io
import os
import sys
import types
import warnings
from collections import defaultdict

import numpy as rnp

from pyvc.core import ctx, sreal, SNum, SCplx, lift
from pyvc.unit import unit, Unit
from pyvc.npshim import Shim, sym_cplx_array, sym_real_array
from pyvc.phase import linform

F_SW = "wannierberri/symmetry/sym_wann_2.py"
F_SAWF = "wannierberri/symmetry/sawf.py"
F_SR = "wannierberri/system/system_R.py"
F_SYS = "wannierberri/system/system.py"
F_UT = "wannierberri/utility.py"

S3 = 0.8660254037844386
STRUCT = {
    "ortho-mmm": dict(lat=rnp.diag([1.0, 1.2, 1.5]), pos=[[0.2, 0, 0], [-0.2, 0, 0], [0, 0, 0.5]], names=["A", "A", "B"], proj=["A:s", "B:p"]),
    "screw-P21": dict(lat=rnp.diag([1.0, 1.3, 1.7]), pos=[[0.13, 0.21, 0.1], [-0.13, -0.21, 0.6]], names=["A", "A"], proj=["A:s"]),
    "tetragonal": dict(lat=rnp.diag([1.0, 1.0, 1.4]), pos=[[0.5, 0, 0], [0, 0.5, 0], [0, 0, 0]], names=["A", "A", "B"], proj=["A:s", "B:p"]),
    "hex-C3": dict(lat=rnp.array([[1, 0, 0], [-0.5, S3, 0], [0, 0, 1.6]]), pos=[[1 / 3, 2 / 3, 0.1], [2 / 3, 1 / 3, 0.1], [0, 0, 0.37]], names=["A", "A", "B"], proj=["A:p", "B:s"]),
    # a four-site orbit at a general position (no mirrors, no inversion) around a p shell on the four-fold axis: orbital matrices that are
    # neither diagonal nor symmetric, atom maps that are 4-cycles
    "tetragonal-P4": dict(lat=rnp.diag([1.0, 1.0, 1.4]), pos=[[0.2, 0.1, 0.3], [-0.1, 0.2, 0.3], [-0.2, -0.1, 0.3], [0.1, -0.2, 0.3], [0, 0, 0]], names=["A", "A", "A", "A", "B"], proj=["A:s", "B:p"]),
    # same-name atoms on two different two-site orbits, listed interleaved: symmetrize has to regroup them (and restore the order with reorder_back)
    # (the regrouping permutation [0, 3, 1, 2] is not its own inverse: going back needs the inverse permutation)
    "ortho-interleaved": dict(lat=rnp.diag([1.0, 1.2, 1.5]), pos=[[0.2, 0, 0], [0, 0.3, 0], [0, -0.3, 0], [-0.2, 0, 0], [0.5, 0.5, 0.5]], names=["X", "X", "X", "X", "Y"], proj=["X:s", "Y:s"], reorder_back=True),
    "ortho-interleaved/control": dict(lat=rnp.diag([1.0, 1.2, 1.5]), pos=[[0.2, 0, 0], [-0.2, 0, 0], [0, 0.3, 0], [0, -0.3, 0], [0.5, 0.5, 0.5]], names=["X1", "X1", "X2", "X2", "Y"], proj=["X1:s", "X2:s", "Y:s"]),
    "monoclinic-2/m": dict(lat=rnp.array([[1.0, 0, 0], [0, 1.3, 0], [0.3, 0, 1.5]]), pos=[[0.1, 0.25, 0.2], [-0.1, 0.75, -0.2], [0.4, 0.0, 0.1], [-0.4, 0.5, -0.1]], names=["A", "A", "B", "B"], proj=["A:s", "B:s"]),
}
NORB = {"s": 1, "p": 3}


def _atoms(st, nspin=1):
    out, ws = [], 0
    for ib, p in enumerate(st["proj"]):
        at, orb = [x.strip() for x in p.split(":")]
        for pos, n in zip(st["pos"], st["names"]):
            if n == at:
                out.append(types.SimpleNamespace(block=ib, tau=rnp.array(pos, dtype=float), orb=orb, ws=ws, norb=NORB[orb] * nspin))
                ws += NORB[orb] * nspin
    return out, ws


_SETUP = {}


def _setup(name, soc=False, magmom=None, seed=7, keep_system=False):
    """the installed set-up chain on a concrete structure: space group (irrep), projections, SymmetrizerSAWF -- via System_R.symmetrize of a
    random Hermitian system, which also is the stand-in's subject"""
    key = (name, soc, repr(magmom), seed)
    if key in _SETUP and not keep_system:
        return _SETUP[key]
    from wannierberri.system.system_R import System_R
    st = STRUCT[name]
    atoms, nw = _atoms(st, 2 if soc else 1)
    rnp.random.seed(seed)
    with contextlib.redirect_stdout(io.StringIO()), warnings.catch_warnings():
        warnings.simplefilter("ignore")
        s = System_R.from_random(num_wann=nw, nRvec=27, max_R=1, berry=True, spin=soc, real_lattice=st["lat"])
        for k in list(s._XX_R.keys()):
            X = s.get_R_mat(k)
            s.set_R_mat(k, 0.5 * (X + s.rvec.conj_XX_R(X)), reset=True)
        wcc = rnp.array([a.tau for a in atoms for _ in range(a.norb)]) @ st["lat"]
        s.wannier_centers_cart = wcc + 0.01 * rnp.random.rand(nw, 3)              # centres slightly off the symmetric positions, as Wannier90 delivers them
        symr = s.symmetrize(proj=st["proj"], positions=rnp.array(st["pos"]), atom_name=st["names"], soc=soc, magmom=magmom, silent=True, reorder_back=st.get("reorder_back", False))
    _SETUP[key] = (st, atoms, nw, symr, s)
    return _SETUP[key]


# ------------------------------------------------------------------ the specification: group action from the geometry
IDX_P = [2, 0, 1]          # Wannier90 order of a p shell: pz, px, py


def _op_data(g, A, atoms):
    S = rnp.array(g.rotation, dtype=int)
    t = rnp.array(g.translation, dtype=float)
    M = A.T @ S @ rnp.linalg.inv(A.T)             # Cartesian matrix of the rotation part (improper ones included)
    img = []
    for a in atoms:
        tp = S @ a.tau + t
        hit = None
        for jb, b in enumerate(atoms):
            d = tp - b.tau
            if b.block == a.block and rnp.allclose(d, rnp.round(d), atol=1e-6):
                hit = (jb, rnp.round(d).astype(int))
        assert hit is not None, "the structure is not invariant under an operation of its own space group"
        img.append(hit)
    D = {"s": rnp.eye(1), "p": M[IDX_P][:, IDX_P]}
    return S, t, M, img, D


def _lin_ok(x, tol=1e-12):
    if isinstance(x, SCplx):
        return _lin_ok(x.re, tol) and _lin_ok(x.im, tol)
    if isinstance(x, (int, float, complex, rnp.generic)):
        return abs(x) < tol
    return max([0.0] + [abs(float(v)) for v in linform(x).values()]) < tol


def _depends(x):
    if isinstance(x, SCplx):
        return _depends(x.re) or _depends(x.im)
    if isinstance(x, (int, float, complex, rnp.generic)):
        return abs(x) > 1e-3
    return any(abs(float(v)) > 1e-3 for v in linform(x).values())


def _cj(v):
    return v.conj() if isinstance(v, SCplx) else rnp.conj(v)


def _conj(arr):
    out = rnp.empty(arr.shape, dtype=object)
    for i in rnp.ndindex(*arr.shape):
        v = arr[i]
        out[i] = v.conj() if isinstance(v, SCplx) else rnp.conj(v)
    return out


def _spec_average(ops, A, atoms, nw, Xd, ncart):
    """(1/|G|) sum_g g.X for X given as {R: (nw, nw, [3]) object array}"""
    acc = {}
    for g in ops:
        S, t, M, img, D = _op_data(g, A, atoms)
        for R, mat in Xd.items():
            for ia, a in enumerate(atoms):
                for ib, b in enumerate(atoms):
                    blk = mat[a.ws:a.ws + a.norb, b.ws:b.ws + b.norb]
                    (ja, na), (jb, nb) = img[ia], img[ib]
                    Rp = tuple(int(x) for x in (S @ rnp.array(R) + nb - na))
                    new = rnp.tensordot(rnp.tensordot(D[a.orb], blk, axes=((1,), (0,))), D[b.orb], axes=((1,), (1,)))      # D_a blk D_b^T, cart axes (if any) in between
                    if ncart:
                        new = rnp.moveaxis(new, 1, -1)                    # (norb_a, norb_b, 3)
                        new = rnp.tensordot(new, M, axes=((2,), (1,)))    # v'_i = sum_j M_ij v_j
                    if g.time_reversal:
                        new = _conj(new)
                    tgt = acc.setdefault(Rp, rnp.zeros((nw, nw) + (3,) * ncart, dtype=object))
                    a2, b2 = atoms[ja], atoms[jb]
                    tgt[a2.ws:a2.ws + a2.norb, b2.ws:b2.ws + b2.norb] += new
    for R in acc:
        acc[R] = acc[R] / len(ops)
    return acc


def _same(d1, d2, shape):
    """two maps R -> matrix agree (missing = zero), every coefficient of every entry to 1e-12"""
    zero = rnp.zeros(shape, dtype=object)
    for R in set(d1) | set(d2):
        x, y = d1.get(R, zero), d2.get(R, zero)
        for i in rnp.ndindex(*shape):
            if not _lin_ok(x[i] - y[i]):
                return False
    return True


def _symwann(U):
    NP = Shim(float_object=False)
    quiet = lambda *a, **k: None
    ce = U.fn(F_UT, "cached_einsum", globs=dict(np=NP, EINSUM_PATH_CACHE={}), model=False, rewrite_comps=False)
    ncd = U.fn(F_SYS, "num_cart_dim", globs=dict(np=rnp), model=False, rewrite_comps=False)
    g = dict(np=NP, cached_einsum=ce, num_cart_dim=ncd, defaultdict=defaultdict, copy=copy, warnings=warnings, os=os, sys=sys, print=quiet)
    g["do_rotate_vector"] = U.fn(F_SW, "do_rotate_vector", globs=dict(g), model=False, rewrite_comps=False)
    g["_rotate_matrix"] = U.fn(F_SW, "_rotate_matrix", globs=dict(g), model=False, rewrite_comps=False)
    # cutoff < 0 (the default -1): |X| > cutoff holds for every value, every block is kept -- `abs` of a symbolic block is replaced by that fact
    g["_matrix_to_dict"] = U.fn(F_SW, "_matrix_to_dict", globs=dict(g, abs=lambda X: rnp.ones(rnp.shape(X))), model=False, rewrite_comps=False)
    return U.klass(F_SW, "SymWann", globs=g, rewrite_comps=False)


RSETS = {"generic": [(0, 0, 0), (1, 0, 0), (0, 1, 0), (-1, 0, 1), (1, 1, 0)],
         "hermitian": [(0, 0, 0), (1, 0, 0), (-1, 0, 0), (0, 1, 1), (0, -1, -1)]}


def _as_dict(arr, iR):
    return {tuple(int(x) for x in R): arr[i] for i, R in enumerate(iR)}


def _symm_unit(name, tiers):
    @unit("C20", "SymWann.symmetrize = the group average of the geometric action; Hermitian; idempotent [%s]" % name, tiers=tiers, expect_min=8,
          scope="shape:structure %s, R-sets of 5 vectors (one not closed under R -> -R), symbolic Ham and AA" % name)
    def _s(U):
        SW = _symwann(U)
        st, atoms, nw, symr, _sys = _setup(name)
        A = rnp.array(st["lat"], dtype=float)
        ops = list(symr.spacegroup.symmetries)

        def body():
            which = ["generic", "hermitian"][ctx().choose(2, "R-set")]
            Rs = RSETS[which]
            X = {"Ham": rnp.empty((len(Rs), nw, nw), dtype=object), "AA": rnp.empty((len(Rs), nw, nw, 3), dtype=object)}
            for iR, R in enumerate(Rs):
                mR = tuple(-x for x in R)
                if which == "hermitian" and mR in Rs and Rs.index(mR) < iR:
                    j = Rs.index(mR)
                    X["Ham"][iR] = _conj(X["Ham"][j]).T
                    X["AA"][iR] = _conj(X["AA"][j]).transpose(1, 0, 2)
                else:
                    h, a = sym_cplx_array("H%d" % iR, (nw, nw)), sym_cplx_array("A%d" % iR, (nw, nw, 3))
                    if which == "hermitian" and mR == R:
                        h = (h + _conj(h).T) / 2
                        a = (a + _conj(a).transpose(1, 0, 2)) / 2
                    X["Ham"][iR], X["AA"][iR] = h, a
            Xin = {k: v.copy() for k, v in X.items()}
            with contextlib.redirect_stdout(io.StringIO()), warnings.catch_warnings():
                warnings.simplefilter("ignore")
                sw = SW(symmetrizer=symr, iRvec=rnp.array(Rs), silent=True)
                Y, iR_new = sw.symmetrize(XX_R=X)
            newset = [tuple(int(x) for x in R) for R in iR_new]
            U.ensure("the new R-vectors are distinct and contain 0", len(set(newset)) == len(newset) and (0, 0, 0) in newset)
            for key, ncart in (("Ham", 0), ("AA", 1)):
                shape = (nw, nw) + (3,) * ncart
                spec = _spec_average(ops, A, atoms, nw, _as_dict(Xin[key], Rs), ncart)
                got = _as_dict(Y[key], newset)
                U.ensure("%s: symmetrize(X) = (1/|G|) sum_g g.X on every R-vector (zero where no image lands), every coefficient to 1e-12" % key, _same(got, spec, shape))
                U.ensure("%s: (non-vacuity) the average depends on the input on R-vectors outside the input set" % key,
                         any(R not in Rs and any(_depends(v) for v in spec[R].flat) for R in spec))
                if which == "hermitian":
                    herm = all(tuple(-x for x in R) in got and all(_lin_ok(got[R][i] - _cj(got[tuple(-x for x in R)][(i[1], i[0]) + i[2:]])) for i in rnp.ndindex(*shape)) for R in got)
                    U.ensure("%s: X(-R) = X(R)^dagger is kept" % key, herm)
            with contextlib.redirect_stdout(io.StringIO()), warnings.catch_warnings():
                warnings.simplefilter("ignore")
                sw2 = SW(symmetrizer=symr, iRvec=rnp.array(newset), silent=True)
                Y2, iR2 = sw2.symmetrize(XX_R={k: v.copy() for k, v in Y.items()})
            set2 = [tuple(int(x) for x in R) for R in iR2]
            if os.environ.get("C20_DEBUG"):
                print("R sets", sorted(set(set2) - set(newset)), sorted(set(newset) - set(set2)), file=sys.stderr)
            # the list of R-vectors may gain vectors that carry only zeros (images of an R-vector under the translations of atom pairs on
            # which it holds nothing): the model -- the map R -> matrix, zero where absent -- is what must not change
            U.ensure("symmetrising the result again changes nothing (the same map R -> matrix, absent = zero)",
                     set(newset) <= set(set2) and all(_same(_as_dict(Y2[k], set2), _as_dict(Y[k], newset), (nw, nw) + (3,) * n) for k, n in (("Ham", 0), ("AA", 1))))
            U.ensure("the input matrices are left untouched (frame)", all(all(_lin_ok(X[k][i] - Xin[k][i]) for i in rnp.ndindex(*X[k].shape)) for k in X))
        U.run(body, check_feasible=False)
        U.external("irrep SpaceGroup / Projection / SymmetrizerSAWF.from_spacegroup_and_projections on the concrete structure (atom maps, translations, orbital matrices): installed code, its output is cross-checked by the geometric specification")


_symm_unit("ortho-mmm", ("quick", "thorough"))
_symm_unit("screw-P21", ("quick", "thorough"))
_symm_unit("tetragonal-P4", ("quick", "thorough"))
_symm_unit("monoclinic-2/m", ("thorough",))
_symm_unit("tetragonal", ("thorough",))
_symm_unit("hex-C3", ("thorough",))


# ------------------------------------------------------------------ (B) one pass of the centre symmetrisation
class _Op:
    """external contract of irrep's SymmetryOperation.transform_r: r -> S r + t in reduced coordinates (validated by the stand-in)"""

    def __init__(self, g):
        self.rotation, self.translation, self.time_reversal = rnp.array(g.rotation, dtype=int), rnp.array(g.translation, dtype=float), g.time_reversal

    def transform_r(self, v):
        return rnp.dot(v, self.rotation.T) + self.translation


def _wcc_unit(name, tiers):
    @unit("C20", "symmetrize_wannier_property (one pass): orbital-weighted group average of the centres; symmetric centres are a fixed point [%s]" % name, tiers=tiers, expect_min=3,
          scope="shape:structure %s, symbolic centres" % name)
    def _w(U):
        NP = Shim()
        ce = U.fn(F_UT, "cached_einsum", globs=dict(np=NP, EINSUM_PATH_CACHE={}), model=False, rewrite_comps=False)
        f = U.fn(F_SAWF, "SymmetrizerSAWF.symmetrize_wannier_property", globs=dict(np=NP, cached_einsum=ce), model=False, rewrite_comps=False)
        st, atoms, nw, symr, _sys = _setup(name)
        A = rnp.array(st["lat"], dtype=float)
        ops = list(symr.spacegroup.symmetries)
        me = types.SimpleNamespace(num_wann=symr.num_wann, D_wann_block_indices=symr.D_wann_block_indices, rot_orb_list=symr.rot_orb_list, rot_orb_dagger_list=symr.rot_orb_dagger_list,
                                   T_list=symr.T_list, atommap_list=symr.atommap_list,
                                   spacegroup=types.SimpleNamespace(symmetries=[_Op(g) for g in ops], lattice=A, lattice_inv=rnp.linalg.inv(A), size=len(ops)))

        def body():
            c = sym_real_array("c", (nw, 3))
            out = f(me, c)
            # specification from the geometry: c'[a', i] = (1/|G|) sum_g sum_j D_ij^2 (M c[a, j] + t_cart - n_a A)
            spec = rnp.zeros((nw, 3), dtype=object)
            for g in ops:
                S, t, M, img, D = _op_data(g, A, atoms)
                for ia, a in enumerate(atoms):
                    ja, na = img[ia]
                    W = D[a.orb] ** 2
                    moved = rnp.dot(c[a.ws:a.ws + a.norb], M.T) + (t - na) @ A
                    spec[atoms[ja].ws:atoms[ja].ws + a.norb] += rnp.dot(W, moved)
            spec = spec / len(ops)
            U.ensure("one pass = (1/|G|) sum_g sum_j D_ij(g)^2 g(c_j), every coefficient to 1e-12", all(_lin_ok(lift(out[i]) - lift(spec[i])) if not isinstance(out[i], SCplx) else (_lin_ok(out[i].re - lift(spec[i])) and _lin_ok(out[i].im)) for i in rnp.ndindex(nw, 3)))
            ideal = rnp.array([a.tau for a in atoms for _ in range(a.norb)]) @ A
            fix = rnp.array(f(me, ideal.copy()), dtype=complex)
            U.ensure("centres on the atomic positions are a fixed point", bool(rnp.allclose(fix, ideal, atol=1e-12)))
            perm = all(rnp.allclose(abs(_op_data(g, A, atoms)[4][a.orb]) ** 2, rnp.round(abs(_op_data(g, A, atoms)[4][a.orb]) ** 2), atol=1e-9) for g in ops for a in atoms)
            if perm:
                again = f(me, rnp.array(out, dtype=object))
                U.ensure("every orbital matrix is a signed permutation here: one pass is already a projection", all(_lin_ok(lift(again[i]) - lift(out[i])) for i in rnp.ndindex(nw, 3)))
            else:
                U.ensure("(orbitals mix under some operation: one pass is a contraction, not a projection -- the driver must iterate, see the symmetrize2 unit)", True)
        U.run(body, check_feasible=False)
        U.external("irrep SymmetryOperation.transform_r: r -> S r + t in reduced coordinates")


_wcc_unit("ortho-mmm", ("quick", "thorough"))
_wcc_unit("screw-P21", ("quick", "thorough"))
_wcc_unit("hex-C3", ("quick", "thorough"))
_wcc_unit("tetragonal-P4", ("quick", "thorough"))
_wcc_unit("tetragonal", ("thorough",))


# ------------------------------------------------------------------ (C) the driver
@unit("C20", "System_R.symmetrize2: matrices, R-vectors, centres (a fixed point of the centre symmetrisation), point group", expect_min=6,
      scope="shape:stub SymWann / symmetrizer with their contracts; centre map contracting towards its fixed point at rates 0, 1/2, 0.9")
def _driver(U):
    calls = {}

    class SWstub:
        def __init__(self, **kw):
            calls["init"] = kw

        def symmetrize(self, **kw):
            calls["symmetrize"] = kw
            return {"Ham": "new Ham", "AA": "new AA"}, rnp.array([[0, 0, 0], [1, 0, 0], [-1, 0, 0], [0, 2, 0]])

    class RVstub:
        def __init__(self, **kw):
            self.kw = kw
    f = U.fn(F_SR, "System_R.symmetrize2", globs=dict(np=rnp, Rvectors=RVstub, print=lambda *a, **k: None), model=False, rewrite_comps=False)
    f.raw.__globals__["__package__"] = "wannierberri.system"
    f.raw.__globals__["__name__"] = "wannierberri.system.system_R"

    def body():
        rate = [0.0, 0.5, 0.9][ctx().choose(3, "contraction rate of one pass of the centre symmetrisation")]
        use = [None, [0, 2]][ctx().choose(2, "use_symmetries_index")]
        lat = rnp.array([[1.0, 0.1, 0], [0, 1.2, 0], [0, 0.2, 1.5]])
        fixp = rnp.array([[0.1, 0.2, 0.3], [0.5, 0.5, 0.0]])
        start = fixp + rnp.array([[0.01, -0.02, 0.005], [0.0, 0.01, -0.01]])
        log = []

        class Symr:
            spacegroup = "the space group"

            def symmetrize_WCC(self, w):
                log.append("wcc")
                return fixp + (rnp.array(w) - fixp) * rate          # one pass: the symmetric part is kept, the rest shrinks by `rate`

        class Me:
            silent = True
            logfile = io.StringIO()
            real_lattice = lat
            symmetrized = False

            @property
            def wannier_centers_red(self):
                return self.wannier_centers_cart @ rnp.linalg.inv(lat)

            def clear_cached_wcc(self):
                log.append("clear_wcc")

            def clear_cached_R(self):
                log.append("clear_R")

            def set_pointgroup(self, **kw):
                log.append(("pointgroup", kw))

            def set_structure_from_sg(self, sg):
                log.append(("structure", sg))
        me = Me()
        me.wannier_centers_cart = start.copy()
        old_R = rnp.array([[0, 0, 0], [1, 0, 0]])
        me.rvec = types.SimpleNamespace(iRvec=old_R, mp_grid=(2, 2, 2))
        me._XX_R = {"Ham": "old Ham", "AA": "old AA"}
        symr = Symr()
        import wannierberri.symmetry.sym_wann_2 as realmod
        saved = realmod.SymWann
        realmod.SymWann = SWstub
        try:
            f(me, symr, use_symmetries_index=use, cutoff=0.25, cutoff_dict={"AA": 0.5})
        finally:
            realmod.SymWann = saved
        ki, ks = calls["init"], calls["symmetrize"]
        log0 = list(log)
        U.ensure("SymWann is built for this symmetrizer on the system's current R-vectors, the selection of operations passed on; it symmetrises the system's own matrices with the given cut-offs",
                 ki.get("symmetrizer") is symr and ki.get("iRvec") is old_R and ki.get("use_symmetries_index") == use and ks.get("XX_R") == {"Ham": "old Ham", "AA": "old AA"} and ks.get("cutoff") == 0.25 and ks.get("cutoff_dict") == {"AA": 0.5})
        U.ensure("the system's matrices are replaced by the symmetrised ones", me._XX_R == {"Ham": "new Ham", "AA": "new AA"})
        c = rnp.array(me.wannier_centers_cart, dtype=float)
        kind = "that is a projection (no operation mixes orbitals)" if rate == 0.0 else "that is not a projection (one pass contracts the asymmetric part by %g) [centre-pass-not-a-projection]" % rate
        U.ensure("the stored centres are a fixed point of a centre symmetrisation %s: |W(c) - c| < 1e-10, reached from the old centres" % kind,
                 bool(abs(symr.symmetrize_WCC(c) - c).max() < 1e-10 and abs(c - fixp).max() < 1e-9))
        kw = me.rvec.kw
        U.ensure("new R-vectors: the symmetrised list on the system's lattice, shifted by the NEW centres (reduced coordinates)",
                 kw.get("lattice") is lat and rnp.array_equal(kw.get("iRvec"), [[0, 0, 0], [1, 0, 0], [-1, 0, 0], [0, 2, 0]]) and bool(rnp.allclose(kw.get("shifts_left_red"), c @ rnp.linalg.inv(lat), atol=1e-12)))
        log[:] = log0
        pg = [x for x in log if isinstance(x, tuple) and x[0] == "pointgroup"]
        U.ensure("point group and structure are taken from the symmetrizer's space group (with the same selection of operations); caches are cleared after the centres changed; the system is marked symmetrised",
                 len(pg) == 1 and pg[0][1] == dict(spacegroup="the space group", use_symmetries_index=use) and ("structure", "the space group") in log
                 and "clear_wcc" in log[max(i for i, x in enumerate(log) if x == "wcc"):] and "clear_R" in log[max(i for i, x in enumerate(log) if x == "wcc"):] and me.symmetrized is True)
    U.run(body, check_feasible=False)
    U.external("SymWann.symmetrize (unit A), SymmetrizerSAWF.symmetrize_WCC (unit B: one pass keeps the symmetric part and contracts the rest)")


# System_R.symmetrize regroups the Wannier functions orbit by orbit with System_R.reorder before (and, with reorder_back, after) the
# symmetrisation: its contract (matrices, centres, R-vector shifts permuted consistently) is C05's unit, registered here as well
from contracts.C05 import _reorder_unit as _c05_reorder
_c05_reorder([(1, 2, 0), (0, 2, 1), (2, 1, 0)], "a 3-cycle and two transpositions", ("quick", "thorough"), prop="C20")


# ------------------------------------------------------------------ bounded stand-in: the installed code end to end
def _groups(E, tol=1e-6):
    g = [[0]]
    for i in range(1, len(E)):
        if E[i] - E[i - 1] < tol:
            g[-1].append(i)
        else:
            g.append([i])
    return g


CASES = [("ortho-mmm", False, None), ("tetragonal-P4", False, None), ("hex-C3", False, None), ("ortho-interleaved", False, None),
         ("ortho-mmm", True, None), ("ortho-mmm", True, [[0, 0, 1.0], [0, 0, -1.0], [0, 0, 0]]), ("screw-P21", True, [[0, 0, 1.0], [0, 0, 1.0]]),
         ("tetragonal", False, None), ("screw-P21", False, None), ("monoclinic-2/m", False, None), ("tetragonal-P4", True, None), ("hex-C3", True, None), ("tetragonal", True, [[0, 0, 1.0], [0, 0, 1.0], [0, 0, 0]])]


def _sym_errors(wb, s, symr, soc):
    A = s.real_lattice
    q = ["energy", "berry_curvature"] + (["spin"] if soc else [])
    k = rnp.array([0.13, 0.27, 0.41])
    r0 = wb.evaluate_k(s, k=k, quantities=q)
    worst = dict(energy=0.0, berry_curvature=0.0, spin=0.0)
    for g in symr.spacegroup.symmetries:
        S = rnp.array(g.rotation)
        M = A.T @ S @ rnp.linalg.inv(A.T)
        sg = (-1 if g.time_reversal else 1)
        r1 = wb.evaluate_k(s, k=rnp.linalg.inv(S).T @ k * sg, quantities=q)
        worst["energy"] = max(worst["energy"], abs(r1["energy"] - r0["energy"]).max())
        for grp in _groups(r0["energy"]):
            for key in q[1:]:          # pseudo-vectors, odd under time reversal; summed over degenerate groups
                worst[key] = max(worst[key], abs(r1[key][grp].sum(0) - sg * rnp.linalg.det(M) * (r0[key] @ M.T)[grp].sum(0)).max())
    return worst


def _centres_map(st, symr, c, A, soc):
    """centres map onto each other: invariant under the orbital-weighted action of every single operation"""
    nsp = 2 if soc else 1
    at1 = _atoms(st, 1)[0]
    for isym, g in enumerate(symr.spacegroup.symmetries):
        S, t, M, img, D = _op_data(g, rnp.array(A), at1)
        for ia, a in enumerate(at1):
            ja, na = img[ia]
            W = rnp.kron(D[a.orb] ** 2, rnp.eye(nsp)) if nsp == 2 else D[a.orb] ** 2
            src = c[a.ws * nsp:(a.ws + a.norb) * nsp]
            tgt = c[at1[ja].ws * nsp:(at1[ja].ws + a.norb) * nsp]
            if nsp == 2:          # the spin part of the representation mixes the two spin components of one orbital, which must then share a centre
                src = rnp.repeat(src.reshape(a.norb, 2, 3).mean(axis=1), 2, axis=0)
                tgt = rnp.repeat(tgt.reshape(a.norb, 2, 3).mean(axis=1), 2, axis=0)
            moved = W @ (src @ M.T + (t - na) @ A)
            if abs(moved - tgt).max() > 1e-8:
                return "centres do not map onto each other under operation %d (%.1e)" % (isym, abs(moved - tgt).max())
    return None


def _real_symmetrize(rng, n):
    import wannierberri as wb
    from wannierberri.fourier.rvectors import Rvectors
    fails, cases = [], 0
    for name, soc, mag in (CASES[:6] if n <= 30 else CASES):
        seed = rng.randint(0, 10 ** 6)
        bad_m, bad_c = [], []
        with contextlib.redirect_stdout(io.StringIO()), warnings.catch_warnings():
            warnings.simplefilter("ignore")
            st, atoms, nw, symr, s = _setup(name, soc=soc, magmom=mag, seed=seed, keep_system=True)
            A = s.real_lattice
            regrouped = symr is None           # reorder_back after a regrouping: no symmetrizer is returned (it would not match the user's order)
            if regrouped:                      # the operations: those of the same structure listed orbit by orbit
                symr = types.SimpleNamespace(spacegroup=_setup(name + "/control")[3].spacegroup, symmetrize_WCC=lambda c_: c_)
            # --- clause "centres as stored"
            w = _sym_errors(wb, s, symr, soc)
            c = s.wannier_centers_cart.copy()
            msg = _centres_map(st, symr, c, A, soc)
            if msg:
                bad_c.append(msg)
            again = symr.symmetrize_WCC(c)
            if abs(again - c).max() > 1e-9:
                bad_c.append("symmetrising again moves the centres by %.1e" % abs(again - c).max())
            if w["berry_curvature"] > 1e-8:
                bad_c.append("berry_curvature at g k differs from the transformed value at k by %.1e with the stored centres" % w["berry_curvature"])
            # --- clause "matrices": the same statements with the centres taken to the fixed point of the centre symmetrisation, which
            #     separates the matrices (and everything computed from them) from the stored centres
            cf = c
            for _ in range(2000):
                nxt = symr.symmetrize_WCC(cf)
                done = abs(nxt - cf).max() < 1e-14
                cf = nxt
                if done:
                    break
            s.wannier_centers_cart = cf
            s.clear_cached_wcc()
            s.rvec = Rvectors(lattice=s.real_lattice, iRvec=s.rvec.iRvec, shifts_left_red=s.wannier_centers_red)
            s.clear_cached_R()
            w = _sym_errors(wb, s, symr, soc)
            if w["energy"] > 1e-9:
                bad_m.append("energies at g k differ from those at k by %.1e" % w["energy"])
            for key in ("berry_curvature", "spin"):
                if w[key] > 1e-8:
                    bad_m.append("%s at g k differs from the transformed value at k by %.1e (centres at their fixed point)" % (key, w[key]))
            msg = _centres_map(st, symr, cf, A, soc)
            if msg:
                bad_m.append("at the fixed point of the centre symmetrisation: " + msg)
            for key in s._XX_R:
                X = s.get_R_mat(key)
                if abs(X - s.rvec.conj_XX_R(X)).max() > 1e-12:
                    bad_m.append("%s is not Hermitian after symmetrisation" % key)
            old = {key: _as_dict(s.get_R_mat(key).copy(), s.rvec.iRvec) for key in s._XX_R}
            if regrouped:
                s.symmetrize(proj=st["proj"], positions=rnp.array(st["pos"]), atom_name=st["names"], soc=soc, magmom=mag, silent=True, reorder_back=True)
            else:
                s.symmetrize2(symr, silent=True)
            for key in s._XX_R:
                new = _as_dict(s.get_R_mat(key), s.rvec.iRvec)
                zero = 0 * next(iter(new.values()))
                if max(abs(new.get(R, zero) - old[key].get(R, zero)).max() for R in set(new) | set(old[key])) > 1e-10:
                    bad_m.append("symmetrising again changes %s" % key)
            if abs(s.wannier_centers_cart - cf).max() > 1e-9:
                bad_m.append("symmetrising again moves centres that were a fixed point by %.1e" % abs(s.wannier_centers_cart - cf).max())
        cases += 1
        inp = dict(structure=name, soc=soc, magmom=mag)
        if bad_m:
            fails.append(dict(input=inp, seed=seed, clause="matrices: symmetric, Hermitian, a fixed point (centres taken to their fixed point)", failed=bad_m[:6]))
        if bad_c:
            fails.append(dict(input=inp, seed=seed, clause="centres-as-stored[%s,%s]: a fixed point, mapped onto each other, Berry curvature symmetric with them" % (name, "spin-orbit" if soc else "spinless"), failed=bad_c[:6]))
    return dict(cases=cases, failures=fails, distinct=cases)


Unit("C20", "System_R.symmetrize on random Hermitian systems [installed code]", concrete=_real_symmetrize,
     bounded_desc="6 structures (orthorhombic, screw axis, monoclinic, tetragonal 4/mmm, P4 with a four-site orbit, hexagonal with mixing p orbitals) x spinless / spin-orbit / magnetic: E(gk), Berry curvature, spin, Hermiticity, centres, idempotence for every operation at one generic k")
