"""C17  Energy smoothing applies every axis smoother.

Under contract:
  result/energyresult.py::EnergyResult.dataSmooth   unbounded in the number of energy axes: result = S_0(S_1(...S_{N-1}(data)))
                                                     over abstract smoothers (uninterpreted operators) -- loop invariant
  smoother.py::AbstractSmoother.__call__            (a) unbounded window algebra: for every NE, NE1, i the two slices have
                                                     equal length, stay in bounds and are aligned (start+t)-i = (start1+t)-NE1;
                                                     (b) per shape (real numpy on symbolic scalars): the output is the
                                                     normalised weighted average along the requested axis only, for every axis
                                                     of arrays of rank 1..3 -- linear, constants preserved, other axes untouched
  smoother.py::VoidSmoother.__call__, get_smoother  identity / dispatch
"""
import itertools
import z3

from pyvc.core import (ctx, lift, ite, land, lor, implies, forall, sreal, sint, fresh_int, fresh_real, lnot, SNum, SBool,
                       SOpaque, conc)
from pyvc.arr import sym_array, SArr
from pyvc.unit import unit, Unit
from pyvc.npmodel import np as NP

FS = "wannierberri/smoother.py"
FE = "wannierberri/result/energyresult.py"


class _Obj:
    pass


# ------------------------------------------------------------------ dataSmooth
VAL = z3.DeclareSort("ResultData")
APP = z3.Function("apply_smoother", z3.IntSort(), VAL, VAL)        # S_i(X) along axis i
COMP = z3.Function("compose_from", z3.IntSort(), VAL)              # COMP(k) = S_k(S_{k+1}(...S_{N-1}(data)))


@unit("C17", "EnergyResult.dataSmooth", array_mode="uf", expect_min=3)
def _datasmooth(U):
    calls = []

    class Smoothers:
        def __getitem__(self, i):
            def s(X, axis=None):
                calls.append((i, axis))
                if not isinstance(X, SOpaque):
                    raise TypeError("smoother applied to %r" % (X,))
                ctx().oblige("EnergyResult.dataSmooth/smoother i is applied along axis i", lift(axis) == lift(i), kind="requires@call")
                return SOpaque(APP(lift(i).t, X.t))
            return s

    def inv(L):
        N = L.self.N_energies
        return [L.data_tmp == SOpaque(COMP((N - L.pos).t))]
    f = U.fn(FE, "EnergyResult.dataSmooth", globs=dict(np=NP), loops={0: dict(header="range(self.N_energies - 1, -1, -1)", inv=inv)})

    def body():
        N = sint("N_energies")
        ctx().assume(N >= 1)
        me = _Obj()
        me.N_energies = N
        data = SOpaque(z3.Const("data", VAL))
        me.data = data
        me.smoothers = Smoothers()
        # definition of the spec: COMP(N) = data ; COMP(k) = S_k(COMP(k+1))
        ctx().assume(SBool(COMP(N.t) == data.t))
        ctx().assume(forall(lambda k: implies(land(k >= 0, k < N), SBool(COMP(k.t) == APP(k.t, COMP((k + 1).t)))), name="compdef"))
        res = f(me)
        U.ensure("dataSmooth == S_0(S_1(...S_{N-1}(data)))  (every axis smoother applied, innermost = last axis)",
                 res == SOpaque(COMP(z3.IntVal(0))))
        return res
    U.run(body)
    U.assumption("@cached_property dropped: caching is transparent (data and smoothers are not modified after construction)")
    U.assumption("smoothers along distinct axes commute (each is a linear map along its own axis: per-shape units below), so the order of composition is immaterial")


def _datasmooth_concrete(rng, n):
    """bounded stand-in / replay for dataSmooth: real EnergyResult with 1..3 energy axes and real smoothers"""
    import numpy as np
    from wannierberri.result import EnergyResult
    from wannierberri.smoother import GaussianSmoother, FermiDiracSmoother, VoidSmoother
    fails = []
    cases = 0
    for t in range(max(3, n // 5)):
        nax = 1 + t % 3
        Es = [np.linspace(-1, 1, rng.randint(5, 9)) for _ in range(nax)]
        rank = rng.randint(0, 1)
        rs = np.random.RandomState(rng.randint(0, 10 ** 6))
        data = rs.rand(*([len(E) for E in Es] + [3] * rank))
        sm = []
        for E in Es:
            k = rng.randint(0, 2)
            sm.append(GaussianSmoother(E, 0.3) if k == 0 else FermiDiracSmoother(E, 2000.) if k == 1 else VoidSmoother())
        r = EnergyResult(Es, data, smoothers=sm, rank=rank)
        want = data.copy()
        for i in range(nax - 1, -1, -1):
            want = sm[i](want, axis=i)
        got = r.dataSmooth
        cases += 1
        if not np.allclose(got, want, atol=1e-12):
            fails.append(dict(input=dict(n_energy_axes=nax, shape=list(data.shape), smoothers=[str(s) for s in sm]),
                              clause="dataSmooth == composition of all axis smoothers", max_abs_diff=float(abs(got - want).max())))
    return dict(cases=cases, failures=fails, distinct=cases)


_datasmooth.unit.concrete = _datasmooth_concrete
_datasmooth.unit.bounded_desc = "EnergyResult with 1-3 energy axes, Gaussian/Fermi-Dirac/void smoothers, random data, rank 0-1"
_datasmooth.unit.replay = lambda mv, ob: (lambda r: dict(reproduced=bool(r["failures"]), witness=r["failures"][:1]))(_datasmooth_concrete(__import__("random").Random(1), 30))


# ------------------------------------------------------------------ AbstractSmoother.__call__ : window algebra, unbounded
@unit("C17", "AbstractSmoother.__call__[window algebra]", array_mode="uf", expect_min=3)
def _window(U):
    rec = []

    class NPW:
        """numpy as seen by __call__ in this unit: tensordot is taken by contract (precondition: equal extents along the
        contracted axes); everything else comes from the model"""
        def __getattr__(self, k):
            return getattr(NP, k)

        def tensordot(self, a, b, axes=None):
            rec.append((a, b, axes))
            ctx().oblige("AbstractSmoother.__call__/requires@tensordot: contracted extents agree (data window vs weight window)",
                         lift(a.shape[0]) == lift(b.shape[0]), kind="requires@call")
            return fresh_real("td")
    f = U.fn(FS, "AbstractSmoother.__call__", globs=dict(np=NPW()), loops={0: dict(header="range(self.NE)", inv=lambda L: [])})

    def body():
        del rec[:]
        NE, NE1 = sint("NE"), sint("NE1")
        ctx().assume(land(NE >= 1, NE1 >= 0))
        me = _Obj()
        me.NE, me.NE1 = NE, NE1
        me.E = sym_array("E", (NE,), "real")
        inner = sym_array("smt", (2 * NE1 + 1,), "real")

        class Weights:           # the kernel: slices know their extent; the sum of a window is positive (assumed, listed)
            def __getitem__(self, sl):
                w = inner[sl]

                class Win:
                    shape = w.shape

                    def sum(self_):
                        v = fresh_real("wsum")
                        ctx().assume(v > 0)
                        return v
                return Win()
        me.smt = Weights()
        A = sym_array("A", (NE,), "real")
        res = f(me, A, axis=0)
        return res
    paths = U.run(body)
    U.assumption("the normalisation sum of the weight window is non-zero (positive kernels: Gaussian, -df/dE)")


def _window_slices(U):
    pass


@unit("C17", "AbstractSmoother.__call__[window bounds]", expect_min=5)
def _window_bounds(U):
    """the four window indices, taken from the real assignments in the loop body (max/min expressions)"""
    import ast
    from pyvc.extract import read_source, find_def
    src, _ = read_source(FS)
    node, _ = find_def(ast.parse(src), "AbstractSmoother.__call__")
    loop = [n for n in ast.walk(node) if isinstance(n, ast.For)][0]
    assigns = {}
    for st in loop.body:
        if isinstance(st, ast.Assign) and isinstance(st.targets[0], ast.Name):
            assigns[st.targets[0].id] = ast.unparse(st.value)
    from pyvc.runtime import MODEL_BUILTINS

    def build():
        NE, NE1, i = sint("NE"), sint("NE1"), sint("i")
        me = _Obj()
        me.NE, me.NE1 = NE, NE1
        env = dict(MODEL_BUILTINS)
        env.update(self=me, i=i)
        for nm in ("start", "end", "start1", "end1"):
            if nm not in assigns:
                from pyvc.extract import ContractUnbound
                raise ContractUnbound("no assignment to %s in the loop body of AbstractSmoother.__call__" % nm)
            env[nm] = eval(assigns[nm], env)
        s, e, s1, e1 = env["start"], env["end"], env["start1"], env["end1"]
        hyp = [land(NE >= 1, NE1 >= 0, i >= 0, i < NE)]
        return hyp, s, e, s1, e1, i, NE, NE1
    hyp, s, e, s1, e1, i, NE, NE1 = build()
    U.lemma("0 <= start <= i < end <= NE  (window contains the point itself)", lambda: (hyp, land(s >= 0, s <= i, i < e, e <= NE)))
    U.lemma("0 <= start1 < end1 <= 2*NE1+1  (weight window inside the kernel)", lambda: (hyp, land(s1 >= 0, s1 < e1, e1 <= 2 * NE1 + 1)))
    U.lemma("end-start == end1-start1  (same number of points)", lambda: (hyp, e - s == e1 - s1))
    U.lemma("alignment: data index j gets weight index NE1 + (j - i)", lambda: (hyp, s1 - s == NE1 - i))
    U.lemma("window is the full kernel clipped to the grid", lambda: (hyp, land(s == ite(i - NE1 > 0, i - NE1, 0), e == ite(i + NE1 + 1 < NE, i + NE1 + 1, NE))))
    info = dict(qualname="%s::AbstractSmoother.__call__ (window index expressions)" % FS, file=FS, lines=[loop.lineno, loop.end_lineno],
                sha256=__import__("hashlib").sha256(ast.unparse(loop).encode()).hexdigest(), dropped=[], rewritten=["the four index assignments of the loop body evaluated on symbolic NE, NE1, i"])
    U.functions.append(info)


# ------------------------------------------------------------------ AbstractSmoother.__call__ per shape, real numpy
def _smoother_shape_unit(shape, axis, NE1):
    name = "AbstractSmoother.__call__[shape=%s,axis=%d,NE1=%d]" % ("x".join(map(str, shape)), axis, NE1)

    def prove(U):
        import numpy as rnp
        f = U.fn(FS, "AbstractSmoother.__call__", globs=dict(np=rnp), model=False)

        def body():
            NE = shape[axis]
            me = _Obj()
            me.NE, me.NE1 = NE, NE1
            me.E = rnp.zeros(NE)
            w = [sreal("w%d" % k) for k in range(2 * NE1 + 1)]
            for x in w:
                ctx().assume(x > 0)
            me.smt = rnp.array(w, dtype=object)
            A = rnp.empty(shape, dtype=object)
            for idx in rnp.ndindex(*shape):
                A[idx] = sreal("A" + "_".join(map(str, idx)))
            res = f(me, A, axis=axis)
            U.ensure("result has the shape of the input", tuple(res.shape) == tuple(shape))
            for idx in rnp.ndindex(*shape):
                i = idx[axis]
                num, den = 0, 0
                for j in range(NE):
                    if abs(j - i) <= NE1:
                        src = idx[:axis] + (j,) + idx[axis + 1:]
                        num = num + A[src] * w[NE1 + j - i]
                        den = den + w[NE1 + j - i]
                U.ensure("res%s == sum_j A[..j..] w[NE1+j-i] / sum_j w[NE1+j-i]  (only along axis %d)" % (list(idx), axis),
                         lambda num=num, den=den, idx=idx: res[idx] == num / den)
            return res
        U.run(body)
        U.assumption("kernel weights positive (so the normalisation is non-zero)")
    Unit("C17", name, prove=prove, scope="shape:%s axis=%d NE1=%d" % (shape, axis, NE1), expect_min=2,
         tiers=("quick", "thorough"))


for _shape, _axes in (((4,), (0,)), ((3, 2), (0, 1)), ((2, 4), (1,)), ((2, 3, 2), (0, 1, 2)), ((5,), (0,)), ((2, 2, 3, 2), (2, 3))):
    for _ax in _axes:
        for _ne1 in ((1, 2) if len(_shape) == 1 else (1,)):
            _smoother_shape_unit(_shape, _ax, _ne1)
_smoother_shape_unit((3,), 0, 5)      # kernel wider than the grid


@unit("C17", "VoidSmoother+get_smoother", expect_min=3, scope="shape:dispatch cases")
def _void(U):
    f = U.fn(FS, "VoidSmoother.__call__", globs={})
    made = []

    class FD:
        def __init__(self, e, s):
            made.append(("FD", e, s))

    class GS:
        def __init__(self, e, s):
            made.append(("G", e, s))

    class VS:
        def __init__(self):
            made.append(("V",))
    g = U.fn(FS, "get_smoother", globs=dict(VoidSmoother=VS, FermiDiracSmoother=FD, GaussianSmoother=GS), model=False)

    def body():
        A = object()
        U.ensure("VoidSmoother returns its argument unchanged", f(None, A, axis=3) is A)
        E = [0.0, 0.1, 0.2]
        U.ensure("no energies -> void", isinstance(g(None, 1.0, "Gaussian"), VS))
        U.ensure("smear None or <= 0 -> void", isinstance(g(E, None, "Gaussian"), VS) and isinstance(g(E, 0, "Gaussian"), VS) and isinstance(g(E, -1.0, "Fermi-Dirac"), VS))
        U.ensure("single energy -> void", isinstance(g([0.0], 1.0, "Gaussian"), VS))
        U.ensure("Fermi-Dirac dispatch", isinstance(g(E, 300.0, "Fermi-Dirac"), FD) and made[-1] == ("FD", E, 300.0))
        U.ensure("Gaussian dispatch", isinstance(g(E, 0.1, "Gaussian"), GS) and made[-1] == ("G", E, 0.1))
    U.run(body)


@unit("C17", "AbstractSmoother.__init__: the kernel covers exactly the energies within maxdE * smear, for integer and fractional maxdE", expect_min=2, scope="shape:6 parameter sets (maxdE 8, 2.5, 1.7, 0.9, 3; grids of 5-40 points)")
def _smoother_init(U):
    import numpy as rnp
    f = U.fn(FS, "AbstractSmoother.__init__", globs=dict(np=rnp), model=False)

    def body():
        ok, ok_copy = True, True
        for E0, dE, N, smear, maxdE in ((0.0, 0.25, 40, 0.5, 8), (-1.0, 0.125, 30, 0.5, 2.5), (0.0, 0.125, 30, 0.25, 1.75), (2.0, 0.5, 5, 0.25, 0.9), (0.0, 0.25, 9, 1.0, 3), (0.0, 0.5, 20, 0.125, 8)):
            E = E0 + dE * rnp.arange(N)
            asked = []
            me = type("S", (), {"_broaden": lambda self, x: (asked.append(rnp.array(x)), rnp.exp(-rnp.array(x) ** 2))[1]})()
            f(me, E, smear, maxdE)
            n1 = int(rnp.floor(maxdE * smear / dE + 1e-12))                  # the number of grid steps within maxdE * smear (binary fractions: exact)
            offs = rnp.arange(-n1, n1 + 1) * dE
            ok = ok and me.NE1 == n1 and me.NE == N and me.dE == dE and len(asked) == 1 and asked[0].shape == offs.shape and bool(rnp.allclose(asked[0], offs, atol=1e-15)) \
                and me.smt.shape == (2 * n1 + 1,) and bool(rnp.allclose(me.smt, rnp.exp(-offs ** 2) * dE, atol=1e-15)) and me.smear == smear and me.Emin == E[0] and me.Emax == E[-1]
            ok_copy = ok_copy and me.E is not E and bool(rnp.array_equal(me.E, E))
        U.ensure("NE1 = floor(maxdE * smear / dE); the kernel is the broadening function at the offsets -NE1..NE1 (times dE); nothing is rounded before that", ok)
        U.ensure("the smoother keeps its own copy of the energy grid", ok_copy)
    U.run(body, check_feasible=False)
