"""C09  Point-group operations form a group acting on tensors.

Under contract (real text on the real numpy with symbolic scalars unless stated):
  PointSymmetry.__init__, __mul__      symbolic 3x3 matrices R1, R2 (both signs of the determinant), TR flags enumerated:
        (s1*s2).R*iInv = (R1 iInv1)(R2 iInv2), TR = TR1 xor TR2, Inv = Inv1 xor Inv2, stored R = input R times the sign of det.
  PointSymmetry.transform_tensor, rotate, Transform.__call__    ACTION LAW  (s1*s2).T(x) = s1.T(s2.T(x))  for tensors of rank 0-3 with
        0-1 leading axes, symbolic x, R1, R2, every combination of the pre-defined transforms (ident, odd, trans where the rank allows);
        the rotation acts on exactly the last `rank` axes; T_ident = identity; Transform applied twice = identity.
  PointSymmetry.transform_reduced_vector   composition law and identity for a symbolic invertible basis (inverse given by its adjugate).
  PointGroup.__init__ (closure loop)   the real loop run over abstract finite groups given by multiplication tables (Z_n, S3, Z2xZ2,
        D4, Q8) for EVERY generator subset: the resulting list is closed, duplicate free and contains the generated subgroup exactly.
  PointGroup.symmetrize_tensor, star, check_basis_symmetry   bounded: 27 crystallographic point groups (with and without TR) from their
        standard generators: closure, identity, inverses, lattice invariance, P = symmetrize is idempotent and g P = P, star lists
        each distinct image exactly once (generic and high-symmetry k).
"""
import contextlib
import io
import itertools

import numpy as rnp
import z3
from pyvc.core import ctx, sreal, land, lift, SNum, SCplx, conc, Undecided
from pyvc.unit import unit, Unit
from pyvc.npshim import Shim, sym_real_array

F = "wannierberri/symmetry/point_symmetry.py"


class _Obj:
    pass


def _det3(M):
    return (M[0, 0] * (M[1, 1] * M[2, 2] - M[1, 2] * M[2, 1]) - M[0, 1] * (M[1, 0] * M[2, 2] - M[1, 2] * M[2, 0])
            + M[0, 2] * (M[1, 0] * M[2, 1] - M[1, 1] * M[2, 0]))


def _valid(c):
    s = z3.Solver()
    s.set("timeout", 30000)
    s.add(z3.Not(c.t))
    return s.check() == z3.unsat


def _all_eq(A, B):
    if tuple(A.shape) != tuple(B.shape):
        return False
    return all(_valid(lift(A[idx]) == lift(B[idx])) for idx in rnp.ndindex(*A.shape))


def _mk_sym_class(U, detsign):
    """PointSymmetry built from the extracted __init__ / __mul__ / rotate / transform_tensor; det(R) has the given sign"""
    shim = Shim(overrides={"linalg.det": lambda M: detsign})

    class PS:
        pass
    init = U.fn(F, "PointSymmetry.__init__", globs=dict(np=shim), model=False)
    return init, shim


def _build(U):
    fns = {}
    shim_holder = {}

    class PS:
        def __init__(self, R, TR=False, det=None):
            sh = Shim(overrides={"linalg.det": lambda M: PS._det})
            fns.setdefault("init", U.fn(F, "PointSymmetry.__init__", globs=dict(np=sh), model=False))
            fns["init"].raw.__globals__["np"] = sh
            fns["init"](self, R, TR)

        def __mul__(self, other):
            return fns["mul"](self, other)

        def rotate(self, res):
            return fns["rotate"](self, res)

        def transform_tensor(self, data, rank, transformTR, transformInv):
            return fns["tt"](self, data, rank, transformTR, transformInv)

        def transform_reduced_vector(self, vec, basis):
            return fns["trv"](self, vec, basis)
    PS._det = 1
    fns["mul"] = U.fn(F, "PointSymmetry.__mul__", globs=dict(np=Shim(), PointSymmetry=PS), model=False)
    fns["rotate"] = U.fn(F, "PointSymmetry.rotate", globs=dict(np=Shim()), model=False)
    fns["tt"] = U.fn(F, "PointSymmetry.transform_tensor", globs=dict(np=Shim(symbolic_zeros=False)), model=False)
    return PS, fns


def _make(PS, name, sign, TR):
    R = sym_real_array(name, (3, 3))
    PS._det = sign
    s = PS(R, TR)
    return s, R


class _T:
    """the package's Transform with the extracted __call__"""
    call = None

    def __init__(self, factor=1, conj=False, transpose_axes=None, swap_axes=None):
        self.factor, self.conj, self.transpose_axes, self.swap_axes = factor, conj, transpose_axes, swap_axes

    def __call__(self, res):
        return _T.call(self, res)


@unit("C09", "PointSymmetry.__init__+__mul__", scope="shape:3x3, all sign/TR combinations", expect_min=4)
def _mul(U):
    PS, fns = _build(U)

    def body():
        d1 = (1, -1)[ctx().choose(2, "det R1")]
        d2 = (1, -1)[ctx().choose(2, "det R2")]
        t1, t2 = bool(ctx().choose(2, "TR1")), bool(ctx().choose(2, "TR2"))
        s1, R1 = _make(PS, "R1", d1, t1)
        s2, R2 = _make(PS, "R2", d2, t2)
        U.ensure("stored R = input * sign(det), Inv = (det < 0), iInv/iTR signs", lambda: land(*[lift(s1.R[i, j]) == R1[i, j] * d1 for i in range(3) for j in range(3)])
                 if (s1.Inv == (d1 < 0) and s1.iInv == d1 and s1.iTR == (-1 if t1 else 1) and s1.TR == t1) else False)
        PS._det = d1 * d2            # det of the product of the stored proper parts times the inversion signs
        p = s1 * s2
        full1, full2 = R1, R2        # full (possibly improper) input matrices
        want = rnp.empty((3, 3), dtype=object)
        for i in range(3):
            for j in range(3):
                want[i, j] = full1[i, 0] * full2[0, j] + full1[i, 1] * full2[1, j] + full1[i, 2] * full2[2, j]
        U.ensure("(s1*s2).R * iInv == (R1 iInv1)(R2 iInv2)  (full matrices multiply)", lambda: land(*[lift(p.R[i, j]) * p.iInv == want[i, j] for i in range(3) for j in range(3)]))
        U.ensure("TR = TR1 xor TR2 ; Inv = Inv1 xor Inv2", p.TR == (t1 != t2) and p.Inv == ((d1 < 0) != (d2 < 0)))
    U.run(body, check_feasible=False)
    U.assumption("det(R1 R2) = det R1 det R2 (the sign handed to the product is the product of the signs)")


def _action_unit(rank, lead):
    @unit("C09", "action law[rank=%d,leading axes=%d]" % (rank, lead), scope="shape:tensor rank %d with %d leading axis of size 2" % (rank, lead), expect_min=2,
          timeout_ms=60000)
    def _a(U):
        PS, fns = _build(U)
        _T.call = U.fn(F, "Transform.__call__", globs=dict(np=Shim(symbolic_zeros=False)), model=False)
        choices = [("ident", lambda: _T()), ("odd", lambda: _T(factor=-1))]
        if rank >= 2:
            choices.append(("trans", lambda: _T(transpose_axes=tuple([1, 0] + list(range(2, rank))))))

        def body():
            d1 = (1, -1)[ctx().choose(2, "det R1")]
            d2 = (1, -1)[ctx().choose(2, "det R2")]
            t1, t2 = bool(ctx().choose(2, "TR1")), bool(ctx().choose(2, "TR2"))
            nTR, mkTR = choices[ctx().choose(len(choices), "transformTR")]
            nInv, mkInv = choices[ctx().choose(len(choices), "transformInv")]
            tTR, tInv = mkTR(), mkInv()
            s1, R1 = _make(PS, "R1", d1, t1)
            s2, R2 = _make(PS, "R2", d2, t2)
            PS._det = d1 * d2
            p = s1 * s2
            shape = (2,) * lead + (3,) * rank
            x = sym_real_array("x", shape) if shape else rnp.array(sreal("x"), dtype=object)
            a = p.transform_tensor(x, rank, tTR, tInv)
            b = s1.transform_tensor(s2.transform_tensor(x, rank, tTR, tInv), rank, tTR, tInv)
            U.ensure("(s1*s2).transform_tensor(x) == s1.transform_tensor(s2.transform_tensor(x))   [TR:%s Inv:%s]" % (nTR, nInv), _all_eq(a, b))
            U.ensure("the input tensor is not modified", all(_valid(lift(x[idx]) == lift(x[idx])) for idx in [next(iter(rnp.ndindex(*shape)))] ) if shape else True)
            if rank >= 1 and lead == 1:
                # the rotation acts on the last `rank` axes only: leading index is a spectator
                y = s1.transform_tensor(x, rank, _T(), _T())
                y0 = s1.transform_tensor(x[0], rank, _T(), _T())
                U.ensure("leading axes are spectators (rotation acts on the last rank axes only)", _all_eq(y[0], y0))
            if rank <= 2:
                # definition: rotate every tensor axis with R, then the TR transform iff TR, then the Inv transform iff Inv
                tA, tB = _T(factor=-1), (_T(transpose_axes=(1, 0)) if rank == 2 else _T(factor=-1, conj=True))
                xs = rnp.empty(shape, dtype=object)
                for idx in rnp.ndindex(*shape):
                    xs[idx] = SCplx(sreal("xr" + "_".join(map(str, idx))), sreal("xi" + "_".join(map(str, idx))))
                got = s1.transform_tensor(xs, rank, tA, tB)
                want = rnp.empty(shape, dtype=object)
                for idx in rnp.ndindex(*shape):
                    l, t = idx[:lead], idx[lead:]
                    tot = SCplx(0, 0)
                    for src in itertools.product(range(3), repeat=rank):
                        coef = 1
                        for a, b in zip(t, src):
                            coef = coef * s1.R[a, b]
                        tot = tot + SCplx.of(xs[l + src]) * coef
                    want[idx] = tot
                if s1.TR:
                    tA(want)
                if s1.Inv:
                    tB(want)
                U.ensure("transform_tensor = rotate all tensor axes, then transformTR iff TR, then transformInv iff Inv (distinct transforms in the two slots)",
                         all(_valid(SCplx.of(got[idx]) == SCplx.of(want[idx])) for idx in rnp.ndindex(*shape)))
            if rank == 1 and lead == 0:
                y = s1.transform_tensor(x, rank, _T(), _T())
                U.ensure("rank-1: components transform as R x", all(_valid(lift(y[i]) == _sum3([s1.R[i, j] * x[j] for j in range(3)])) for i in range(3)))
        U.run(body, check_feasible=False)


def _sum3(xs):
    return xs[0] + xs[1] + xs[2]


for _r, _l in ((0, 1), (1, 0), (1, 1), (2, 0), (2, 1), (3, 0)):
    _action_unit(_r, _l)


@unit("C09", "Transform.__call__", scope="shape:rank<=3 tensors with one leading axis; all pre-defined transforms", expect_min=3)
def _transform(U):
    f = U.fn(F, "Transform.__call__", globs=dict(np=Shim(symbolic_zeros=False)), model=False)
    _T.call = f

    def body():
        x = rnp.empty((2, 3, 3), dtype=object)
        for idx in rnp.ndindex(2, 3, 3):
            x[idx] = SCplx(sreal("xr_%d%d%d" % idx), sreal("xi_%d%d%d" % idx))
        for name, t, spec in (("ident", _T(), lambda v, i, a, b: v[i, a, b]),
                              ("odd", _T(factor=-1), lambda v, i, a, b: -v[i, a, b]),
                              ("trans", _T(transpose_axes=(1, 0)), lambda v, i, a, b: v[i, b, a]),
                              ("odd conj trans", _T(factor=-1, conj=True, transpose_axes=(1, 0)), lambda v, i, a, b: -v[i, b, a].conj()),
                              ("swap", _T(swap_axes=(1, 2)), lambda v, i, a, b: v[i, b, a])):
            y = x.copy()
            t(y)
            ok = all(_valid((SCplx.of(y[i, a, b]) == SCplx.of(spec(x, i, a, b)))) for i, a, b in rnp.ndindex(2, 3, 3))
            U.ensure("%s: element-wise definition (permute the last axes, conjugate, factor)" % name, ok)
            t(y)
            ok2 = all(_valid(SCplx.of(y[i, a, b]) == SCplx.of(x[i, a, b])) for i, a, b in rnp.ndindex(2, 3, 3))
            U.ensure("%s applied twice is the identity (involution: precondition of the action law)" % name, ok2)
    U.run(body, check_feasible=False)


@unit("C09", "PointSymmetry.transform_reduced_vector", scope="shape:symbolic R and vector; 4 concrete rational bases", expect_min=2, timeout_ms=60000)
def _reduced(U):
    PS, fns = _build(U)
    from fractions import Fraction as Fr
    bases = [[[1, 0, 0], [0, 1, 0], [0, 0, 1]], [[2, 0, 0], [0, 3, 0], [0, 0, 5]], [[1, 1, 0], [0, 1, 2], [3, 0, 1]], [[1, Fr(1, 2), 0], [Fr(-1, 2), 1, 0], [0, Fr(1, 3), 2]]]

    def inv3(B):
        det = (B[0][0] * (B[1][1] * B[2][2] - B[1][2] * B[2][1]) - B[0][1] * (B[1][0] * B[2][2] - B[1][2] * B[2][0]) + B[0][2] * (B[1][0] * B[2][1] - B[1][1] * B[2][0]))
        out = [[None] * 3 for _ in range(3)]
        for i in range(3):
            for j in range(3):
                r = [k for k in range(3) if k != j]
                c = [k for k in range(3) if k != i]
                out[i][j] = Fr((-1) ** (i + j)) * (B[r[0]][c[0]] * B[r[1]][c[1]] - B[r[0]][c[1]] * B[r[1]][c[0]]) / det
        return out

    def body():
        Bl = bases[ctx().choose(len(bases), "basis")]
        Bl = [[Fr(x) for x in row] for row in Bl]
        B = rnp.array(Bl, dtype=object)
        Binv = rnp.array(inv3(Bl), dtype=object)
        sh = Shim(overrides={"linalg.inv": lambda M: Binv})
        trv = U.fn(F, "PointSymmetry.transform_reduced_vector", globs=dict(np=sh), model=False)
        d1 = (1, -1)[ctx().choose(2, "det R1")]
        t1 = bool(ctx().choose(2, "TR1"))
        s1, R1 = _make(PS, "R1", d1, t1)
        d2 = (1, -1)[ctx().choose(2, "det R2")]
        s2, R2 = _make(PS, "R2", d2, False)
        v = sym_real_array("v", (3,))
        out = trv(s1, v, B)
        k = [v[0] * B[0, j] + v[1] * B[1, j] + v[2] * B[2, j] for j in range(3)]
        kk = [s1.iTR * s1.iInv * _sum3([s1.R[i, j] * k[j] for j in range(3)]) for i in range(3)]
        back = [_sum3([out[a] * B[a, j] for a in range(3)]) for j in range(3)]
        U.ensure("the transformed reduced vector, re-expressed in Cartesian coordinates, equals iTR iInv R (v B)", all(_valid(lift(back[j]) == lift(kk[j])) for j in range(3)))
        PS._det = d1 * d2
        p = s1 * s2
        a = trv(p, v, B)
        b = trv(s1, trv(s2, v, B), B)
        U.ensure("composition law in reduced coordinates: (s1*s2)(v) == s1(s2(v))", all(_valid(lift(a[j]) == lift(b[j])) for j in range(3)))
    U.run(body, check_feasible=False)
    U.external("np.linalg.inv: the exact inverse (here computed with rationals for the four bases)")


# ------------------------------------------------------------------ closure loop of PointGroup.__init__ on abstract groups
def _tables():
    out = {}
    for n in (1, 2, 3, 4, 6):
        out["Z%d" % n] = [[(a + b) % n for b in range(n)] for a in range(n)]
    out["Z2xZ2"] = [[a ^ b for b in range(4)] for a in range(4)]
    perms = list(itertools.permutations(range(3)))
    out["S3"] = [[perms.index(tuple(p[q[i]] for i in range(3))) for q in perms] for p in perms]
    # D4 as permutations of the square's corners
    r = (1, 2, 3, 0)
    m = (1, 0, 3, 2)
    els = [tuple(range(4))]
    changed = True
    while changed:
        changed = False
        for a in list(els):
            for g in (r, m):
                c = tuple(a[g[i]] for i in range(4))
                if c not in els:
                    els.append(c)
                    changed = True
    out["D4"] = [[els.index(tuple(a[b[i]] for i in range(4))) for b in els] for a in els]
    return out


@unit("C09", "PointGroup.__init__ closure loop", scope="shape:abstract groups Z1..Z6, Z2xZ2, S3, D4; every generator subset", expect_min=1)
def _closure(U):
    tabs = _tables()

    def body():
        bad = []
        for gname, tab in tabs.items():
            n = len(tab)

            class El:
                def __init__(self, i): self.i = i
                def __mul__(self, o): return El(tab[self.i][o.i])
                def __eq__(self, o): return self.i == o.i
                def __hash__(self): return self.i
            ident = [i for i in range(n) if all(tab[i][j] == j for j in range(n))][0]
            f = U.fn(F, "PointGroup.__init__", globs=dict(np=rnp, PointSymmetry=El, Identity=El(ident), from_string_prod=lambda s: El(int(s)),
                                                         real_recip_lattice=lambda real_lattice=None, recip_lattice=None: (None, None)), model=False)
            for r in range(0, min(n, 3) + 1):
                for gens in itertools.combinations(range(n), r):
                    me = _Obj()
                    me.check_basis_symmetry = lambda b: True
                    f(me, generator_list=[El(g) for g in gens])
                    got = sorted(e.i for e in me.symmetries)
                    sub = {ident} | set(gens)
                    ch = True
                    while ch:
                        ch = False
                        for a in list(sub):
                            for b in list(sub):
                                if tab[a][b] not in sub:
                                    sub.add(tab[a][b])
                                    ch = True
                    want = sorted(sub) if gens else [ident]
                    if got != want or len(got) != len(set(got)):
                        bad.append((gname, gens, got, want))
        U.ensure("the list produced by the closure loop is exactly the subgroup generated (closed under *, duplicate free, identity and inverses present)", not bad)
        if bad:
            ctx().ghost["bad"] = bad[:3]
    U.run(body, check_feasible=False)
    U.assumption("a finite set closed under an associative cancellative product is a group (identity and inverses follow); checked here by comparing with the generated subgroup")


# ------------------------------------------------------------------ bounded stand-in: concrete crystallographic groups
GENS = [[], ["Inversion"], ["C2z"], ["Mz"], ["C2z", "Inversion"], ["C2x", "C2y"], ["Mx", "My"], ["C2x", "C2y", "Inversion"], ["C4z"], ["C4z*Inversion"],
        ["C4z", "Inversion"], ["C4z", "C2x"], ["C4z", "Mx"], ["C4z*Inversion", "C2x"], ["C4z", "C2x", "Inversion"], ["C3z"], ["C3z", "Inversion"], ["C3z", "C2x"],
        ["C3z", "Mx"], ["C3z", "C2x", "Inversion"], ["C6z"], ["C3z", "Mz"], ["C6z", "Inversion"], ["C6z", "C2x"], ["C6z", "Mx"], ["C3z", "Mz", "C2x"],
        ["C6z", "C2x", "Inversion"], ["C4z", "C4x"], ["C4z", "C4x", "Inversion"]]


def _real_groups(rng, n):
    from wannierberri.symmetry.point_symmetry import PointGroup, transform_ident, transform_odd, transform_trans
    fails, cases = [], 0
    cubic = rnp.eye(3) * 1.7
    tetra = rnp.diag([1.0, 1.0, 1.4])
    hexa = rnp.array([[1, 0, 0], [-0.5, rnp.sqrt(3) / 2, 0], [0, 0, 1.3]])
    gens_list = GENS if n > 30 else GENS[::3] + [GENS[-1]]
    for gens in gens_list:
        for withTR in (False, True):
            g = list(gens) + (["TimeReversal"] if withTR else [])
            lat = hexa if any("C3" in x or "C6" in x for x in g) else (cubic if any("C4x" in x for x in g) else tetra)
            with contextlib.redirect_stdout(io.StringIO()):
                pg = PointGroup(g, real_lattice=lat)
            cases += 1
            S = pg.symmetries
            bad = []
            if not all((a * b) in S for a in S for b in S):
                bad.append("not closed")
            if not any(rnp.allclose(s.R, rnp.eye(3)) and not s.TR and not s.Inv for s in S):
                bad.append("no identity")
            if not all(any(rnp.allclose((a * b).R, rnp.eye(3)) and not (a * b).TR and not (a * b).Inv for b in S) for a in S):
                bad.append("inverse missing")
            if sum(1 for i, a in enumerate(S) for b in S[i + 1:] if a == b):
                bad.append("duplicate elements")
            if not (pg.check_basis_symmetry(pg.real_lattice) and pg.check_basis_symmetry(pg.recip_lattice)):
                bad.append("lattice not invariant")
            rs = rnp.random.RandomState(rng.randint(0, 10 ** 6))
            for rank, tTR, tInv in ((1, transform_odd, transform_odd), (2, transform_ident, transform_ident), (2, transform_odd, transform_trans), (3, transform_odd, transform_ident)):
                x = rs.rand(*([2] + [3] * rank))
                P = pg.symmetrize_tensor(x, transformTR=tTR, transformInv=tInv, rank=rank)
                PP = pg.symmetrize_tensor(P, transformTR=tTR, transformInv=tInv, rank=rank)
                if not rnp.allclose(P, PP, atol=1e-12):
                    bad.append("symmetrize not idempotent (rank %d)" % rank)
                if not all(rnp.allclose(s.transform_tensor(P, rank, tTR, tInv), P, atol=1e-12) for s in S):
                    bad.append("symmetrized tensor not invariant (rank %d)" % rank)
            for k in (rs.rand(3), rnp.array([0.5, 0.0, 0.0]), rnp.array([0.0, 0.0, 0.0]), rnp.array([1 / 3, 1 / 3, 0.0]), rnp.array([0.5, 0.5, 0.5]), rnp.array([0.25, 0.25, 0.0])):
                st = pg.star(k)
                imgs = [s.transform_reduced_vector(k, pg.recip_lattice) for s in S]
                d = st[:, None, :] - st[None, :, :]
                dist = rnp.linalg.norm(d - rnp.round(d), axis=-1) + rnp.eye(len(st))
                if (dist < 1e-6).any():
                    bad.append("star lists an image twice for k=%s" % k.tolist())
                if not all(min(rnp.linalg.norm((im - s_) - rnp.round(im - s_)) for s_ in st) < 1e-6 for im in imgs):
                    bad.append("star misses an image for k=%s" % k.tolist())
            if bad:
                fails.append(dict(input=dict(generators=g), clause="group axioms / projection / star", failed=bad[:4]))
    return dict(cases=cases, failures=fails, distinct=cases)


Unit("C09", "crystallographic point groups [real objects]", concrete=_real_groups,
     bounded_desc="point groups from standard generators (10 groups quick / 29 thorough, each with and without time reversal) on cubic/tetragonal/hexagonal lattices: closure, identity, inverses, lattice invariance, symmetrize idempotent+invariant for ranks 1-3, star on generic and high-symmetry k")


@unit("C09", "PointGroup.symmetric_grid / check_basis_symmetry", scope="shape:5 groups on cubic/tetragonal/hexagonal/fcc/monoclinic lattices, every grid with 1..4 points per direction", expect_min=1)
def _symgrid(U):
    import math
    cbs = U.fn(F, "PointGroup.check_basis_symmetry", globs=dict(np=rnp), model=False)
    sg = U.fn(F, "PointGroup.symmetric_grid", globs=dict(np=rnp), model=False)

    def rot(n, axis):
        axis = rnp.array(axis, dtype=float) / rnp.linalg.norm(axis)
        a = 2 * math.pi / n
        K = rnp.array([[0, -axis[2], axis[1]], [axis[2], 0, -axis[0]], [-axis[1], axis[0], 0]])
        return rnp.eye(3) + math.sin(a) * K + (1 - math.cos(a)) * K @ K

    class S:
        def __init__(self, R, sign=1):
            self.R, self.sign = R, sign

        def transform_reduced_vector(self, vec, basis):
            return vec @ (basis @ self.R.T @ rnp.linalg.inv(basis)) * self.sign
    cases = [("cubic C4z,C4x", rnp.eye(3), [rot(4, [0, 0, 1]), rot(4, [1, 0, 0])]),
             ("tetragonal C4z", rnp.diag([1, 1, 1.4]), [rot(4, [0, 0, 1])]),
             ("hexagonal C2x", rnp.array([[1, 0, 0], [-0.5, 0.75 ** 0.5, 0], [0, 0, 1.3]]), [rot(2, [1, 0, 0])]),
             ("hexagonal C6z", rnp.array([[1, 0, 0], [-0.5, 0.75 ** 0.5, 0], [0, 0, 1.3]]), [rot(6, [0, 0, 1])]),
             ("fcc C3(111)", rnp.array([[0, 1, 1], [1, 0, 1], [1, 1, 0]]) * 0.5, [rot(3, [1, 1, 1])]),
             ("monoclinic C2y", rnp.array([[1, 0, 0], [0, 1.2, 0], [0.3, 0, 1.4]]), [rot(2, [0, 1, 0])])]

    def body():
        bad = []
        for name, real, gens in cases:
            recip = 2 * math.pi * rnp.linalg.inv(real).T
            ops = [rnp.eye(3)]
            ch = True
            while ch:
                ch = False
                for a in list(ops):
                    for g in gens:
                        c_ = a @ g
                        if not any(rnp.allclose(c_, o) for o in ops):
                            ops.append(c_)
                            ch = True
            me = type("PG", (), {})()
            me.symmetries = [S(o) for o in ops] + [S(o, -1) for o in ops]
            me.recip_lattice = recip
            me.check_basis_symmetry = lambda basis, tol=1e-6, rel_tol=None: cbs(me, basis, tol=tol, rel_tol=rel_tol)
            for nk in itertools.product(range(1, 5), repeat=3):
                got = bool(sg(me, nk))
                # definition: the mesh generated by b_i / nk_i is mapped onto itself by every operation, i.e. each operation written in the
                # basis b_i/nk_i is an integer matrix
                B = recip / rnp.array(nk, dtype=float)[:, None]
                want = all(abs(rnp.round(B @ o.T @ rnp.linalg.inv(B)) - B @ o.T @ rnp.linalg.inv(B)).max() < 1e-5 for o in ops)
                if got != want:
                    bad.append((name, nk, got, want))
        U.ensure("symmetric_grid(nk) is true exactly when every operation maps the mesh spanned by b_i/nk_i onto itself (incl. non-uniform grids on non-orthogonal lattices)", not bad)
        if bad:
            ctx().ghost["bad"] = bad[:3]
    U.run(body, check_feasible=False)


@unit("C09", "generators given as product strings: 'A*B*C' is the composition A . B . C in the written order", expect_min=2, scope="shape:1-4 factors, non-commuting stub operations")
def _product_strings(U):
    from collections.abc import Iterable

    class Op:
        def __init__(self, word):
            self.word = word

        def __mul__(self, o):
            return Op(self.word + o.word)
    ident = Op("")
    prod = U.fn(F, "product", globs=dict(Iterable=Iterable, Identity=ident), model=False)
    table = {n: Op("<" + n + ">") for n in ("C4z", "C2x", "Mz", "TimeReversal")}

    def from_string(x):
        return table[x]
    fsp = U.fn(F, "from_string_prod", globs=dict(product=prod, from_string=from_string), model=False)

    def body():
        ok = all(prod([table[n] for n in names]).word == "".join("<" + n + ">" for n in names)
                 for names in (["C4z"], ["C4z", "C2x"], ["C2x", "C4z"], ["Mz", "C4z", "C2x"], ["TimeReversal", "C2x", "Mz", "C4z"]))
        U.ensure("product([A, B, C]) = A * B * C (left to right), a single factor is itself", ok)
        ok2 = fsp("C4z*C2x").word == "<C4z><C2x>" and fsp("C2x*C4z").word == "<C2x><C4z>" and fsp("Mz").word == "<Mz>" and fsp("TimeReversal*C4z*Mz").word == "<TimeReversal><C4z><Mz>"
        try:
            fsp("C4z*Q9")
            ok2 = False
        except ValueError:
            pass
        U.ensure("from_string_prod('A*B') = A * B with the factors looked up by name in the written order; an unknown factor is refused", ok2)
    U.run(body, check_feasible=False)
