"""C18  System files round-trip.

Under contract:
  system/system_hr.py::read_WCC_WT_format   UNBOUNDED in the number of Wannier functions n: for the file layout produced by the
        writer (even rows first, then odd rows) the array returned is the original, row by row -- including the slice-length
        agreement of the two assignments.
  system/system_hr.py::write_WCC_WT_format  per shape n = 1..7 (symbolic centres as tokens): the token stream is rows 0,2,4,..
        then 1,3,5,.. (the layout assumed above), three tokens per row.
Bounded stand-in (real files, real functions): npz directory, _tb.dat and _hr.dat + WT-centre file round trips of random
Hermitian systems with num_wann = 1..5 (odd and even), compared on lattice, centres, R-vectors and matrices (to printed
precision), and on the band energies at random k-points.
"""
import contextlib
import itertools
import io
import os
import shutil
import tempfile

import numpy as rnp
import z3
from pyvc.core import ctx, sint, sreal, land, implies, forall, lift, SNum, ite, conc
from pyvc.arr import sym_array, SArr
from pyvc.unit import unit, Unit
from pyvc.npmodel import np as NP

FH = "wannierberri/system/system_hr.py"


class _Lines:
    """r.readlines(): n lines, line i holding the three tokens of file row i"""

    def __init__(self, n, F):
        self.n, self.F = n, F

    def sym_len(self):
        return self.n

    def sym_comp(self, kind, f, conds):
        F = self.F

        class Line:
            def __init__(self, i): self.i = i
            def split(self): return [F.get((self.i, c)) for c in range(3)]
        probe = f(Line(sint("probe_line")))
        if not (isinstance(probe, list) and len(probe) == 3):
            from pyvc.core import Undecided
            raise Undecided("row parser does not return three numbers")
        return SArr((self.n, 3), lambda idx: f(Line(idx[0]))[conc(idx[1])], "real")


def _replay_wcc(mv, ob):
    from wannierberri.system.system_hr import write_WCC_WT_format, read_WCC_WT_format
    n = int(mv.get("num_wann", 3))
    n = n if 1 <= n <= 40 else 3
    d = tempfile.mkdtemp(prefix="verif_c18w_")
    try:
        D = rnp.arange(3.0 * n).reshape(n, 3) + 0.5
        write_WCC_WT_format(os.path.join(d, "s"), D)
        back = read_WCC_WT_format(os.path.join(d, "s"))
        ok = back.shape == D.shape and rnp.allclose(back, D)
        return dict(reproduced=not ok, input=dict(num_wann=n), clause="read_WCC_WT_format(write_WCC_WT_format(x)) == x")
    finally:
        shutil.rmtree(d, ignore_errors=True)


@unit("C18", "read_WCC_WT_format", array_mode="uf", expect_min=3, replay=_replay_wcc)
def _reader(U):
    st = {}

    class FHandle:
        def readlines(self): return st["lines"]
        def close(self): pass
    f = U.fn(FH, "read_WCC_WT_format", globs=dict(np=NP, open=lambda p, m="r": FHandle()))

    def body():
        n = sint("num_wann")
        ctx().assume(n >= 1)
        D = sym_array("centres", (n, 3), "real")      # the original array handed to the writer
        half = (n + 1) // 2                             # number of even rows 0,2,4,...
        # file layout produced by write_WCC_WT_format (proved per shape below): F[t] = D[2t] (t < ceil(n/2)), F[ceil(n/2)+t] = D[2t+1]
        F = SArr((n, 3), lambda idx: ite(lift(idx[0]) < half, D.get((2 * lift(idx[0]), idx[1])),
                                         D.get((2 * (lift(idx[0]) - half) + 1, idx[1]))), "real")
        st["lines"] = _Lines(n, F)
        res = f("seed")
        U.ensure("result has n rows", lift(res.shape[0]) == n)
        for c in range(3):
            U.ensure("row r of the result is row r of the original (column %d), for every r < n" % c,
                     forall(lambda r: implies(land(r >= 0, r < n), res.get((r, c)) == D.get((r, c))), name="rows"))
        return res
    U.run(body)
    U.assumption("text model: float(token) returns the number written, to printed precision")


def _writer_unit(n):
    @unit("C18", "write_WCC_WT_format[n=%d]" % n, scope="shape:n=%d" % n, expect_min=1)
    def _w(U):
        cap = []

        class W:
            def write(self, s): cap.append(s)
            def close(self): pass
        f = U.fn(FH, "write_WCC_WT_format", globs=dict(np=rnp, open=lambda p, m="r": W()), model=False)

        def body():
            del cap[:]
            D = rnp.empty((n, 3), dtype=object)
            for i in range(n):
                for c in range(3):
                    D[i, c] = 10.0 * i + c + 0.5          # concrete, exactly representable, |x| > 1e-7: the writer branches on |x|
            f("seed", D)
            rows = [l.split() for l in "".join(cap).split("\n") if l.strip()]
            order = list(range(0, n, 2)) + list(range(1, n, 2))
            U.ensure("one row per Wannier function, three numbers each", len(rows) == n and all(len(r) == 3 for r in rows))
            U.ensure("rows are written in the order 0,2,4,... then 1,3,5,...",
                     all([float(x) for x in rows[t]] == [D[order[t], c] for c in range(3)] for t in range(len(rows))))
        U.run(body, check_feasible=False)


for _n in range(1, 8):
    _writer_unit(_n)


@unit("C18", "write_WCC_WT_format[component classes]", scope="shape:n=2,3; every combination of zero / below-threshold / ordinary components in one row", expect_min=1)
def _wclasses(U):
    import itertools
    cap = []

    class W:
        def write(self, s): cap.append(s)
        def close(self): pass
    f = U.fn(FH, "write_WCC_WT_format", globs=dict(np=rnp, open=lambda p, m="r": W()), model=False)

    def body():
        bad = []
        vals = (0.0, 3e-8, -2.5, 1.25)
        for n in (2, 3):
            for row in range(n):
                for combo in itertools.product(vals, repeat=3):
                    del cap[:]
                    D = rnp.array([[10.0 * i + c + 0.5 for c in range(3)] for i in range(n)])
                    D[row] = combo
                    f("seed", D)
                    rows = [[float(x) for x in l.split()] for l in "".join(cap).split("\n") if l.strip()]
                    order = list(range(0, n, 2)) + list(range(1, n, 2))
                    want = [[(x if abs(x) > 1e-7 else 0.0) for x in D[order[t]]] for t in range(n)]
                    if rows != want:
                        bad.append((n, row, combo))
        U.ensure("every component is written as itself (or as 0 when |x| <= 1e-7, independently of the other components), rows even-then-odd", not bad)
        if bad:
            ctx().ghost["bad"] = bad[:3]
    U.run(body, check_feasible=False)


# ------------------------------------------------------------------ bounded stand-in: real files
def _herm_system(nw, seed):
    from wannierberri.system.system_R import System_R
    rnp.random.seed(seed)
    s = System_R.from_random(num_wann=nw, nRvec=27, max_R=1, berry=True, real_lattice=rnp.diag([1.0, 1.0, 1.7]))
    for key in list(s._XX_R.keys()):
        X = s.get_R_mat(key)
        s.set_R_mat(key, 0.5 * (X + s.rvec.conj_XX_R(X)), reset=True)
    # centres on and off the axes (zero components included), a non-zero on-site position matrix element, a magnetic point group
    wcc = rnp.random.rand(nw, 3)
    wcc[0] = [0.0, 0.0, 0.37]
    if nw > 1:
        wcc[1] = [0.21, 0.0, 0.53]
    s.wannier_centers_cart = wcc
    AA = s.get_R_mat("AA").copy()
    AA[s.rvec.iR0, rnp.arange(nw), rnp.arange(nw), :] = 0.1 * rnp.random.rand(nw, 3)
    s.set_R_mat("AA", AA, reset=True)
    s.clear_cached_wcc() if hasattr(s, "clear_cached_wcc") else None
    s.set_pointgroup(symmetry_gen=["C4z", "TimeReversal*C2x"])
    return s


def _bands(system, ks):
    import wannierberri as wb
    out = []
    for k in ks:
        e = wb.evaluate_k(system, k=k, quantities=["energy"])
        out.append(e["energy"] if isinstance(e, dict) else e)
    return rnp.array(out)


def _compare(a, b, tol, what, bad, ks):
    if not rnp.allclose(a.real_lattice, b.real_lattice, atol=tol):
        bad.append(what + ": lattice")
    # the _tb.dat format stores the position matrix in convention II (on-site element + centre): with a non-zero on-site element the
    # split into centre and matrix is not recoverable, only the sum is (compared below); the centres themselves are compared for npz / _hr.dat
    if a.num_wann != b.num_wann or (what != "_tb.dat" and not rnp.allclose(a.wannier_centers_cart, b.wannier_centers_cart, atol=max(tol, 2e-7))):
        bad.append(what + ": wannier centres")
    ea, eb = _bands(a, ks), _bands(b, ks)
    if ea.shape != eb.shape or not rnp.allclose(ea, eb, atol=max(tol * 50, 1e-9)):
        bad.append(what + ": band energies at k (max diff %.2e)" % (abs(ea - eb).max() if ea.shape == eb.shape else -1))
    if what == "npz":
        ga = sorted((rnp.round(x.R * x.iInv, 6).tolist(), bool(x.TR)) for x in a.pointgroup.symmetries)
        gb = sorted((rnp.round(x.R * x.iInv, 6).tolist(), bool(x.TR)) for x in b.pointgroup.symmetries)
        if ga != gb:
            bad.append(what + ": point group operations differ after reload")
    # R-space matrices compared as maps R -> matrix
    for key in ("Ham", "AA") if what in ("npz", "_tb.dat", "_tb.dat+centres") else ("Ham",):
        def conv2(sys_, key_):
            X = sys_.get_R_mat(key_).copy()
            if key_ == "AA":
                X[sys_.rvec.iR0, rnp.arange(sys_.num_wann), rnp.arange(sys_.num_wann), :] += sys_.wannier_centers_cart
            return X
        Xa, Xb = conv2(a, key), conv2(b, key)
        da = {tuple(int(x) for x in R): Xa[i] for i, R in enumerate(a.rvec.iRvec)}
        db = {tuple(int(x) for x in R): Xb[i] for i, R in enumerate(b.rvec.iRvec)}
        for R in set(da) | set(db):
            x = da.get(R, 0 * next(iter(da.values())))
            y = db.get(R, 0 * next(iter(db.values())))
            if not rnp.allclose(x, y, atol=tol * 10):
                bad.append(what + ": %s(R=%s)" % (key, R))
                break


def _real_roundtrips(rng, n):
    import wannierberri as wb
    from wannierberri.system.system_R import System_R
    fails, cases = [], 0
    sizes = [1, 2, 5] if n <= 30 else [1, 2, 3, 4, 5, 6]
    for nw in sizes:
        seed = rng.randint(0, 10 ** 6)
        d = tempfile.mkdtemp(prefix="verif_c18_")
        bad = []
        try:
            with contextlib.redirect_stdout(io.StringIO()):
                s = _herm_system(nw, seed)
                ks = rnp.random.rand(3, 3)
                # npz directory
                s.to_npz(os.path.join(d, "npz"))
                s2 = System_R.from_npz(os.path.join(d, "npz"))
                _compare(s, s2, 1e-12, "npz", bad, ks)
                # _tb.dat
                s.to_tb_file(tb_file=os.path.join(d, "sys_tb.dat"))
                s3 = System_R.from_tb_file(tb_file=os.path.join(d, "sys_tb.dat"), berry=True)
                _compare(s, s3, 1e-7, "_tb.dat", bad, ks)
                # _tb.dat read with the documented centres override: now the split (centre, on-site position element) is recoverable and must come back
                s3b = System_R.from_tb_file(tb_file=os.path.join(d, "sys_tb.dat"), berry=True, wannier_centers_cart=s.wannier_centers_cart.copy())
                _compare(s, s3b, 1e-7, "_tb.dat+centres", bad, ks)
                if not rnp.allclose(s3b.get_R_mat("AA")[s3b.rvec.iR0], s.get_R_mat("AA")[s.rvec.iR0], atol=1e-6):
                    bad.append("_tb.dat+centres: AA(R=0) in the system's own convention")
                # _hr.dat + WT centres
                s.to_hr_file(seedname=os.path.join(d, "sys"))
                s4 = System_R.from_hr_file(os.path.join(d, "sys"), real_lattice=s.real_lattice)
                _compare(s, s4, 1e-5, "_hr.dat", bad, ks)
        finally:
            shutil.rmtree(d, ignore_errors=True)
        cases += 1
        if bad:
            fails.append(dict(input=dict(num_wann=nw, seed=seed), clause="reloaded system == saved system", failed=bad))
    # R-sets of other sizes: the text formats write the degeneracies 15 to a line, so sizes around and at multiples of 15 are the layout's corner cases
    for nR in (13, 15, 17, 45) if n <= 30 else (1, 3, 13, 15, 17, 29, 31, 45, 75):
        seed = rng.randint(0, 10 ** 6)
        d = tempfile.mkdtemp(prefix="verif_c18_")
        bad = []
        try:
            with contextlib.redirect_stdout(io.StringIO()):
                nw = 1 + nR % 3
                s = _pair_system(nw, (nR - 1) // 2, seed)
                ks = rnp.random.rand(3, 3)
                for what, back in (("_hr.dat", lambda: (s.to_hr_file(seedname=os.path.join(d, "sys")), System_R.from_hr_file(os.path.join(d, "sys"), real_lattice=s.real_lattice))[1]),
                                   ("_tb.dat", lambda: (s.to_tb_file(tb_file=os.path.join(d, "sys_tb.dat")), System_R.from_tb_file(tb_file=os.path.join(d, "sys_tb.dat"), berry=True))[1])):
                    try:
                        _compare(s, back(), 1e-5 if what == "_hr.dat" else 1e-7, what, bad, ks)
                    except Exception as e:
                        bad.append("%s: %s: %s" % (what, type(e).__name__, e))
        finally:
            shutil.rmtree(d, ignore_errors=True)
        cases += 1
        if bad:
            fails.append(dict(input=dict(num_wann=nw, nRvec=nR, seed=seed), clause="reloaded system == saved system", failed=bad))
    return dict(cases=cases, failures=fails, distinct=cases)


def _pair_system(nw, npairs, seed):
    """Hermitian System_R on R = 0 and `npairs` pairs +-R (2*npairs + 1 vectors), built directly"""
    from wannierberri.system.system_R import System_R
    from wannierberri.fourier.rvectors import Rvectors
    rs = rnp.random.RandomState(seed)
    latt = rnp.array([[3.0, 0.1, 0.0], [0.2, 3.5, 0.0], [0.0, 0.3, 4.0]])
    half = [R for R in itertools.product(range(0, 4), range(-3, 4), range(-3, 4)) if R > (0, 0, 0)]
    pos = [half[i] for i in rs.permutation(len(half))[:npairs]]
    iR = rnp.array([(0, 0, 0)] + pos + [tuple(-x for x in R) for R in pos], dtype=int)
    idx = {tuple(int(x) for x in R): i for i, R in enumerate(iR)}
    H = rs.normal(size=(len(iR), nw, nw)) + 1j * rs.normal(size=(len(iR), nw, nw))
    A = rs.normal(size=(len(iR), nw, nw, 3)) + 1j * rs.normal(size=(len(iR), nw, nw, 3))
    H2, A2 = H.copy(), A.copy()
    for R, i in idx.items():
        j = idx[tuple(-x for x in R)]
        H2[i] = 0.5 * (H[i] + H[j].conj().T)
        A2[i] = 0.5 * (A[i] + A[j].conj().transpose(1, 0, 2))
    A2[0, rnp.arange(nw), rnp.arange(nw)] = 0
    s = System_R(name="pairs")
    s.real_lattice = latt
    s.num_wann = nw
    s.wannier_centers_cart = rs.uniform(-1, 1, size=(nw, 3))
    s.clear_cached_wcc()
    s.rvec = Rvectors(lattice=latt, iRvec=iR, shifts_left_red=s.wannier_centers_red)
    s.set_R_mat("Ham", H2)
    s.set_R_mat("AA", A2)
    s.do_at_end_of_init()
    return s


Unit("C18", "npz / _tb.dat / _hr.dat round trips [real files]", concrete=_real_roundtrips,
     bounded_desc="random Hermitian System_R (27 R-vectors, AA matrices), num_wann = 1,2,5 (quick) / 1..6 (thorough); R-sets of 13, 15, 17, 45 vectors (the 15-per-line layout's corner cases; thorough: 1..75) through _hr.dat and _tb.dat: lattice, centres, Ham(R), band energies at 3 random k")
