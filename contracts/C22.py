"""C22  Finite-difference b-vectors satisfy the completeness relation.

Under contract (real text):
  w90files/bkvectors.py::BKVectors.find_G_and_neighbours   exhaustive: every Monkhorst-Pack mesh with 1..3 points per direction (and 4x2x1),
        k-points in shuffled order, b-vector sets with short, long (beyond one period) and negative components: for every k and b
        k + b = k_neighbour + G*N in mesh units; an incomplete mesh raises.
  w90files/bkvectors.py::BKVectors.get_shell_weights       SYMBOLIC shell vectors and an arbitrary (symbolic) SVD result: on every path that
        returns arrays the guard  || sum_s w_s M_s - 1 || <= bk_complete_tol  has been passed AND the flattened arrays satisfy
        sum_b wk[b] b_i b_j = sum_s w_s M_s exactly, so the completeness relation holds within the tolerance for WHATEVER the SVD returned;
        weights are constant on a shell, shells are emitted whole and in order, lattice and Cartesian vectors stay paired.
  w90files/bkvectors.py::BKVectors.k_to_shells             concrete vector sets: blocks are the maximal runs of the length-sorted non-zero
        vectors with gaps <= tolerance; lattice and Cartesian vectors stay paired.
Bounded stand-in: find_bk_vectors on lattices of the seven crystal systems and several meshes -- completeness, closure under b -> -b with
equal weights, whole shells of mesh vectors, neighbours.
"""
import contextlib
import io
import itertools
import random

import numpy as rnp
import z3
from pyvc.core import ctx, sreal, land, lift, SNum, ssqrt
from pyvc.unit import unit, Unit
from pyvc.npshim import Shim, sym_real_array

F = "wannierberri/w90files/bkvectors.py"


def _valid(c):
    s = z3.Solver()
    s.add(z3.Not(c.t))
    return s.check() == z3.unsat


@unit("C22", "BKVectors.find_G_and_neighbours", scope="shape:meshes 1..3 per direction + 4x2x1, shuffled k-points", expect_min=2)
def _neigh(U):
    f = U.fn(F, "BKVectors.find_G_and_neighbours", globs=dict(np=rnp), model=False)

    def body():
        rs = random.Random(2)
        bad, bad_inc = [], []
        bks = rnp.array([[1, 0, 0], [0, 1, 0], [0, 0, -1], [-1, -1, 0], [1, 1, 1], [4, 0, -5], [0, -3, 2], [-7, 7, 0]])
        for grid in list(itertools.product((1, 2, 3), repeat=3)) + [(4, 2, 1)]:
            N = rnp.array(grid)
            pts = [(i, j, k) for i in range(grid[0]) for j in range(grid[1]) for k in range(grid[2])]
            rs.shuffle(pts)
            kred = rnp.array(pts, dtype=float) / N
            G, nb = f(None, kred, bks, N)
            kint = rnp.array(pts)
            for ik in range(len(pts)):
                for ib in range(len(bks)):
                    if not (kint[ik] + bks[ib] == kint[nb[ik][ib]] + G[ik][ib] * N).all() or not (0 <= nb[ik][ib] < len(pts)):
                        bad.append((grid, ik, ib))
            Gs, nbs = f(None, kred, bks, N, kptirr=[0]) if len(pts) else ({}, {})
            if list(Gs.keys()) != [0]:
                bad.append((grid, "kptirr"))
            if len(pts) > 1:
                try:
                    f(None, kred[1:], bks, N)
                    # removing one point must break some neighbour relation unless no b reaches it
                    reach = any(((kint[1:][:, None, :] + bks[None, :, :] - kint[0]) % N == 0).all(axis=-1).flatten())
                    if reach:
                        bad_inc.append(grid)
                except RuntimeError:
                    pass
        U.ensure("k + b = k_neighbour + G*N (in mesh units) for every k-point and b-vector, neighbour index valid, any listing order", not bad)
        U.ensure("a mesh with a missing point that some k+b needs is rejected", not bad_inc)
    U.run(body, check_feasible=False)


@unit("C22", "BKVectors.get_shell_weights", scope="shape:two shells of 2 and 4 vectors, symbolic vectors, arbitrary SVD output", expect_min=4, timeout_ms=60000)
def _weights(U):
    def svd(M, full_matrices=False):
        # an arbitrary outcome of the SVD as far as the code can tell: u = 1, s = 1, v symbolic -- the shell weights
        # sum_c eye_c v[s,c] then range over ALL real values independently per shell (solver hygiene: keeps the terms small)
        ns = M.shape[0]
        return rnp.eye(ns), rnp.ones(ns), sym_real_array("svd_v", (ns, 9))

    norm_defs = []

    def norm(X, axis=None):
        # Frobenius norm r of X:  r >= 0 and r^2 = sigma, sigma standing for the sum of squares (kept in a side table so that the
        # solver reasons about three atoms; the contract proves separately that its own sum of squares IS that polynomial)
        tot = 0
        for idx in rnp.ndindex(*X.shape):
            tot = tot + X[idx] * X[idx]
        k = len(norm_defs)
        sig, r = sreal("normsq_%d" % k), sreal("norm_%d" % k)
        ctx().assume(r >= 0)
        ctx().assume(r * r == sig)
        norm_defs.append((sig, tot))
        return r
    f = U.fn(F, "BKVectors.get_shell_weights", globs=dict(np=Shim(overrides={"linalg.svd": svd, "linalg.norm": norm}), print=lambda *a, **k: None), model=False)

    def body():
        del norm_defs[:]
        sizes = (2, 4)
        kc = [sym_real_array("kc%d" % s, (n, 3)) for s, n in enumerate(sizes)]
        kl = [rnp.array([[10 * s + i, i, -i] for i in range(n)]) for s, n in enumerate(sizes)]
        tol = sreal("bk_complete_tol")
        ctx().assume(tol > 0)
        out = f(None, kl, kc, bk_complete_tol=tol, msg_if_fail=True)
        if isinstance(out, str):
            U.ensure("a failure is reported by one of the two documented messages", out in ("zero singular value", "incomplete shells"))
            return out
        wk, bk_cart, bk_grid = out
        nb = sum(sizes)
        U.ensure("one weight and one lattice vector per Cartesian b-vector", wk.shape == (nb,) and bk_cart.shape == (nb, 3) and bk_grid.shape == (nb, 3))
        # shells emitted whole, in order, vectors paired
        pos = 0
        ok_pair, ok_w = True, True
        w_shell = []
        for s, n in enumerate(sizes):
            for i in range(n):
                ok_pair = ok_pair and all(bk_cart[pos + i, c] is kc[s][i, c] for c in range(3)) and (bk_grid[pos + i] == kl[s][i]).all()
                ok_w = ok_w and _valid(lift(wk[pos + i]) == lift(wk[pos]))
            w_shell.append(wk[pos])
            pos += n
        U.ensure("shells are emitted whole and in order; lattice and Cartesian vectors stay paired", ok_pair)
        U.ensure("the weight is constant on each shell", ok_w)
        # completeness within the tolerance, in two steps that keep the solver's work small:
        #  (1) sum_b w_b b_i b_j over the RETURNED arrays equals, entry by entry, the per-shell sum  sum_s w_s (K_s^T K_s)_ij  (flattening exact)
        #  (2) the Frobenius deviation of that per-shell sum from the identity is <= bk_complete_tol (this is what the guard let through)
        def M(i, j):
            tot = 0
            for b in range(nb):
                tot = tot + wk[b] * bk_cart[b, i] * bk_cart[b, j]
            return tot
        shell_mat = rnp.array([k_.T.dot(k_) for k_ in kc])
        CE = sum(w_ * m_ for w_, m_ in zip(w_shell, shell_mat))
        U.ensure("(1) sum_b w_b b_i b_j (returned arrays) = sum over shells of w_s K_s^T K_s, for all i, j",
                 lambda: land(*[lift(M(i, j)) == lift(CE[i, j]) for i in range(3) for j in range(3)]))
        D_ = CE - rnp.eye(3)
        dev = 0
        for idx in rnp.ndindex(*D_.shape):
            dev = dev + D_[idx] * D_[idx]
        if not norm_defs:
            from pyvc.core import Undecided
            raise Undecided("the completeness guard no longer goes through np.linalg.norm: the contract cannot bind to it (the stand-in decides)")
        sig, poly = norm_defs[-1]
        U.ensure("(2a) the squared Frobenius deviation of sum_s w_s K_s^T K_s from the identity is the quantity whose norm the code tested", lambda: lift(dev) == lift(poly))
        U.ensure("(2b) that quantity is <= bk_complete_tol^2 (the guard let it through): with (1) and (2a) the returned arrays satisfy the completeness relation within the tolerance, whatever the SVD returned",
                 lambda: sig <= tol * tol)
        return out
    U.run(body)
    U.external("np.linalg.svd: ANY triple of arrays of the right shapes (the obligation does not rely on it)")
    U.external("np.linalg.norm(X) = sqrt(sum X_ij^2)")


@unit("C22", "BKVectors.k_to_shells", scope="shape:concrete vector sets on 3 lattices", expect_min=1)
def _shells(U):
    f = U.fn(F, "BKVectors.k_to_shells", globs=dict(np=rnp), model=False)

    def body():
        bad = []
        for lat in (rnp.eye(3), rnp.diag([1.0, 1.0, 1.3]), rnp.array([[1, 0, 0], [-0.5, 0.75 ** 0.5, 0], [0, 0, 1.1]])):
            kl = rnp.array([(i, j, k) for i in range(-2, 3) for j in range(-2, 3) for k in range(-2, 3)])
            kc = kl @ lat
            for tol in (1e-7, 0.05):
                sl, sc = f(None, kl, kc, kmesh_tol=tol)
                lens = [rnp.linalg.norm(s, axis=1) for s in sc]
                flat = rnp.concatenate(lens)
                ok = len(flat) == len(kl) - 1 and (rnp.diff(flat) >= -1e-12).all()
                ok = ok and all((rnp.diff(l) <= tol + 1e-12).all() for l in lens)                   # gaps inside a shell
                ok = ok and all(lens[i + 1][0] - lens[i][-1] > tol for i in range(len(lens) - 1))      # gaps between shells
                ok = ok and all(rnp.allclose(a @ lat, b) for a, b in zip(sl, sc))                        # pairing
                if not ok:
                    bad.append((lat.tolist(), tol))
        U.ensure("shells = maximal runs of the length-sorted non-zero vectors with gaps <= tolerance; lattice/Cartesian pairing kept", not bad)
    U.run(body, check_feasible=False)


def _real_bk(rng, n):
    """the installed BKVectors.from_kpoints: the object's own attributes wk, bk_cart, bk_grid, neighbours, G"""
    import itertools
    from wannierberri.w90files.bkvectors import BKVectors
    fails, cases, refused = [], 0, []
    a, c = 1.0, 1.37
    I, ones = rnp.eye(3), rnp.ones((3, 3))
    real_lattices = {
        "cubic": rnp.eye(3), "fcc": rnp.array([[0, 1, 1], [1, 0, 1], [1, 1, 0]]) * 0.5, "bcc": rnp.array([[-1, 1, 1], [1, -1, 1], [1, 1, -1]]) * 0.5,
        "tetragonal": rnp.diag([a, a, c]), "orthorhombic": rnp.diag([1.0, 1.21, 1.47]), "hexagonal": rnp.array([[1, 0, 0], [-0.5, rnp.sqrt(3) / 2, 0], [0, 0, 1.6]]),
        "rhombohedral": rnp.array([[1, 0.2, 0.2], [0.2, 1, 0.2], [0.2, 0.2, 1]]), "monoclinic": rnp.array([[1, 0, 0], [0, 1.2, 0], [0.3, 0, 1.4]]),
        "triclinic": rnp.array([[1, 0.1, 0.05], [0.2, 1.15, 0.1], [0.13, 0.21, 1.31]]),
    }
    jobs = []
    names = list(real_lattices) if n > 30 else ["cubic", "fcc", "hexagonal", "triclinic"]
    for nm in names:
        recip = 2 * rnp.pi * rnp.linalg.inv(real_lattices[nm]).T
        for mp in ((2, 2, 2), (3, 3, 2), (4, 4, 4), (2, 3, 5)) if n > 30 else ((2, 2, 2), (3, 3, 2)):
            jobs.append((nm, recip, mp, {}))
    # anisotropic mesh on non-orthogonal reciprocal lattices (bk_cart must use the mesh of ITS lattice direction)
    jobs.append(("monoclinic-recip", rnp.array([[3.3296, 0, 0], [0, 4.6065, 0], [-2.7659, 0, 4.6475]]), (5, 5, 7), {}))
    jobs.append(("triclinic-recip", rnp.array([[1.0, 0.2, 0.1], [0.15, 1.3, 0.05], [0.3, -0.2, 0.9]]), (2, 3, 4), {}))
    # lattices slightly distorted from a higher symmetry: the first shells are almost, but not, complete
    for eps in ((1e-4, 5e-4, 1e-3) if n > 30 else (5e-4,)):
        jobs.append(("orthorhombic, c* tilted by %g" % eps, rnp.array([[1, 0, 0], [0, 1.2, 0], [eps, 0, 1.5]]), (3, 4, 5), {}))
        jobs.append(("tetragonal, sheared by %g" % eps, rnp.diag([1, 1, 1.3]) @ (I + eps * (ones - I)), (4, 4, 3), {}))
    # shortest mesh vectors reaching the edge of the search box: Gamma-only / slab meshes of non-reduced cells, minimal search box
    jobs.append(("non-reduced cell, Gamma only", rnp.array([[1, 0, 2.4], [0, 1.1, 0], [0, 0, 1.2]]), (1, 1, 1), {}))
    jobs.append(("sheared slab", rnp.array([[1, 0, 0], [0, 1, 0], [0.5, 0.25, 0.3]]), (4, 4, 1), {}))
    jobs.append(("flat cell, search_supercell=1", rnp.diag([1.0, 1.0, 0.4]), (4, 4, 1), dict(search_supercell=1)))
    jobs.append(("orthorhombic Gamma only, search_supercell=1", rnp.diag([1.0, 1.3, 0.7]), (1, 1, 1), dict(search_supercell=1)))
    for nm, recip, mp, kw in jobs:
        recip = rnp.array(recip, dtype=float)
        mpa = rnp.array(mp)
        kpt = rnp.array(list(itertools.product(*[rnp.arange(m) / m for m in mp])))
        perm = list(range(len(kpt)))
        rng.shuffle(perm)
        kpt = kpt[perm] + rnp.array([[rng.choice([0, 0, 1, -1]) for _ in range(3)] for _ in perm])        # any order, any cell
        with contextlib.redirect_stdout(io.StringIO()):
            try:
                bk = BKVectors.from_kpoints(recip_lattice=recip, mp_grid=mpa, kpoints_red=kpt, **kw)
            except RuntimeError as e:
                if "complete set of bk" in str(e) or "shell" in str(e):
                    refused.append(nm + " %s" % (mp,))        # the documented refusal: no b-vectors are chosen, nothing to check
                    continue
                raise
        cases += 1
        bad = []
        wk, bk_cart, bk_grid = rnp.array(bk.wk), rnp.array(bk.bk_cart), rnp.array(bk.bk_grid)
        basis = recip / mpa[:, None]
        if bk_cart.shape != bk_grid.shape or not rnp.allclose(bk_grid @ basis, bk_cart, atol=1e-9):
            bad.append("bk_cart != bk_grid @ (recip_lattice / mp_grid per lattice direction)")
        Mx = sum(w * rnp.outer(b, b) for w, b in zip(wk, bk_grid @ basis))
        if rnp.linalg.norm(Mx - rnp.eye(3)) > 1e-5:
            bad.append("completeness relation violated by %.2e" % rnp.linalg.norm(Mx - rnp.eye(3)))
        wmap = {tuple(int(x) for x in g): w for g, w in zip(bk_grid, wk)}
        if len(wmap) != len(wk):
            bad.append("duplicate b-vectors")
        for g, w in wmap.items():
            t = tuple(-x for x in g)
            if t not in wmap:
                bad.append("-b missing for b=%s" % (g,))
                break
            if abs(wmap[t] - w) > 1e-9 * max(1, abs(w)):
                bad.append("w(-b) != w(b)")
                break
        # whole shells: every mesh vector with the length of a chosen b is chosen with the same weight
        box = rnp.array(list(itertools.product(*[range(-3 * m - 1, 3 * m + 2) for m in mp])))
        length = rnp.linalg.norm(box @ basis, axis=1)
        for g, w in wmap.items():
            lb = rnp.linalg.norm(rnp.array(g) @ basis)
            for other in box[abs(length - lb) < 1e-7]:
                o = tuple(int(x) for x in other)
                if o not in wmap:
                    bad.append("shell of b=%s is not whole: %s missing" % (g, o))
                    break
                if abs(wmap[o] - w) > 1e-9 * max(1, abs(w)):
                    bad.append("different weights inside one shell")
                    break
            if bad and "shell" in bad[-1]:
                break
        # neighbours and G:  k + b = k_nb + G  exactly on the mesh
        kint = rnp.rint(kpt * mpa[None, :]).astype(int)
        for ik in range(len(kpt)):
            for ib in range(len(wk)):
                nb_, G_ = int(bk.neighbours[ik][ib]), rnp.array(bk.G[ik][ib])
                if not rnp.array_equal(kint[ik] + bk_grid[ib], kint[nb_] + G_ * mpa):
                    bad.append("k+b != k_neighbour + G at ik=%d ib=%d" % (ik, ib))
                    break
            if bad and bad[-1].startswith("k+b"):
                break
        if bad:
            fails.append(dict(input=dict(lattice=nm, recip_lattice=recip.tolist(), mp_grid=list(mp), **kw), clause="completeness / -b closure / whole shells / neighbours", failed=bad[:3]))
    return dict(cases=cases, failures=fails, distinct=cases, refused=refused)


@unit("C22", "BKVectors.from_kpoints: every search option reaches the shell search; shells, neighbours and grid coordinates are handed to the object", expect_min=3,
      scope="shape:stub shell search / neighbour search with their contracts; option values different from every default")
def _from_kpoints(U):
    import types
    rec = {}

    class Cls:
        def __init__(self, **kw):
            self.kw = kw

        @classmethod
        def find_bk_vectors(cls, recip_lattice, mp_grid, **kw):
            rec["shells"] = (recip_lattice, mp_grid, kw)
            return "WK", "BKCART", "BKGRID"

        @classmethod
        def find_G_and_neighbours(cls, kpoints_red, bk_grid, mp_grid, **kw):
            rec["nb"] = (kpoints_red, bk_grid, mp_grid, kw)
            return "G", "NEIGH"
    f = U.fn(F, "BKVectors.from_kpoints", globs=dict(np=rnp), model=False, rewrite_comps=False)

    def body():
        rl = rnp.array([[1.0, 0.2, 0], [0, 1.1, 0], [0.3, 0, 0.9]])
        mp = rnp.array([2, 3, 1])
        kp = rnp.array([[0.0, 0, 0], [0.5, 1 / 3, 0], [0.5, 2 / 3, 0], [1.5, -1 / 3, 2.0]])
        obj = f(Cls, rl, mp, kp, kmesh_tol=3e-6, bk_complete_tol=7e-4, search_supercell=5, kptirr="IRR")
        U.ensure("the shell search gets the lattice, the mesh and ALL THREE options as given (tolerances and the size of the search box)",
                 rec["shells"][0] is rl and rec["shells"][1] is mp and rec["shells"][2] == dict(kmesh_tol=3e-6, bk_complete_tol=7e-4, search_supercell=5))
        U.ensure("the neighbour search gets the k-points, the shells found and the mesh (and the irreducible set)", rec["nb"][0] is kp and rec["nb"][1] == "BKGRID" and rec["nb"][2] is mp and rec["nb"][3] == dict(kptirr="IRR"))
        kw = obj.kw
        U.ensure("the object holds the weights, shells, neighbours and G of the two searches and the integer grid coordinates of the k-points (not folded)",
                 kw.get("wk") == "WK" and kw.get("bk_grid") == "BKGRID" and kw.get("G") == "G" and kw.get("neighbours") == "NEIGH" and kw.get("recip_lattice") is rl and kw.get("mp_grid") is mp
                 and kw.get("kptirr") == "IRR" and rnp.array_equal(kw.get("kpt_grid"), [[0, 0, 0], [1, 1, 0], [1, 2, 0], [3, -1, 2]]))
    U.run(body, check_feasible=False)


Unit("C22", "from_kpoints [real lattices]", concrete=_real_bk,
     bounded_desc="installed BKVectors.from_kpoints (k-points shuffled and shifted by lattice vectors) on 4 (quick) / 9 (thorough) Bravais lattices x 2 (4) meshes, two non-orthogonal reciprocal lattices with anisotropic meshes, slightly distorted orthorhombic / tetragonal lattices, Gamma-only and slab meshes of non-reduced cells and search_supercell=1: "
                  "completeness <= 1e-5, -b closure with equal weights, whole shells, bk_cart = bk_grid x basis, k+b = k_nb+G; a documented refusal ('could not find a complete set') counts as no result")
