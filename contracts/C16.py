"""C16  Result objects behave as vectors and survive saving.

Under contract (real text on the real numpy with SYMBOLIC data; the object under test is a shell carrying the attributes the methods
read, `self.__class__` records the constructor arguments):
  EnergyResult.__add__, __mul__, __truediv__, __sub__, add, mul_array, transform  -- element-wise laws on the data for 1 and 2 energy
      axes and tensor ranks 0-2; energies, smoothers, rank, titles, declared transformations propagated; 0 / None / VoidResult neutral;
      different energy grids or smoothers are refused; transform uses the declared TR / inversion transforms in the right slots and
      distributes over addition (with the real PointSymmetry.transform_tensor on a symbolic operation).
  VoidResult.*    x+Void = x and x-Void = x for every result class (energy-, band-resolved, dictionary), Void+x = x, Void-x = (-1)x, Void*c = Void/c = Void, transform(Void) = Void.
  ResultDict.__add__, __mul__, __truediv__, __sub__, transform   key-wise; 0 / None neutral.
  K__Result.__add__, add, __mul__, __sub__, transform   `+` is CONCATENATION along k (disjoint k supports: this is what the callers rely on),
      `add`, `-` and `*` are element-wise.  Stated openly: K__Result.__truediv__ returns an unscaled copy (group averaging of tabulated
      data is a concatenation of images, not a mean) -- recorded as the coded semantics, not claimed as 'scaling'.
Bounded stand-in: EnergyResult.save -> from_npz on real files (1-2 energy axes, ranks 0-2, every pre-defined transform incl. swap_axes,
comment) reproduces energies, data, rank, transformations, comment.
"""
import abc
import contextlib
import io
import os
import shutil
import tempfile

import itertools
import numpy as rnp
import z3
from pyvc.core import ctx, sreal, land, lift, SNum, SCplx
from pyvc.unit import unit, Unit
from pyvc.npshim import Shim, sym_real_array

FE = "wannierberri/result/energyresult.py"
FR = "wannierberri/result/result.py"
FD = "wannierberri/result/resultdict.py"
FK = "wannierberri/result/kbandresult.py"
FP = "wannierberri/symmetry/point_symmetry.py"


def _valid(c):
    s = z3.Solver()
    s.add(z3.Not(c.t))
    return s.check() == z3.unsat


def _eq(A, B):
    A, B = rnp.asarray(A, dtype=object), rnp.asarray(B, dtype=object)
    return A.shape == B.shape and all(_valid(lift(A[i]) == lift(B[i])) for i in rnp.ndindex(*A.shape))


class Void:
    """stands for VoidResult where the extracted code only tests isinstance(other, VoidResult); scaling it gives the void again
    (VoidResult.__mul__ / Result.__rmul__, obligations of the 'VoidResult + ResultDict' unit)"""
    def __mul__(self, c):
        return self
    __rmul__ = __mul__


class Made:
    def __init__(self, **kw):
        self.kw = kw
        self.__dict__.update(kw)


def _er(name, shape, nE, rank, **over):
    me = Made()
    me.__class__ = type("ER", (Made,), {})
    me.Energies = [rnp.linspace(0, 1, shape[i]) for i in range(nE)]
    me.N_energies = nE
    me.data = sym_real_array(name, shape)
    me.smoothers = ["sm%d" % i for i in range(nE)]
    me.transformTR, me.transformInv = "TR", "INV"
    me.rank = rank
    me.E_titles = ["Efermi", "Omega"][:nE]
    me.save_mode = {"bin"}
    me.comment = "c" + name
    for k, v in over.items():
        setattr(me, k, v)
    return me


def _energy_unit(shape, nE, rank):
    @unit("C16", "EnergyResult arithmetic[shape=%s,%d energy axes,rank %d]" % ("x".join(map(str, shape)), nE, rank), scope="shape:%s" % (shape,), expect_min=8)
    def _e(U):
        sh = Shim()
        g = dict(np=sh, VoidResult=Void)
        add = U.fn(FE, "EnergyResult.__add__", globs=g, model=False)
        mul = U.fn(FE, "EnergyResult.__mul__", globs=g, model=False)
        div = U.fn(FE, "EnergyResult.__truediv__", globs=g, model=False)
        sub = U.fn(FE, "EnergyResult.__sub__", globs=g, model=False)
        iadd = U.fn(FE, "EnergyResult.add", globs=g, model=False)
        marr = U.fn(FE, "EnergyResult.mul_array", globs=g, model=False)

        def wire(o):
            cls = o.__class__
            cls.__mul__ = lambda s_, c: mul(s_, c)
            cls.__rmul__ = lambda s_, c: mul(s_, c)
            cls.__add__ = lambda s_, c: add(s_, c)
            return o

        def body():
            a, b = wire(_er("a", shape, nE, rank)), wire(_er("b", shape, nE, rank, comment="longer comment b"))
            b.__class__ = a.__class__
            r = add(a, b)
            U.ensure("(a+b).data == a.data + b.data element-wise", _eq(r.data, a.data + b.data))
            U.ensure("a+b keeps energies, smoothers, rank, titles, declared transformations; save modes united; longer comment",
                     r.Energies is a.Energies and r.smoothers is a.smoothers and r.rank == rank and r.E_titles == a.E_titles and r.transformTR == "TR" and r.transformInv == "INV"
                     and r.save_mode == {"bin"} and r.comment == "longer comment b")
            U.ensure("0, None and the void result are neutral for +", add(a, 0) is a and add(a, None) is a and add(a, Void()) is a)
            c = sreal("c")
            m = mul(a, 2.5)
            U.ensure("(a*c).data == c * a.data element-wise; metadata kept", _eq(m.data, a.data * 2.5) and m.rank == rank and m.smoothers is a.smoothers and m.comment == a.comment)
            d = div(a, 4.0)
            U.ensure("a/c == a*(1/c)", _eq(d.data, a.data * 0.25))
            s_ = sub(a, b)
            U.ensure("(a-b).data == a.data - b.data", _eq(s_.data, a.data - b.data))
            try:
                mul(a, "x")
                U.ensure("multiplication by a non-number is refused", False)
            except TypeError:
                U.ensure("multiplication by a non-number is refused", True)
            b2 = _er("b2", shape, nE, rank)
            b2.Energies = [e + (0.5 if i == nE - 1 else 0) for i, e in enumerate(b2.Energies)]
            try:
                add(a, b2)
                U.ensure("adding results on different energy grids is refused", False)
            except RuntimeError:
                U.ensure("adding results on different energy grids is refused", True)
            b3 = _er("b3", shape, nE, rank, smoothers=["other"] * nE)
            try:
                add(a, b3)
                U.ensure("adding results with different smoothers is refused", False)
            except RuntimeError:
                U.ensure("adding results with different smoothers is refused", True)
            a2 = _er("a2", shape, nE, rank)
            old = a2.data.copy()
            iadd(a2, b)
            U.ensure("add(): in-place element-wise sum", _eq(a2.data, old + b.data))
            w = sym_real_array("w", (shape[0],))
            mm = marr(a, w, axes=0)
            ok = all(_valid(lift(mm.data[idx]) == a.data[idx] * w[idx[0]]) for idx in rnp.ndindex(*shape))
            U.ensure("mul_array along axis 0: data[i,...]*w[i]; metadata kept", ok and mm.rank == rank and mm.smoothers is a.smoothers)
            if nE == 2:
                w2 = sym_real_array("v", (shape[1],))
                mm2 = marr(a, w2, axes=1)
                U.ensure("mul_array along axis 1: data[i,j,...]*v[j]", all(_valid(lift(mm2.data[idx]) == a.data[idx] * w2[idx[1]]) for idx in rnp.ndindex(*shape)))
        U.run(body, check_feasible=False)


_energy_unit((2,), 1, 0)
_energy_unit((2, 3), 1, 1)
_energy_unit((2, 2), 2, 0)
_energy_unit((2, 2, 3, 3), 2, 2)


@unit("C16", "EnergyResult.transform distributes over +", scope="shape:2 (rank 0), 2x3 (rank 1) and 2x3x3 (rank 2); symbolic operation, TR/Inv flags enumerated", expect_min=3, timeout_ms=60000)
def _transform(U):
    from contracts.C09 import _build, _make, _T
    PS, fns = _build(U)
    _T.call = U.fn(FP, "Transform.__call__", globs=dict(np=Shim(symbolic_zeros=False)), model=False)
    tr = U.fn(FE, "EnergyResult.transform", globs=dict(np=Shim()), model=False)

    def body():
        d1 = (1, -1)[ctx().choose(2, "det")]
        t1 = bool(ctx().choose(2, "TR"))
        rank = ctx().choose(3, "rank")
        s1, R1 = _make(PS, "R", d1, t1)
        shape = (2,) + (3,) * rank
        tTR, tInv = _T(factor=-1), (_T(transpose_axes=(1, 0)) if rank == 2 else _T())
        a, b = _er("a", shape, 1, rank, transformTR=tTR, transformInv=tInv), _er("b", shape, 1, rank, transformTR=tTR, transformInv=tInv)
        calls = []

        class Spy:
            TR, Inv = s1.TR, s1.Inv

            def transform_tensor(self, data, rank_, transformTR=None, transformInv=None):
                calls.append((rank_, transformTR, transformInv))
                return s1.transform_tensor(data, rank_, transformTR, transformInv)
        a_before, b_before = a.data.copy(), b.data.copy()
        ta, tb = tr(a, Spy()), tr(b, Spy())
        U.ensure("transform leaves its operand unchanged and returns fresh data (frame: nothing but the new result is written)",
                 _eq(a.data, a_before) and _eq(b.data, b_before) and ta.data is not a.data and not rnp.shares_memory(ta.data, a.data))
        ab = _er("ab", shape, 1, rank, transformTR=tTR, transformInv=tInv)
        ab.data = a.data + b.data
        tab = tr(ab, Spy())
        U.ensure("transform(a+b).data == transform(a).data + transform(b).data", _eq(tab.data, ta.data + tb.data))
        U.ensure("transform passes the result's own rank and its declared TR / inversion transforms in the right slots",
                 all(c_[0] == rank and c_[1] is tTR and c_[2] is tInv for c_ in calls))
        U.ensure("transform keeps energies, smoothers, rank, titles, transforms, comment", ta.Energies is a.Energies and ta.smoothers is a.smoothers and ta.rank == rank
                 and ta.transformTR is tTR and ta.transformInv is tInv and ta.comment == a.comment)
    U.run(body, check_feasible=False)


@unit("C16", "VoidResult + ResultDict", scope="shape:2 keys", expect_min=6)
def _void_dict(U):
    g = dict(np=rnp)
    v = {k: U.fn(FR, "VoidResult." + k, globs=g, model=False) for k in ("__mul__", "__add__", "__sub__", "__truediv__", "transform")}
    rmul = U.fn(FR, "Result.__rmul__", globs=g, model=False)
    radd = U.fn(FR, "Result.__radd__", globs=g, model=False)

    class X:
        def __init__(self, t): self.t = t
        def __mul__(self, c): return X(self.t * c)
        def __rmul__(self, c): return X(self.t * c)
        def __add__(self, o): return self if (o is None or isinstance(o, int)) else X(self.t + o.t)
        def __truediv__(self, c): return X(self.t / c)
        def transform(self, s): return X(self.t * 7)

    class RD:
        def __init__(self, results, save_mode=None):
            self.results, self.save_mode = results, save_mode
        __mul__ = lambda s_, c: dmul(s_, c)
        __rmul__ = lambda s_, c: dmul(s_, c)
        __add__ = lambda s_, o: dadd(s_, o)
    dg = dict(np=rnp, ResultDict=RD, VoidResult=Void)
    dmul = U.fn(FD, "ResultDict.__mul__", globs=dg, model=False)
    dadd = U.fn(FD, "ResultDict.__add__", globs=dg, model=False)
    ddiv = U.fn(FD, "ResultDict.__truediv__", globs=dg, model=False)
    dsub = U.fn(FD, "ResultDict.__sub__", globs=dg, model=False)
    dtr = U.fn(FD, "ResultDict.transform", globs=dg, model=False)

    def body():
        me = object()
        x = X(sreal("x"))
        U.ensure("Void + x == x", v["__add__"](me, x) is x)
        r = v["__sub__"](me, x)
        U.ensure("Void - x == (-1)*x", _valid(r.t == -x.t))
        U.ensure("Void*c, Void/c and transform(Void) are Void", v["__mul__"](me, 3.0) is me and v["__truediv__"](me, 3.0) is me and v["transform"](me, "s") is me)
        a = RD({"p": X(sreal("ap")), "q": X(sreal("aq"))}, save_mode={"bin"})
        b = RD({"p": X(sreal("bp")), "q": X(sreal("bq"))}, save_mode={"bin"})
        s_ = dadd(a, b)
        U.ensure("ResultDict +: key-wise", set(s_.results) == {"p", "q"} and _valid(s_.results["p"].t == sreal("ap") + sreal("bp")) and _valid(s_.results["q"].t == sreal("aq") + sreal("bq")))
        U.ensure("ResultDict: 0 and None neutral", dadd(a, 0) is a and dadd(a, None) is a)
        # the key is what pairs the entries -- not the position in the dictionaries (dictionaries of two runs need not be filled in the same order)
        for perm in itertools.permutations(("p", "q", "r")):
            a3 = RD({k: X(sreal("a" + k)) for k in ("p", "q", "r")}, save_mode={"bin"})
            b3 = RD({k: X(sreal("b" + k)) for k in perm}, save_mode={"bin"})
            s3, d3 = dadd(a3, b3), dsub(a3, b3)
            U.ensure("ResultDict + and -: entries paired by key when the operand was filled in the order %s" % "".join(perm),
                     set(s3.results) == {"p", "q", "r"} and all(_valid(s3.results[k].t == sreal("a" + k) + sreal("b" + k)) and _valid(d3.results[k].t == sreal("a" + k) - sreal("b" + k)) for k in "pqr"))
        b4 = RD({"z": X(sreal("bz")), "p": X(sreal("bp"))}, save_mode={"bin"})
        s4 = dadd(a, b4)
        U.ensure("ResultDict +: with as many but partly different keys, a common key is still paired by name and nothing is paired by position",
                 "p" in s4.results and _valid(s4.results["p"].t == sreal("ap") + sreal("bp")) and all(k == "p" for k in s4.results))

        def same(r_):
            return set(r_.results) == {"p", "q"} and _valid(r_.results["p"].t == sreal("ap")) and _valid(r_.results["q"].t == sreal("aq"))
        try:                     # the void offers nothing but scaling: code that reaches into it (other.results) fails natively with AttributeError too
            okv = same(dadd(a, Void())) and same(dsub(a, Void()))
        except AttributeError:
            okv = False
        U.ensure("ResultDict: the void result is neutral on the right as well (x + Void == x, x - Void == x)", okv)
        m = dmul(a, 2.0)
        U.ensure("ResultDict *: key-wise scaling", _valid(m.results["p"].t == sreal("ap") * 2) and _valid(m.results["q"].t == sreal("aq") * 2) and m.save_mode == {"bin"})
        d = ddiv(a, 4.0)
        U.ensure("ResultDict /: key-wise", _valid(d.results["q"].t == sreal("aq") / 4))
        su = dsub(a, b)
        U.ensure("ResultDict -: a + (-1)*b", _valid(su.results["p"].t == sreal("ap") - sreal("bp")))
        t = dtr(a, "sym")
        U.ensure("ResultDict.transform: every entry transformed with the same operation", _valid(t.results["p"].t == sreal("ap") * 7) and _valid(t.results["q"].t == sreal("aq") * 7))
    U.run(body, check_feasible=False)


@unit("C16", "K__Result arithmetic", scope="shape:results of 1, 2 and 3 k-point blocks x 2 bands x rank 1", expect_min=8)
def _kres(U):
    import abc
    sh = Shim()
    g = dict(np=sh, abc=abc, itertools=itertools, transform_from_dict=None, print=lambda *a, **k: None, VoidResult=Void)
    Base = type("Result", (), {})
    KR = U.klass(FK, "K__Result", globs=g, bases=(Base,), only=("__init__", "fit", "data", "nk", "__add__", "add", "__mul__", "__sub__", "__truediv__"))
    KB = U.klass(FK, "KBandResult", globs=g, bases=(KR,), only=("get_rank", "fit", "nband"))
    for f_ in KR.__dict__.values():
        fr = getattr(f_, "fget", f_)
        if hasattr(fr, "__globals__"):
            fr.__globals__["KBandResult"] = KB

    def blocks(name, sizes):
        """a result made of len(sizes) blocks the way run() makes it: by `+` of per-K-point results (data not read in between)"""
        kw = dict(transformTR="TR", transformInv="INV", rank=1, other_properties={"c": 1})
        parts = [sym_real_array("%s%d" % (name, i), (n, 2, 3)) for i, n in enumerate(sizes)]
        r = KB(parts[0], **kw)
        for p_ in parts[1:]:
            r = r + KB(p_, **kw)
        return r, rnp.vstack(parts)

    def body():
        layout = [(2,), (2, 3), (1, 2, 2)][ctx().choose(3, "block layout")]
        a, A = blocks("a", layout)
        b, B = blocks("b", layout)
        U.ensure("K__Result +: concatenation along k in order of addition, nk additive", a.nk == sum(layout) and _eq(a.data, A) and a.data.shape[0] == sum(layout))
        a, A = blocks("a", layout)                       # fresh (reading .data above merged the blocks)
        r = a + b
        U.ensure("K__Result +: (a+b) = a's k-points then b's; transformations, rank and other properties kept",
                 _eq(r.data, rnp.vstack([A, B])) and r.transformTR == "TR" and r.transformInv == "INV" and r.rank == 1 and r.other_properties == {"c": 1})
        a, A = blocks("a", layout)
        try:                     # as above: reaching into the void (other.nband, other.transformTR) is an AttributeError natively
            rv, sv = a + Void(), a - Void()
            okv = _eq(rv.data, A) and _eq(sv.data, A) and rv.transformTR == "TR" and sv.transformInv == "INV"
        except AttributeError:
            okv = False
        U.ensure("K__Result: the void result is neutral on the right as well (x + Void == x, x - Void == x)", okv)
        a, A = blocks("a", layout)
        m = a * 3.0
        U.ensure("K__Result *: every element scaled (all blocks)", m.nk == sum(layout) and _eq(m.data, A * 3.0))
        a, A = blocks("a", layout)
        b, B = blocks("b", layout)
        s_ = a - b
        U.ensure("K__Result -: element-wise over ALL k-points (all blocks)", tuple(s_.data.shape) == tuple(A.shape) and _eq(s_.data, A - B))
        a, A = blocks("a", layout)
        b, B = blocks("b", layout)
        a.add(b)
        U.ensure("K__Result.add: in-place element-wise sum over all blocks", tuple(a.data.shape) == tuple(A.shape) and _eq(a.data, A + B))
        a, A = blocks("a", layout)
        d = a / 4.0
        U.ensure("K__Result / number returns an unscaled copy (documented quirk: images are concatenated, not averaged)", _eq(d.data, A))
        a, A = blocks("a", layout)
        c_ = KB(sym_real_array("c", (2, 3, 3)), transformTR="TR", transformInv="INV", rank=1)
        U.ensure("results with different band counts or transformations do not fit", a.fit(c_) is False and a.fit(KB(sym_real_array("e", (2, 2, 3)), transformTR="X", transformInv="INV", rank=1)) is False)
    U.run(body, check_feasible=False)



# ------------------------------------------------------------------ persistence on the extracted text (npz file = external contract)
class _NpzStore:
    """external contract of np.savez_compressed(f, **kw) followed by np.load(f, allow_pickle=True), as documented by numpy: every keyword
    is stored as numpy.asarray(value) (str -> 0-d string array, dict / None -> 0-d object array whose .item() is the object, list of str ->
    1-d string array) and comes back under its key; a key never written raises KeyError; `in` tells which keys exist.  Validated on the
    installed numpy by the stand-in below (real files)."""
    def __init__(self):
        self.files = {}

    class _F:
        def __init__(self, name, mode):
            self.name, self.mode = name, mode

        def __enter__(self):
            return self

        def __exit__(self, *a):
            return False

    def open(self, name, mode="r"):
        if "r" in mode and name not in self.files:
            raise FileNotFoundError(name)
        return self._F(name, mode)

    def savez(self, f, *args, **kw):
        assert not args and "w" in f.mode and "b" in f.mode
        out = {}
        for k, v in kw.items():
            a = rnp.empty((), dtype=object) if isinstance(v, (dict, set)) or v is None else None
            if a is not None:
                a[()] = v
            else:
                a = rnp.asarray(v)
            out[k] = a
        self.files[f.name] = out

    def load(self, f, allow_pickle=False, **kw):
        assert "r" in f.mode and "b" in f.mode
        d = self.files[f.name]
        assert allow_pickle or not any(a.dtype == object for a in d.values()), "object arrays need allow_pickle=True"
        return dict(d)


def _persist_unit(shape, nE, rank, tTR, tInv, titles, label):
    @unit("C16", "EnergyResult save -> from_npz round trip [extracted text; %s]" % label, scope="shape:%s, %d energy axes, rank %d" % (shape, nE, rank), expect_min=7)
    def _p(U):
        import functools
        import types
        st = _NpzStore()
        sh = Shim(overrides=dict(savez_compressed=st.savez, savez=st.savez, load=st.load))
        fos = types.SimpleNamespace(path=types.SimpleNamespace(isfile=lambda n: n in st.files, join=os.path.join, exists=lambda n: n in st.files))
        quiet = lambda *a, **k: None
        import warnings
        gp = dict(np=sh, warnings=warnings)
        Transform = U.klass(FP, "Transform", globs=gp)
        gp["Transform"] = Transform
        tfd = U.fn(FP, "transform_from_dict", globs=gp, model=False)
        g = dict(np=sh, abc=abc, os=fos, open=st.open, print=quiet, transform_from_dict=tfd, VoidResult=Void, VoidSmoother=lambda: "void-smoother",
                 cached_property=functools.cached_property)
        Res = U.klass(FR, "Result", globs=g, only=("__init__", "save"))
        ER = U.klass(FE, "EnergyResult", globs=g, bases=(Res,), only=("__init__", "from_npz", "as_dict", "set_smoother"))

        def body():
            Es = [rnp.linspace(-1.0, 1.0 + i, shape[i]) for i in range(nE)]
            data = sym_real_array("d", shape)
            comment = "first line\nsecond line of %s" % label
            kw = {} if titles is None else dict(E_titles=titles)
            a = ER(Energies=Es, data=data, transformTR=Transform(**tTR), transformInv=Transform(**tInv), rank=rank, comment=comment, save_mode="bin", **kw)
            a.save("dir/res{}")
            U.ensure("save(name) writes exactly one file, name + '.npz'", sorted(st.files) == ["dir/res.npz"])
            b = ER.from_npz("dir/res.npz")
            U.ensure("loaded object is an energy-resolved result with as many energy axes", isinstance(b, ER) and len(b.Energies) == nE and b.N_energies == nE)
            U.ensure("energies reproduced, axis by axis, in order", len(b.Energies) == nE and all(rnp.array_equal(rnp.asarray(x, dtype=float), y) for x, y in zip(b.Energies, Es)))
            U.ensure("data reproduced element-wise", _eq(b.data, data))
            U.ensure("rank reproduced", int(b.rank) == rank)

            def same(t0, t1):
                return isinstance(t1, Transform) and all(
                    (getattr(t1, k) is None) == (t0.get(k) is None) and (t0.get(k) is None or tuple(rnp.ravel(getattr(t1, k))) == tuple(rnp.ravel(t0[k])))
                    for k in ("transpose_axes", "swap_axes")) and t1.factor == t0.get("factor", 1) and bool(t1.conj) == bool(t0.get("conj", False))
            U.ensure("time-reversal and inversion transformations reproduced, each under its own name", same(tTR, b.transformTR) and same(tInv, b.transformInv))
            U.ensure("comment and energy titles reproduced", b.comment == comment and [str(x) for x in b.E_titles] == [str(x) for x in a.E_titles])
            U.ensure("a missing file gives the void result when asked to, and is an error otherwise", isinstance(ER.from_npz("dir/absent.npz"), Void))
            try:
                ER.from_npz("dir/absent.npz", void_if_missing=False)
                U.ensure("a missing file is an error when void_if_missing=False", False)
            except FileNotFoundError:
                U.ensure("a missing file is an error when void_if_missing=False", True)
        U.run(body, check_feasible=False)


_persist_unit((3,), 1, 0, dict(factor=-1), dict(), None, "scalar, odd under TR, default titles")
_persist_unit((2, 3, 3, 3), 2, 2, dict(factor=-1, conj=True, transpose_axes=(1, 0)), dict(swap_axes=(0, 1)), ["Efermi", "Omega"], "rank 2, two energy axes of different length, transposing / swapping transformations")
_persist_unit((2, 3, 2, 3), 3, 1, dict(conj=True), dict(factor=-1), ["Efermi"], "three energy axes, fewer titles than axes")

# ------------------------------------------------------------------ bounded stand-in: save / load
def _real_save(rng, n):
    from wannierberri.result import EnergyResult
    from wannierberri.symmetry.point_symmetry import Transform, transform_ident, transform_odd, transform_trans
    from wannierberri.smoother import GaussianSmoother
    fails, cases = [], 0
    tlist = [transform_ident, transform_odd, transform_trans, Transform(factor=-1, conj=True), Transform(swap_axes=(0, 1)), Transform(factor=-1, transpose_axes=(1, 0))]
    for t in range(9 if n <= 30 else 30):
        rs = rnp.random.RandomState(rng.randint(0, 10 ** 6))
        nE = 1 + t % 2 if t != 7 else 3                # one case with three energy axes (more axes than default titles)
        rank = 2 if t < len(tlist) else t % 3          # the first cases: every pre-defined transform on a rank-2 result
        titles = ["Efermi", "Omega"][:nE] if t not in (7, 8) else (None if t == 7 else ["Efermi"])       # fewer titles than axes: padded, not truncated
        Es = [rnp.linspace(-1, 1, 3 + i) for i in range(nE)]
        cplx = t % 2 == 1
        data = rs.rand(*([len(E) for E in Es] + [3] * rank)) + (1j * rs.rand(*([len(E) for E in Es] + [3] * rank)) if cplx else 0)
        tTR, tInv = tlist[t % len(tlist)], tlist[(t // 2 + 1) % len(tlist)]
        if rank < 2:
            tTR = tTR if tTR.transpose_axes is None and tTR.swap_axes is None else transform_odd
            tInv = tInv if tInv.transpose_axes is None and tInv.swap_axes is None else transform_ident
        d = tempfile.mkdtemp(prefix="verif_c16_")
        try:
            with contextlib.redirect_stdout(io.StringIO()):
                kw_t = {} if titles is None else dict(E_titles=titles)
                r = EnergyResult(Es, data, transformTR=tTR, transformInv=tInv, rank=rank, comment="comment %d\nline 2" % t, save_mode="bin", **kw_t)
                r.save(os.path.join(d, "res"))
                b = EnergyResult.from_npz(os.path.join(d, "res.npz"))
            bad = []
            if len(b.Energies) != nE or not all(rnp.array_equal(x, y) for x, y in zip(b.Energies, Es)):
                bad.append("energies")
            if b.data.shape != data.shape or not rnp.array_equal(b.data, data):
                bad.append("data")
            if int(b.rank) != rank:
                bad.append("rank")
            for nm, t0, t1 in (("transformTR", tTR, b.transformTR), ("transformInv", tInv, b.transformInv)):
                if t1 is None or (t1.factor, t1.conj, tuple(t1.transpose_axes or ()), tuple(t1.swap_axes or ())) != (t0.factor, t0.conj, tuple(t0.transpose_axes or ()), tuple(t0.swap_axes or ())):
                    bad.append(nm)
            if b.comment != r.comment or list(b.E_titles) != list(r.E_titles):
                bad.append("comment/titles")
        finally:
            shutil.rmtree(d, ignore_errors=True)
        cases += 1
        if bad:
            fails.append(dict(input=dict(case=t, n_energy_axes=nE, rank=rank, complex=cplx), clause="from_npz(save(x)) == x", failed=bad))
    # native: the real VoidResult is neutral on either side of every result class
    from wannierberri.result.result import VoidResult
    from wannierberri.result.kbandresult import KBandResult
    from wannierberri.result.resultdict import ResultDict
    rs = rnp.random.RandomState(5)
    er = EnergyResult(rnp.linspace(0, 1, 4), rs.rand(4, 3), transformTR=transform_odd, transformInv=transform_ident, rank=1)
    objs = dict(EnergyResult=(er, lambda r_: r_.data), KBandResult=(KBandResult(rs.rand(2, 3, 3), transformTR=transform_odd, transformInv=transform_ident), lambda r_: r_.data),
                ResultDict=(ResultDict({"a": er}), lambda r_: r_.results["a"].data))
    for nm, (x, get) in objs.items():
        bad = []
        for label, op in (("Void + x", lambda: VoidResult() + x), ("x + Void", lambda: x + VoidResult()), ("x - Void", lambda: x - VoidResult())):
            try:
                if not rnp.array_equal(get(op()), get(x)):
                    bad.append(label + ": differs from x")
            except Exception as e:
                bad.append("%s raises %s: %s" % (label, type(e).__name__, e))
        cases += 1
        if bad:
            fails.append(dict(input=dict(result_class=nm), clause="the void result is neutral", failed=bad))
    return dict(cases=cases, failures=fails, distinct=cases)


Unit("C16", "EnergyResult save/load [real files]", concrete=_real_save,
     bounded_desc="EnergyResult with 1-2 energy axes, rank 0-2, real/complex data, every pre-defined Transform incl. conj/swap_axes/transpose, multi-line comment: save -> from_npz compared exactly; the real VoidResult added to / subtracted from the three result classes")
