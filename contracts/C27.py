"""C27  Berry curvature obeys the sum rule and Chern quantisation.

(S1) sum rule (from the property): the internal (Hamiltonian-only) Berry curvature summed over all bands vanishes at every k.
     The calculators sum Formula.trace(ik, inn=group, out=all other bands) over the occupied band groups; with the Fermi level
     above all bands every group is occupied.  Obligation: for the REAL text of formula.covariant.Omega (internal terms only) on
     top of the real Formula / Formula_ln / Matrix_ln / elementary.Dcov classes,
         sum over the groups g of a partition of the bands of  Omega.trace(ik, g, complement of g)  =  0
     for EVERY anti-Hermitian matrix D (symbolic; D = -V/(E_m-E_n) of a Hermitian model is anti-Hermitian, zero in degenerate groups) and every
     partition of nb = 2, 3, 4 bands into contiguous groups (per shape).  D itself: the real Data_K.D_H and dEig_inv on symbolic
     energies and band-derivative matrices (D = -V/(E_m - E_n), zero inside degenerate groups).
(S2) AHC = StaticCalculator with Formula Omega, fder 0 (Fermi sea) and the constant -e^2/(hbar Angstrom): real AHC.__init__;
     StaticCalculator's Fermi-sea semantics (sum over the groups below E_F, average over k) is C13's contract.
     Hence the internal AHC above all bands is zero.
(S3) Chern quantisation "up to discretisation error" is a numerical statement: bounded stand-in only -- Haldane models from both
     builders in the topological and a time-reversal symmetric phase, AHC * c / (e^2/h) against the nearest integer.
"""
import abc
import contextlib
import io
import itertools
import warnings

import numpy as rnp
import z3

from pyvc.core import ctx, sreal, SNum, SCplx, land, lift
from pyvc.unit import unit, Unit
from pyvc.npshim import Shim, sym_cplx_array, sym_real_array

F_FORM = "wannierberri/formula/formula.py"
F_ELEM = "wannierberri/formula/elementary.py"
F_COV = "wannierberri/formula/covariant.py"
F_DK = "wannierberri/data_K/data_K.py"
F_STAT = "wannierberri/calculators/static.py"
F_UT = "wannierberri/utility.py"


def build_formulas(U):
    U.assume_ensures = False
    NP = Shim()
    ce = U.fn(F_UT, "cached_einsum", globs=dict(np=NP, EINSUM_PATH_CACHE={}), model=False, rewrite_comps=False)
    g = dict(np=NP, abc=abc, cached_einsum=ce, alpha_A=rnp.array([1, 2, 0]), beta_A=rnp.array([2, 0, 1]), transform_ident="IDENT", transform_odd="ODD",
             TransformProduct=None)
    Formula = U.klass(F_FORM, "Formula", globs=g, rewrite_comps=False)
    Formula_ln = U.klass(F_FORM, "Formula_ln", globs=g, rewrite_comps=False, bases=(Formula,))
    Matrix_ln = U.klass(F_FORM, "Matrix_ln", globs=g, rewrite_comps=False, bases=(Formula_ln,))
    g2 = dict(g, Formula_ln=Formula_ln, Matrix_ln=Matrix_ln)
    Dcov = U.klass(F_ELEM, "Dcov", globs=g2, rewrite_comps=False, bases=(Matrix_ln,))
    Omega = U.klass(F_COV, "Omega", globs=g2, rewrite_comps=False, bases=(Formula_ln,))
    return NP, Dcov, Omega


def _partitions(nb):
    """all partitions of range(nb) into contiguous groups"""
    out = []
    for cuts in itertools.product((0, 1), repeat=nb - 1):
        b = [0] + [i + 1 for i, c in enumerate(cuts) if c] + [nb]
        out.append(list(zip(b, b[1:])))
    return out


def _sumrule_unit(nb, tiers=("quick", "thorough")):
    @unit("C27", "sum rule: internal Omega traced over all band groups vanishes [%d bands, every partition]" % nb,
          scope="shape:%d bands, 2 k-points, every partition into contiguous groups, arbitrary anti-Hermitian D" % nb, expect_min=2, tiers=tiers,
          replay=lambda mv, ob: _replay_real(mv, ob), replay_once=True)
    def _s(U):
        NP, Dcov, Omega = build_formulas(U)

        def body():
            nk = 2
            herm_diag_zero = bool(ctx().choose(2, "diagonal of D zero (as D_H gives) or any imaginary number"))
            # D of a Hermitian model is anti-Hermitian in the band indices (D = -V/(E_m-E_n) with V Hermitian: unit on D_H below)
            D = rnp.empty((nk, nb, nb, 3), dtype=object)
            for ik_ in range(nk):
                for c_ in range(3):
                    for m_ in range(nb):
                        D[ik_, m_, m_, c_] = SCplx(0, 0) if herm_diag_zero else SCplx(0, sreal("Dd_%d_%d_%d" % (ik_, m_, c_)))
                        for n_ in range(m_ + 1, nb):
                            v = SCplx(sreal("D_%d_%d_%d_%d.re" % (ik_, m_, n_, c_)), sreal("D_%d_%d_%d_%d.im" % (ik_, m_, n_, c_)))
                            D[ik_, m_, n_, c_] = v
                            D[ik_, n_, m_, c_] = -v.conj()
            data = type("DataK", (), {})()
            data.D_H = D
            data.force_internal_terms_only = False
            data.Dcov = Dcov(data)
            om = Omega(data, external_terms=False)
            U.ensure("Omega: one Cartesian index, declared odd under time reversal and even under inversion; internal terms only",
                     om.ndim == 1 and om.transformTR == "ODD" and om.transformInv == "IDENT" and om.internal_terms and not om.external_terms)
            cl = []
            for ik in range(nk):
                for part in _partitions(nb):
                    tot = [0, 0, 0]
                    for (a, b) in part:
                        inn = rnp.arange(a, b)
                        out = rnp.concatenate((rnp.arange(0, a), rnp.arange(b, nb)))
                        t = om.trace(ik, inn, out)
                        if tuple(t.shape) != (3,):
                            cl.append(lift(0) == 1)
                            continue
                        for c in range(3):
                            tot[c] = tot[c] + SCplx.of(t[c]).re       # ndarray.real is the identity on object arrays: the real part is taken here
                    for c in range(3):
                        cl.append(lift(tot[c]) == 0)
            U.ensure("for every k and every partition: sum over groups of trace(Omega_internal)(group, rest) = 0 in all three components", land(*cl))
            # non-vacuity: a single band's curvature is not identically zero
            t = om.trace(0, rnp.arange(0, 1), rnp.arange(1, nb))
            s = z3.Solver()
            s.add(SCplx.of(t[2]).re.t != 0)
            U.ensure("(non-vacuity) the curvature of one band alone is not identically zero", s.check() == z3.sat)
        U.run(body, check_feasible=False)
        U.external("np.einsum on object arrays: sum of products (numpy itself)")


_sumrule_unit(2)
_sumrule_unit(3)
_sumrule_unit(4, tiers=("thorough",))


@unit("C27", "Data_K.D_H / dEig_inv: D = -V / (E_m - E_n), zero inside degenerate groups", scope="shape:3 bands, 1 k-point, every ordering of the gaps relative to the threshold", expect_min=2)
def _dh(U):
    NP = Shim()
    dei = U.fn(F_DK, "Data_K.dEig_inv", globs=dict(np=NP), model=False, rewrite_comps=False)
    dh = U.fn(F_DK, "Data_K.D_H", globs=dict(np=NP), model=False, rewrite_comps=False)

    def body():
        nb = 3
        me = type("DK", (), {})()
        E = sym_real_array("E", (1, nb))
        me.E_K = E
        inv = dei(me)
        V = sym_cplx_array("V", (1, nb, nb, 3))
        me.dEig_inv = inv
        me.Xbar = lambda name, der=0: V if (name, der) == ("Ham", 1) else None
        D = dh(me)
        cl = []
        thr = 1e-7
        for m in range(nb):
            for n in range(nb):
                d = E[0, m] - E[0, n]
                close = abs(d) < thr
                for c in range(3):
                    got = SCplx.of(D[0, m, n, c])
                    if bool(close):
                        cl.append(land(got.re == 0, got.im == 0))
                    else:
                        want = SCplx.of(V[0, m, n, c]) * (-1) / d
                        cl.append(land(got.re == want.re, got.im == want.im))
        U.ensure("D[m,n] = -V[m,n]/(E_m-E_n) when |E_m-E_n| >= 1e-7, and 0 otherwise (also m = n)", land(*cl))
        # for a Hermitian model V is Hermitian: D is then anti-Hermitian
        cl2 = []
        for m in range(nb):
            for n in range(nb):
                for c in range(3):
                    a_, b_ = SCplx.of(D[0, m, n, c]), SCplx.of(D[0, n, m, c])
                    hyp = land(SCplx.of(V[0, m, n, c]).re == SCplx.of(V[0, n, m, c]).re, SCplx.of(V[0, m, n, c]).im == -SCplx.of(V[0, n, m, c]).im)
                    from pyvc.core import implies
                    cl2.append(implies(hyp, land(a_.re == -b_.re, a_.im == b_.im)))
        U.ensure("V Hermitian  =>  D[n,m] = -conj(D[m,n])", land(*cl2))
    U.run(body, max_paths=4000)


@unit("C27", "AHC = Fermi-sea integral of Omega with the constant -e^2/(hbar Angstrom)", scope="shape:constructor", expect_min=2)
def _ahc(U):
    seen = {}

    class Sup:
        def __init__(self, **kw):
            seen.update(kw)
    import types
    factors = types.SimpleNamespace(factor_ahc="FACTOR_AHC")
    frml = types.SimpleNamespace(Omega="OMEGA")
    init = U.fn(F_STAT, "AHC.__init__", globs=dict(factors=factors, frml=frml, super=lambda: Sup()), model=False, rewrite_comps=False)

    def body():
        me = type("A", (), {})()
        init(me, Efermi=[0.0])
        U.ensure("Formula = Omega, fder = 0 (Fermi sea), constant factor = factors.factor_ahc, other arguments forwarded",
                 me.Formula == "OMEGA" and me.fder == 0 and seen.get("constant_factor") == "FACTOR_AHC" and seen.get("Efermi") == [0.0])
        from scipy.constants import elementary_charge, hbar, angstrom
        src = open(__import__("os").path.join(__import__("pyvc.extract", fromlist=["REPO"]).REPO, "wannierberri/factors.py")).read()
        ns = {}
        exec(compile(src, "factors.py", "exec"), ns)
        U.ensure("factors.factor_ahc = -e^2/(hbar * 1 Angstrom)", abs(ns["factor_ahc"] / (-(elementary_charge ** 2) / hbar / angstrom) - 1) < 1e-14)
    U.run(body, check_feasible=False)
    U.external("StaticCalculator.__call__ with fder = 0: sum over the band groups with E <= E_F of the formula's trace, averaged over k (contract of C13)")


# ------------------------------------------------------------------ which band groups the Fermi-sea sum runs over (units shared with C13 / C14)
# "Fermi level above all bands => every band counted exactly once" is what turns the formula-level sum rule into AHC = 0:
# the band blocks must be pairwise disjoint and cover all bands, in the grid-sum mode (Data_K.get_bands_in_range_groups_ik, C13)
# and in the tetrahedron mode (TetraWeights.weights_all_band_groups, C14), also for degenerate groups straddling the first Fermi level
from contracts import C13 as _c13, C14 as _c14      # noqa: E402

for _nb in (2, 3):
    _c13._groups_unit(_nb, True, prop="C27")
_c14._wabg_unit(2, 0, prop="C27")
_c14._wabg_unit(2, -1, prop="C27")


# ------------------------------------------------------------------ bounded stand-ins
def _quiet():
    return contextlib.redirect_stdout(io.StringIO())


def _real_sumrule(rng, n):
    import wannierberri as wb
    fails, cases = [], 0
    for t in range(3 if n <= 30 else 10):
        seed = rng.randint(1, 10 ** 6)
        rnp.random.seed(seed)
        with _quiet(), warnings.catch_warnings():
            warnings.simplefilter("ignore")
            nw = rng.randint(2, 4)
            system = wb.system.System_R.from_random(num_wann=nw, nRvec=27, max_R=1, berry=True)       # R-set closed under negation
            for key in list(system._XX_R.keys()):
                X = system.get_R_mat(key)
                system.set_R_mat(key, 0.5 * (X + system.rvec.conj_XX_R(X)), reset=True)                 # Hermitian model: X(-R) = X(R)^dagger
            k = [rng.uniform(-1, 1) for _ in range(3)]
            from wannierberri.data_K import Data_K_R
            data_k = Data_K_R(system, grid=wb.grid.Grid(system=system, NK=1, NKFFT=1), dK=rnp.array(k))
            form = wb.formula.covariant.Omega(data_k, external_terms=False)
            om = rnp.array([form.trace(0, rnp.array([b_]), rnp.array([x_ for x_ in range(nw) if x_ != b_])) for b_ in range(nw)])
            tot = om.sum(axis=0)
            grid = wb.grid.Grid(system, NK=[3, 2, 2], NKFFT=[1, 1, 1], use_symmetry=False)
            Emax = 1e3
            res = wb.run(system, grid=grid, calculators={"ahc": wb.calculators.static.AHC(Efermi=rnp.array([Emax]), tetra=False, kwargs_formula={"external_terms": False})},
                         adpt_num_iter=0, use_irred_kpt=False, symmetrize=False, print_Kpoints=False)
            ahc = res.results["ahc"].data
            scale = abs(wb.factors.factor_ahc) / system.cell_volume
        cases += 1
        bad = []
        if abs(tot).max() > 1e-9 * max(1.0, abs(rnp.array(om)).max()):
            bad.append("sum over bands of the internal Berry curvature at k = %s is %s" % (k, tot.tolist()))
        if abs(ahc).max() > 1e-9 * scale:
            bad.append("internal AHC with the Fermi level above all bands = %s" % ahc.tolist())
        if bad:
            fails.append(dict(input=dict(seed=seed, num_wann=nw), clause="sum rule", failed=bad))
    return dict(cases=cases, failures=fails, distinct=cases)


def _replay_real(mv, ob):
    import random
    r = _real_sumrule(random.Random(5), 10)
    return dict(reproduced=bool(r["failures"]), input="installed evaluate_k / run() on random systems: internal Berry curvature summed over bands, internal AHC above all bands", failed=r["failures"][:3])


def _real_chern(rng, n):
    import wannierberri as wb
    from wannierberri import models
    from scipy.constants import e, h
    fails, cases = [], 0
    jobs = [("Haldane_ptb", dict(delta=0.2, hop1=-1.0, hop2=0.15, phi=rnp.pi / 2), 1), ("Haldane_ptb", dict(delta=0.2, hop1=-1.0, hop2=0.15, phi=-rnp.pi / 2), 1),
            ("Haldane_ptb", dict(delta=0.2, hop1=-1.0, hop2=0.15, phi=0.0), 0), ("Haldane_tbm", dict(delta=0.2, hop1=-1.0, hop2=0.15), 1)]
    if n > 30:
        jobs += [("Haldane_ptb", dict(delta=0.2, hop1=-0.7, hop2=0.25, phi=rnp.pi / 3), 1), ("Haldane_tbm", dict(delta=0.2, hop1=-1.3, hop2=0.1), 1)]
    for name, kw, absC in jobs:
        with _quiet(), warnings.catch_warnings():
            warnings.simplefilter("ignore")
            model = getattr(models, name)(**kw)
            system = wb.system.System_R.from_pythtb(model, berry=True) if name.endswith("ptb") else wb.system.System_R.from_tbmodels(model, berry=True)
            nk = 48 if n > 30 else 36
            grid = wb.grid.Grid(system, NK=[nk, nk, 1], NKFFT=[6, 6, 1], use_symmetry=False)
            res = wb.run(system, grid=grid, calculators={"ahc": wb.calculators.static.AHC(Efermi=rnp.array([0.0]), tetra=False)},
                         adpt_num_iter=0, use_irred_kpt=False, symmetrize=False, print_Kpoints=False)
            sig = res.results["ahc"].data[0]
            c = abs(rnp.linalg.det(system.real_lattice)) / rnp.linalg.norm(rnp.cross(system.real_lattice[0], system.real_lattice[1])) * 1e-10
            C = sig[2] * c / (e ** 2 / h)
        cases += 1
        if abs(C - round(C)) > 2e-2 or abs(round(C)) != absC or abs(sig[0]) > 1e-6 * max(1.0, abs(sig[2])) or abs(sig[1]) > 1e-6 * max(1.0, abs(sig[2])):
            fails.append(dict(input=dict(model=name, **{k: float(v) for k, v in kw.items()}), clause="sigma_xy * c / (e^2/h) is an integer (|C| = %d here) up to discretisation error" % absC, got=float(C), sigma=[float(x) for x in sig]))
    return dict(cases=cases, failures=fails, distinct=cases)


Unit("C27", "sum rule on random systems [real code]", concrete=_real_sumrule,
     bounded_desc="installed evaluate_k (Omega, internal terms) at a random k and run() with AHC (internal) at E_F above all bands on 3 (quick) / 10 (thorough) random 2-4 band systems")
Unit("C27", "Chern number of Haldane models [real code]", concrete=_real_chern,
     bounded_desc="Haldane_ptb (phi = +-pi/2 topological, phi = 0 time-reversal symmetric) and Haldane_tbm, 36x36 (quick) / 48x48 (thorough) grid: sigma_xy c /(e^2/h) within 0.02 of the expected integer")
