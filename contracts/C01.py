"""C01  Wannier interpolation reproduces the input on the ab-initio mesh.

Spec (from the property).  For a Gamma-centred Monkhorst-Pack mesh N = (N1,N2,N3) listed in any order, Hermitian matrices
A_q (one per mesh point, scalar / vector / tensor valued) and X = q_to_R(A):
   (R1)  sum_R X[R,a,b,..] ph(k_i . R) = A[i,a,b,..]           at every mesh point k_i  (interpolating back is exact),
   (R2)  X[-R] = X[R]^dagger                                    (every R has its partner -R in the list),
   (R3)  sum over the replicas R = g (mod N) of weights[R,a,b] = 1 for every mesh vector g and pair (a,b); hence the weights
         of every pair add up to N1 N2 N3,
and the same after re-mapping an existing system with System_R.do_ws_dist / Rvectors.remap_XX_R (R4).

How it is decided (tier S, per shape).  The REAL text of Rvectors (set_Rvec, get_remapper_XX_from_grid_to_list_R,
remap_XX_from_grid_to_list_R, remap_XX_R, set_fft_q_to_R, q_to_R, reverseR, conj_XX_R, iR, ...), WignerSeitz.__init__/__call__,
utility.iterate_nd / iterate3dpm and fft.execute_fft / fft_np / fft_W is executed by CPython: the geometry (lattice, centres,
tolerance, mesh, order of the k-list) is concrete and runs on real numpy floats; the matrices A_q are symbolic (every entry
a pair of real symbols, Hermitian by construction), so (R1), (R2), (R4) hold for ALL Hermitian data at each stated geometry.
The discrete Fourier transform is the external contract of C02 (exact DFT on formal characters).  Mesh sizes are taken from
{1, 2, 4} per direction: then every phase on the mesh is a power of i and the cancellation of the off-diagonal terms is
exact arithmetic (for other sizes it needs cyclotomic arithmetic the engine does not have -- those are covered by the bounded
stand-in only).
(W)  WignerSeitz.__call__ for ANY table of distances (symbolic reals): every mesh point gets >= 1 entry, entries of one mesh
     point carry its multiplicity, and iRvec mod N is the mesh point -- so (R3) does not depend on the lattice.

Assumptions: floats as reals; 1./Ndegen (computed in floating point before it meets a symbol) stands for the rational 1/Ndegen.
"""
import contextlib
import io
import itertools
import time as _time
import warnings as _warnings
from fractions import Fraction

import numpy as rnp
import z3

from pyvc import core
from pyvc.core import ctx, sreal, SNum, SCplx, land, lift
from pyvc.unit import unit, Unit
from pyvc.npshim import Shim, sym_real_array, sym_cplx_array
from pyvc.phase import Ph, PhSum, phsum_eq, fourier_spec
from contracts.C02 import mk_np, _pyfftw, dft

F_FFT = "wannierberri/fourier/fft.py"
F_RV = "wannierberri/fourier/rvectors.py"
F_UT = "wannierberri/utility.py"
F_SR = "wannierberri/system/system_R.py"


def _valid(c):
    s_ = z3.Solver()
    s_.set("timeout", 20000)
    s_.add(z3.Not(c.t))
    return s_.check() == z3.unsat


def _allclose(a, b, **kw):
    """np.allclose inside the code's own sanity assertions: on symbolic arrays it means equality of the two expressions"""
    a, b = rnp.asarray(a), rnp.asarray(b)
    if a.dtype != object and b.dtype != object:
        return rnp.allclose(a, b, **kw)
    a, b = rnp.broadcast_arrays(a, b)
    return all(_valid(phsum_eq(x, y)) for x, y in zip(a.flat, b.flat))


def _generic_abs(x):
    """np.abs used by exclude_zeros to find vanishing matrices: a symbolic entry stands for a generic (non-zero) value, a concrete
    entry for itself"""
    x = rnp.asarray(x)
    if x.dtype != object:
        return rnp.abs(x)
    out = rnp.zeros(x.shape)
    for idx in rnp.ndindex(*x.shape):
        v = x[idx]
        if isinstance(v, PhSum):
            out[idx] = 1.0 if v.t else 0.0
        elif isinstance(v, (SCplx, SNum)):
            c = SCplx.of(v)
            cr, ci = core.conc(c.re), core.conc(c.im)
            out[idx] = 1.0 if (cr is None or ci is None) else abs(complex(float(cr), float(ci)))
        else:
            out[idx] = abs(v)
    return out


def mk_np1():
    base = mk_np()
    ov = dict(base._over)
    ov["allclose"] = _allclose
    ov["abs"] = _generic_abs
    return Shim(overrides=ov)


def build(U, NP=None):
    from collections.abc import Iterable
    U.assume_ensures = False
    NP = NP or mk_np1()
    g = dict(np=NP, pyfftw=_pyfftw(), PYFFTW_IMPORTED=True, time=_time.time, warnings=_warnings, print=lambda *a, **k: None, Iterable=Iterable)
    g["cached_einsum"] = U.fn(F_UT, "cached_einsum", globs=dict(np=NP, EINSUM_PATH_CACHE={}), model=False, rewrite_comps=False)
    for nm in ("fft_W", "fft_np", "execute_fft"):
        g[nm] = U.fn(F_FFT, nm, globs=g, model=False, rewrite_comps=False)
    for nm in ("fft_W", "fft_np", "execute_fft"):
        getattr(g[nm], "raw", g[nm]).__globals__.update({k: g[k] for k in ("fft_W", "fft_np", "execute_fft")})
    g["iterate_nd"] = U.fn(F_UT, "iterate_nd", globs=dict(np=rnp), model=False, rewrite_comps=False)
    g["iterate3dpm"] = U.fn(F_UT, "iterate3dpm", globs=dict(np=rnp, iterate_nd=g["iterate_nd"]), model=False, rewrite_comps=False)
    g["clear_cached"] = U.fn(F_UT, "clear_cached", globs=dict(np=rnp), model=False, rewrite_comps=False)
    g["FFT_R_to_k"] = U.klass(F_FFT, "FFT_R_to_k", globs=g, rewrite_comps=False)
    WS = U.klass(F_RV, "WignerSeitz", globs=g, rewrite_comps=False)
    g["WignerSeitz"] = WS
    RV = U.klass(F_RV, "Rvectors", globs=g, rewrite_comps=False, skip=("__len__",))
    return NP, RV, WS, g


def hermitian_q(nk, nw, tail=()):
    """A[i] Hermitian in the band indices for every mesh point and every trailing (Cartesian) index"""
    A = rnp.empty((nk, nw, nw) + tail, dtype=object)
    for i in range(nk):
        for t in rnp.ndindex(*tail) if tail else [()]:
            tag = "_".join(map(str, (i,) + t))
            for a in range(nw):
                A[(i, a, a) + t] = SCplx(sreal("A%s_%d.re" % (tag, a)), 0)
                for b in range(a + 1, nw):
                    v = SCplx(sreal("A%s_%d_%d.re" % (tag, a, b)), sreal("A%s_%d_%d.im" % (tag, a, b)))
                    A[(i, a, b) + t] = v
                    A[(i, b, a) + t] = v.conj()
    return A


GEOM = {
    # name: (real lattice, mesh, reduced centres, ws tolerance, shape of the trailing indices)
    "cubic 2x2x2, centres on sites and bond centres (degenerate replicas)": (rnp.eye(3) * 2.0, (2, 2, 2), [[0, 0, 0], [0.5, 0, 0]], 1e-3, ()),
    "triclinic 4x2x1, generic centres, one outside the home cell": (rnp.array([[1.0, 0.1, 0.0], [0.25, 1.5, 0.0], [0.0, 0.3, 2.0]]), (4, 2, 1),
                                                                     [[0.1, 0.2, 0.3], [1.7, -0.4, 0.35]], 1e-5, ()),
    "hexagonal 2x2x1, coinciding centres, vector valued": (rnp.array([[1.0, 0.0, 0.0], [-0.5, 0.8660254037844386, 0.0], [0.0, 0.0, 3.0]]), (2, 2, 1),
                                                           [[1 / 3, 2 / 3, 0.0], [1 / 3, 2 / 3, 0.0]], 1e-3, (3,)),
    "orthorhombic 1x4x2, loose tolerance": (rnp.diag([1.0, 1.7, 2.3]), (1, 4, 2), [[0, 0, 0], [0.5, 0.5, 0.5], [0.25, 0.0, 0.75]], 1e-2, ()),
}
QUICK = list(GEOM)[:3]


def _mesh_list(mesh, seed):
    import random
    pts = [[i / mesh[0], j / mesh[1], k / mesh[2]] for i in range(mesh[0]) for j in range(mesh[1]) for k in range(mesh[2])]
    rs = random.Random(seed)
    rs.shuffle(pts)
    return rnp.array([[x + rs.choice([0, 0, 1, -1]) for x in p] for p in pts])          # any order, any periodic image


def _q2R_unit(gname, tiers=("quick", "thorough")):
    latt, mesh, cen, tol, tail = GEOM[gname]

    @unit("C01", "q_to_R round trip, Hermiticity, weights [%s]" % gname, scope="shape:" + gname, expect_min=4, tiers=tiers,
          replay=lambda mv, ob: _replay_real(mv, ob), replay_once=True)
    def _u(U):
        NP, RV, WS, g = build(U)

        def body():
            core.RATIONALIZE[0] = True
            try:
                nw = len(cen)
                rv = RV(lattice=latt, shifts_left_red=rnp.array(cen, dtype=float))
                rv.set_Rvec(mp_grid=rnp.array(mesh), ws_tolerance=tol)
                kl = _mesh_list(mesh, 5)
                rv.set_fft_q_to_R(kpt_red=kl, fftlib="numpy")
                nk = len(kl)
                Rs = rnp.array(rv.iRvec)
                U.ensure("the R list has no duplicates", len({tuple(r) for r in Rs.tolist()}) == len(Rs))
                # (R3) weights
                mapx, mapy, mapz, W = rv.get_remapper_XX_from_grid_to_list_R
                ok3, tot = True, 0.0
                for a in range(nw):
                    for b in range(nw):
                        fib = {}
                        for iR, R in enumerate(Rs):
                            if W[iR, a, b] != 0:
                                gpt = tuple(int(x) % m for x, m in zip(R, mesh))
                                ok3 = ok3 and (int(mapx[iR, a, b]), int(mapy[iR, a, b]), int(mapz[iR, a, b])) == gpt
                                fib[gpt] = fib.get(gpt, 0.0) + float(W[iR, a, b])
                        ok3 = ok3 and len(fib) == nk and all(abs(v - 1.0) < 1e-12 for v in fib.values())
                        ok3 = ok3 and abs(float(W[:, a, b].sum()) - nk) < 1e-10
                U.ensure("(R3) for every pair of Wannier functions the replica weights of every mesh vector add up to 1 (so all weights add up to N1 N2 N3); non-zero weights sit on R = g mod N", ok3)
                # (R1) round trip
                A = hermitian_q(nk, nw, tail)
                X = rv.q_to_R(A)
                U.ensure("q_to_R returns one matrix per R-vector", tuple(X.shape) == (len(Rs), nw, nw) + tail)
                kint = rnp.rint(kl * rnp.array(mesh)[None, :]).astype(int)
                for i in range(nk):
                    kf = [Fraction(int(kint[i, j]), mesh[j]) for j in range(3)]
                    cl = []
                    for idx in rnp.ndindex(*((nw, nw) + tail)):
                        got = fourier_spec([X[(iR,) + idx] for iR in range(len(Rs))], Rs, kf)
                        cl.append(phsum_eq(got, A[(i,) + idx]))
                    U.ensure("(R1) mesh point %d of the list: sum_R X[R] ph(k.R) = A_q" % i, land(*cl))
                # (R2) Hermiticity
                lst_R, lst_mR = rv.reverseR if hasattr(rv, "ignore_mR_not_found") else (None, None)
                rv.ignore_mR_not_found = False
                with _warnings.catch_warnings(record=True) as wl:
                    _warnings.simplefilter("always")
                    XC = rv.conj_XX_R(X)
                U.ensure("(R2) every R-vector has its partner -R in the list", len(wl) == 0 and len({tuple((-r).tolist()) for r in Rs} - {tuple(r.tolist()) for r in Rs}) == 0)
                cl = [phsum_eq(XC[idx], X[idx]) for idx in rnp.ndindex(*X.shape)]
                U.ensure("(R2) X[-R] = X[R]^dagger for Hermitian input (conj_XX_R(X) = X)", land(*cl))
            finally:
                core.RATIONALIZE[0] = False
        U.run(body, check_feasible=False)
        U.external("numpy.fft.fftn / pyfftw FORWARD: unnormalised forward DFT along the given axes (C02)")
        U.external("np.linalg.norm, np.unique, np.round, np.where on concrete float geometry: real numpy")
        U.assumption("1./Ndegen computed in floating point stands for the rational 1/Ndegen (doubles within 2 ulp of p/q, q <= 4096, are that rational)")
        U.assumption("mesh sizes restricted to {1,2,4} per direction so that all mesh phases are powers of i (exact arithmetic)")


for _g in GEOM:
    _q2R_unit(_g, tiers=("quick", "thorough") if _g in QUICK else ("thorough",))


# ------------------------------------------------------------------ Wigner-Seitz search for ANY distance table
@unit("C01", "WignerSeitz.__call__ for every table of distances", scope="shape:2 mesh points x 3 candidate replicas each, symbolic distances and tolerance", expect_min=3)
def _ws(U):
    def norm(x, axis=None):
        return x["dist"]

    class Add:
        """cRvec_search + shift: the distances are whatever `dist` says"""

        def __init__(self, dist):
            self.dist = dist

        def __add__(self, o):
            return {"dist": self.dist}
    sh = Shim(overrides={"linalg.norm": norm})
    call = U.fn(F_RV, "WignerSeitz.__call__", globs=dict(np=sh), model=False, rewrite_comps=False)

    def body():
        me = type("WS", (), {})()
        me.mp_grid = rnp.array([2, 1, 1])
        me.real_lattice = rnp.eye(3)
        me.tolerance = sreal("tol")
        ctx().assume(me.tolerance > 0)
        npt, nrep = 2, 3
        me.iRvec_search = rnp.array([[[i + 2 * m, 0, 0] for m in (-1, 0, 1)] for i in range(npt)])
        dist = sym_real_array("d", (npt, nrep))
        for idx in rnp.ndindex(npt, nrep):
            ctx().assume(dist[idx] >= 0)

        class Row(rnp.ndarray):
            pass
        D = rnp.empty((npt,), dtype=object)
        rows = []
        for i in range(npt):
            rows.append(_SymRow([dist[i, j] for j in range(nrep)]))
        me.cRvec_search = Add(rows)
        iR, nd, imod = call(me, rnp.zeros(3))
        iR, nd, imod = rnp.array(iR), rnp.array(nd), rnp.array(imod)
        ok1 = all(tuple(imod[t]) == (int(iR[t][0]) % 2, 0, 0) for t in range(len(iR)))
        grp = [int(iR[t][0]) % 2 for t in range(len(iR))]
        ok2 = all(int(nd[t]) == grp.count(grp[t]) and int(nd[t]) >= 1 for t in range(len(iR)))
        ok3 = set(grp) == {0, 1}
        U.ensure("(W1) iRvec mod mp_grid is the mesh point the entry was found for", ok1)
        U.ensure("(W2) Ndegen of an entry = number of entries of its mesh point", ok2)
        U.ensure("(W3) every mesh point has at least one entry (the nearest replica always passes |d - dmin| < tol)", ok3)
        # selected = exactly the replicas within tol of the minimum
        cl = []
        for i in range(npt):
            chosen = {int(iR[t][0]) for t in range(len(iR)) if grp[t] == i}
            for j, m in enumerate((-1, 0, 1)):
                strictly_within = land(*[dist[i, j] - dist[i, jj] < me.tolerance for jj in range(nrep)])
                within = land(*[dist[i, j] - dist[i, jj] <= me.tolerance for jj in range(nrep)])
                cl.append(within if (i + 2 * m) in chosen else core.lnot(strictly_within))
        U.ensure("(W4) replicas strictly within the tolerance of the smallest distance are selected, replicas farther than the tolerance are not", land(*cl))
    U.run(body, max_paths=4000)


class _SymRow:
    """one row of the distance table: min() and elementwise |d - dmin| < tol on symbolic reals"""

    def __init__(self, vals):
        self.vals = vals

    def min(self):
        m = self.vals[0]
        for v in self.vals[1:]:
            m = core.ite(v < m, v, m)
        return m

    def __sub__(self, o):
        return _SymRow([v - o for v in self.vals])

    def __abs__(self):
        return _SymRow([abs(v) for v in self.vals])

    def __lt__(self, o):
        return rnp.array([bool(v < o) for v in self.vals])

    def __le__(self, o):
        return rnp.array([bool(v <= o) for v in self.vals])

    def __gt__(self, o):
        return rnp.array([bool(v > o) for v in self.vals])

    def __ge__(self, o):
        return rnp.array([bool(v >= o) for v in self.vals])


# ------------------------------------------------------------------ (R4) re-mapping an existing system
@unit("C01", "Rvectors.remap_XX_R (used by System_R.do_ws_dist) keeps the matrices at every mesh point", scope="shape:cubic 2x2x2 and triclinic 4x2x1, old R list with vectors outside the mesh box", expect_min=2)
def _remap(U):
    NP, RV, WS, g = build(U)

    def body():
        core.RATIONALIZE[0] = True
        try:
            for gname in list(GEOM)[:2]:
                latt, mesh, cen, tol, tail = GEOM[gname]
                nw = len(cen)
                rv = RV(lattice=latt, shifts_left_red=rnp.array(cen, dtype=float))
                rv.set_Rvec(mp_grid=rnp.array(mesh), ws_tolerance=tol)
                old = rnp.array([[0, 0, 0], [1, 0, 0], [-1, 0, 0], [3, 1, 0], [0, -2, 1], [2, 2, 2]])
                Xold = sym_cplx_array("O", (len(old), nw, nw))
                Xnew = rv.remap_XX_R(Xold, iRvec_old=old)
                Rs = rnp.array(rv.iRvec)
                cl = []
                for kpt in itertools.product(*[range(m) for m in mesh]):
                    kf = [Fraction(kpt[j], mesh[j]) for j in range(3)]
                    for a in range(nw):
                        for b in range(nw):
                            cl.append(phsum_eq(fourier_spec([Xnew[iR, a, b] for iR in range(len(Rs))], Rs, kf), fourier_spec([Xold[iR, a, b] for iR in range(len(old))], old, kf)))
                U.ensure("[%s] sum_R X_new[R] ph(k.R) = sum_R X_old[R] ph(k.R) at every mesh point" % gname, land(*cl))
        finally:
            core.RATIONALIZE[0] = False
    U.run(body, check_feasible=False)
    U.assumption("np.allclose in the code's own sanity assertions is read as equality of the two symbolic expressions")


@unit("C01", "System_R.do_ws_dist: every matrix of the re-mapped system reproduces the old one at every mesh point; one common R list", scope="shape:cubic 2x2x2, 2 Wannier functions; Ham with hoppings, SS on-site only, AA on two R-vectors", expect_min=4)
def _do_ws_dist(U):
    NP, RV, WS, g = build(U)
    from collections.abc import Iterable
    one2three = U.fn(F_UT, "one2three", globs=dict(np=rnp, Iterable=Iterable), model=False, rewrite_comps=False)
    SR = U.klass(F_SR, "System_R", globs=dict(np=NP, Rvectors=RV, one2three=one2three), rewrite_comps=False,
                 only=("do_ws_dist", "set_R_mat", "get_R_mat", "has_R_mat"), extra=dict(half_wann_matrices=set()))

    def body():
        core.RATIONALIZE[0] = True
        try:
            latt, mesh, cen, tol, tail = GEOM[list(GEOM)[0]]
            nw = len(cen)
            old = rnp.array([[0, 0, 0], [1, 0, 0], [-1, 0, 0], [0, 1, 1], [0, -1, -1], [3, 0, 1]])
            me = SR.__new__(SR)
            me.logfile = io.StringIO()
            me.real_lattice = latt
            me.num_wann = nw
            me.range_wann = rnp.arange(nw)
            me.wannier_centers_cart = rnp.array(cen, dtype=float).dot(latt)
            me.wannier_centers_red = rnp.array(cen, dtype=float)
            me.rvec = RV(lattice=latt, shifts_left_red=rnp.array(cen, dtype=float), iRvec=old)
            H = sym_cplx_array("H", (len(old), nw, nw))
            S = rnp.zeros((len(old), nw, nw, 3), dtype=object)
            S[0] = sym_cplx_array("S", (nw, nw, 3))                  # on-site only
            A = rnp.zeros((len(old), nw, nw, 3), dtype=object)
            A[1] = sym_cplx_array("A1", (nw, nw, 3))
            A[5] = sym_cplx_array("A5", (nw, nw, 3))
            me._XX_R = {"Ham": H.copy(), "SS": S.copy(), "AA": A.copy()}
            me.do_ws_dist(mp_grid=mesh, ws_dist_tol=tol)
            Rs = rnp.array(me.rvec.iRvec)
            U.ensure("all matrices live on the system's one R list", all(me._XX_R[k_].shape[0] == len(Rs) for k_ in ("Ham", "SS", "AA")) and len({tuple(r) for r in Rs.tolist()}) == len(Rs))
            U.ensure("the new R-vector object carries the system's centres as shifts", rnp.allclose(rnp.array(me.rvec.shifts_left_red, dtype=float), cen) and rnp.allclose(me.rvec.lattice, latt))
            for key, Xo in (("Ham", H), ("SS", S), ("AA", A)):
                Xn = me._XX_R[key]
                cl = []
                for kpt in itertools.product(*[range(m) for m in mesh]):
                    kf = [Fraction(kpt[j], mesh[j]) for j in range(3)]
                    for idx in rnp.ndindex(*Xo.shape[1:]):
                        cl.append(phsum_eq(fourier_spec([Xn[(iR,) + idx] for iR in range(len(Rs))], Rs, kf), fourier_spec([Xo[(iR,) + idx] for iR in range(len(old))], old, kf)))
                U.ensure("%s: sum_R X_new[R] ph(k.R) = sum_R X_old[R] ph(k.R) at every mesh point (nothing that is non-zero was dropped)" % key, land(*cl))
        finally:
            core.RATIONALIZE[0] = False
    U.run(body, check_feasible=False)
    U.assumption("exclude_zeros: a symbolic matrix element stands for a generic non-zero value (|x| > tolerance), a concrete 0 for 0")


# ------------------------------------------------------------------ bounded stand-in: real code, any mesh size
SKEWED = dict(lattice=[[1.183, -0.075, 1.455], [-0.437, -0.543, -0.765], [-0.105, 1.096, 1.707]], mesh=(5, 2, 4), centres=[[-1.5, -0.5, 1.5]], tolerance=1e-5)


def _real_roundtrip(rng, n):
    from wannierberri.fourier.rvectors import Rvectors
    fails, cases = [], 0
    for t in range(-1, 6 if n <= 30 else 40):
        mesh = tuple(rng.choice([1, 2, 3, 4, 5]) for _ in range(3))
        latt = rnp.array([[rng.uniform(-0.4, 0.4) for _ in range(3)] for _ in range(3)]) + rnp.diag([1.0, 1.3, 1.9])
        if t % 4 == 0:
            latt = rnp.eye(3) * 2.0               # high symmetry: many degenerate replicas
        nw = rng.randint(1, 3)
        cen = rnp.array([[rng.choice([0.0, 0.5, 0.25, rng.uniform(-1.5, 1.5)]) for _ in range(3)] for _ in range(nw)])
        if t % 3 == 0 and nw > 1:
            cen[1] = cen[0]
        tol = rng.choice([1e-8, 1e-5, 1e-3, 1e-2])
        tail = rng.choice([(), (3,), (3, 3)])
        if t == -1:          # the strongly skewed, non-reduced cell whose nearest replicas reach the edge of the +-3 super-cell search box
            mesh, latt, cen, tol, tail, nw = SKEWED["mesh"], rnp.array(SKEWED["lattice"]), rnp.array(SKEWED["centres"]), SKEWED["tolerance"], (), 1
        kl = _mesh_list(mesh, rng.randint(0, 10 ** 6))
        nk = len(kl)
        rs = rnp.random.RandomState(rng.randint(0, 10 ** 6))
        A = rs.randn(*((nk, nw, nw) + tail)) + 1j * rs.randn(*((nk, nw, nw) + tail))
        A = 0.5 * (A + A.swapaxes(1, 2).conj())
        bad = []
        with contextlib.redirect_stdout(io.StringIO()), _warnings.catch_warnings(record=True) as wl:
            _warnings.simplefilter("always")
            for lib in ("fftw", "numpy"):
                rv = Rvectors(lattice=latt, shifts_left_red=cen)
                rv.set_Rvec(mp_grid=rnp.array(mesh), ws_tolerance=tol)
                rv.set_fft_q_to_R(kpt_red=kl, fftlib=lib)
                X = rv.q_to_R(A.copy())
                Rs = rv.iRvec
                back = rnp.einsum("kr,r...->k...", rnp.exp(2j * rnp.pi * kl.dot(Rs.T)), X)
                if not rnp.allclose(back, A, atol=1e-10):
                    bad.append("%s: interpolating back differs from the input by %.2e" % (lib, abs(back - A).max()))
                W = rv.get_remapper_XX_from_grid_to_list_R[3]
                if not rnp.allclose(W.sum(axis=0), nk, atol=1e-9):
                    bad.append("weights of a pair do not add up to the number of mesh points")
                XC = rv.conj_XX_R(X)
                if not rnp.allclose(XC, X, atol=1e-10):
                    bad.append("%s: X(-R) != X(R)^dagger by %.2e" % (lib, abs(XC - X).max()))
        if any("does not have a -R partner" in str(w.message) for w in wl):
            bad.append("an R-vector has no -R partner")
        cases += 1
        if bad:
            inp = dict(mesh=mesh, lattice=latt.tolist(), centres=cen.tolist(), tolerance=tol, tail=tail)
            only_herm = all(("X(-R) != X(R)^dagger" in b_) or ("-R partner" in b_) for b_ in bad)
            if t == -1:
                inp["case"] = "skewed-cell-5x2x4/" + ("hermiticity-only" if only_herm else "other-clause")
            fails.append(dict(input=inp, clause="round trip / Hermiticity / weights", failed=sorted(set(bad))[:3]))
    return dict(cases=cases, failures=fails, distinct=cases)


def _replay_real(mv, ob):
    import random
    r = _real_roundtrip(random.Random(3), 10)
    r["failures"] = [f_ for f_ in r["failures"] if not str(f_["input"].get("case", "")).endswith("hermiticity-only")]       # the recorded known finding is not a replay of anything
    return dict(reproduced=bool(r["failures"]), input="installed Rvectors.q_to_R on random lattices / meshes 1..5 / centres / tolerances, both FFT libraries", failed=r["failures"][:3])


Unit("C01", "q_to_R round trip on random geometries [real code]", concrete=_real_roundtrip,
     bounded_desc="installed Rvectors (set_Rvec, set_fft_q_to_R, q_to_R, conj_XX_R) with real numpy.fft and pyfftw: 6 (quick) / 40 (thorough) random lattices incl. cubic, mesh sizes 1..5 per direction in shuffled order and shifted by lattice vectors, "
                  "1-3 Wannier functions with centres inside / outside the cell / coinciding, tolerances 1e-8..1e-2, scalar / vector / tensor valued Hermitian data")



@unit("C01", "WignerSeitz.__init__: every mesh point is searched over ALL its replicas R0 + (a*m1, b*m2, c*m3), |a|,|b|,|c| <= n, with matching Cartesian vectors", expect_min=4,
      scope="shape:meshes 1x3x2, 2x2x2, 4x2x1, 3x1x1; search sizes 3 (default), 1 and (2,1,3); triclinic lattice")
def _ws_init(U):
    import itertools as it
    NP, RV, WS, g = build(U, NP=rnp)

    def body():
        latt = rnp.array([[3.0, 0.25, 0.0], [0.5, 2.75, 0.125], [0.0, 0.5, 3.25]])       # dyadic entries: products with integers are exact
        ok_shape = ok_set = ok_cart = ok_mesh = True
        for mesh in ((1, 3, 2), (2, 2, 2), (4, 2, 1), (3, 1, 1)):
            for size in (None, 1, (2, 1, 3)):
                ws = WS(latt, mp_grid=mesh, tolerance=1e-5) if size is None else WS(latt, mp_grid=mesh, ws_search_size=size, tolerance=1e-5)
                n = (3, 3, 3) if size is None else ((size,) * 3 if isinstance(size, int) else size)
                R0 = [tuple(int(x) for x in v) for v in ws.iRvec0]
                ok_mesh = ok_mesh and sorted(R0) == sorted(it.product(*[range(m) for m in mesh]))
                nrep = (2 * n[0] + 1) * (2 * n[1] + 1) * (2 * n[2] + 1)
                iS, cS = rnp.asarray(ws.iRvec_search), rnp.asarray(ws.cRvec_search)
                ok_shape = ok_shape and iS.shape == (len(R0), nrep, 3) and cS.shape == iS.shape
                if not ok_shape:
                    break
                for i, r0 in enumerate(R0):
                    want = {(r0[0] + a * mesh[0], r0[1] + b * mesh[1], r0[2] + c * mesh[2]) for a in range(-n[0], n[0] + 1) for b in range(-n[1], n[1] + 1) for c in range(-n[2], n[2] + 1)}
                    got = [tuple(int(x) for x in v) for v in iS[i]]
                    ok_set = ok_set and set(got) == want and len(got) == len(want)
                ok_cart = ok_cart and bool(rnp.array_equal(cS, iS.dot(latt)))
        U.ensure("iRvec0 lists every point of the mesh box exactly once", ok_mesh)
        U.ensure("one row of candidates per mesh point, (2n1+1)(2n2+1)(2n3+1) candidates each", ok_shape)
        U.ensure("the candidates of a mesh point are exactly its replicas within the search size, both signs alike (so that R and -R are found alike)", ok_shape and ok_set)
        U.ensure("cRvec_search is iRvec_search in Cartesian coordinates, entry by entry (the distance of a candidate is the distance of THAT vector)", ok_shape and ok_cart)
    U.run(body, check_feasible=False)


@unit("C01", "Rvectors.set_Rvec: the common R list is the duplicate-free union and every pair's index list points at its own vectors", expect_min=3,
      scope="shape:Wigner-Seitz search replaced by its contract (arbitrary R lists per shift, components up to 9 on meshes with a one-point direction); 2-3 centres")
def _set_rvec_index(U):
    NP, RV, WS, g = build(U, NP=rnp)
    tables = {}

    class StubWS:
        """contract of WignerSeitz.__call__ as far as set_Rvec relies on it: some list of integer vectors, their degeneracies and their mesh images"""
        def __init__(self, lattice, mp_grid, tolerance=None, **kw):
            self.mp = rnp.array(mp_grid)

        def __call__(self, shift_reduced):
            key = tuple(rnp.round(shift_reduced, 6))
            R = rnp.array(tables["by_shift"](key), dtype=int)
            return R, rnp.ones(len(R), dtype=int), R % self.mp
    for v in vars(RV).values():
        fr = getattr(v, "__globals__", None)
        if fr is not None:
            fr["WignerSeitz"] = StubWS

    def body():
        ok_union = ok_index = ok_mod = True
        cases = [((1, 3, 2), [[0.05, 0.1, 0.2], [2.75, 0.4, 0.1], [0.05, 0.1, 0.2]]), ((2, 2, 2), [[0, 0, 0], [0.1, 0.2, 3.3]]), ((4, 1, 1), [[0, 0, 0], [-2.6, 0.3, 2.2], [0.4, -3.2, 0.1]])]
        for ic, (mesh, cen) in enumerate(cases):
            def by_shift(key, ic=ic, mesh=mesh):
                # overlapping, differently ordered sub-lists of one pool with long vectors along every direction (any hashing / packing of the
                # components that is not injective on this pool pairs a vector with the wrong entry)
                h = int(round(sum((j + 1) * 1000 * x for j, x in enumerate(key)))) + ic
                pool = [(a, b, c) for a in (0, 1, -1) for b in (0, 1, -1) for c in range(-9, 10)] + [(a, b, 0) for a in (-9, -5, 5, 9) for b in range(-9, 10, 3)]
                sel = [R for j, R in enumerate(pool) if (j * 7 + h) % 3 != 0]
                r = h % len(sel)
                return sel[r:] + sel[:r]
            tables["by_shift"] = by_shift
            rv = RV(lattice=rnp.diag([3.0, 2.0, 4.0]), shifts_left_red=rnp.array(cen, dtype=float))
            rv.set_Rvec(mp_grid=rnp.array(mesh), ws_tolerance=1e-3)
            allR = [tuple(int(x) for x in R) for R in rnp.asarray(rv.iRvec)]
            lists = [[tuple(int(x) for x in R) for R in L] for L in rv.iRvec_list]
            ok_union = ok_union and len(set(allR)) == len(allR) and set(allR) == {R for L in lists for R in L}
            for L, idx in zip(lists, rv.iRvec_index_list):
                idx = [int(j) for j in idx]
                ok_index = ok_index and len(idx) == len(L) and all(0 <= j < len(allR) and allR[j] == R for j, R in zip(idx, L))
            ok_mod = ok_mod and len(rv.iRvec_list) == len(rv.Ndegen_list) == len(rv.iRvec_mod_list) == len(rv.iRvec_index_list)
        U.ensure("iRvec is the union of the per-shift lists, each vector once", ok_union)
        U.ensure("iRvec[iRvec_index_list[s][j]] == iRvec_list[s][j] for every shift s and entry j, however large the components", ok_index)
        U.ensure("one list of vectors / degeneracies / mesh images / indices per distinct shift", ok_mod)
    U.run(body, check_feasible=False)

@unit("C01", "iterate_nd / iterate3dpm: the search box of the Wigner-Seitz construction is [-n, n]^3, closed under negation", expect_min=2, scope="shape:sizes up to (3,2,1) in 1-3 dimensions; offsets")
def _iterate(U):
    import itertools as it
    f = U.fn(F_UT, "iterate_nd", globs=dict(np=rnp), model=False, rewrite_comps=False)
    f3 = U.fn(F_UT, "iterate3dpm", globs=dict(np=rnp, iterate_nd=f), model=False, rewrite_comps=False)

    def body():
        ok_pm, ok_plain = True, True
        for size in ((1,), (3,), (2, 1), (1, 1, 1), (3, 2, 1), (2, 2, 2)):
            got = [tuple(int(x) for x in v) for v in f(size, pm=True)]
            want = list(it.product(*[range(-n, n + 1) for n in size]))
            ok_pm = ok_pm and got == want and {tuple(-x for x in v) for v in got} == set(got)
            got0 = [tuple(int(x) for x in v) for v in f(size)]
            ok_plain = ok_plain and got0 == list(it.product(*[range(n) for n in size]))
            start = tuple(range(-1, len(size) - 1))
            gots = [tuple(int(x) for x in v) for v in f(size, start=start)]
            ok_plain = ok_plain and gots == list(it.product(*[range(s_, s_ + n) for s_, n in zip(start, size)]))
        ok_pm = ok_pm and [tuple(int(x) for x in v) for v in f3((2, 1, 3))] == list(it.product(range(-2, 3), range(-1, 2), range(-3, 4)))
        U.ensure("pm=True: every integer vector with |x_i| <= n_i exactly once, in C order -- a set closed under x -> -x (X(-R) = X(R)^dagger needs R and -R searched alike)", ok_pm)
        U.ensure("pm=False: the box [0, n) or [start, start + n), in C order", ok_plain)
    U.run(body, check_feasible=False)
