"""C26  System interpolation reproduces its endpoints.

Under contract (real text on the real numpy, SYMBOLIC matrix entries, centres and alpha):
  system/interpolate.py::SystemInterpolator.__init__   R-set union and re-embedding for R-sets with partial overlap, disjoint, equal and
        nested R-sets (concrete R-vectors, symbolic matrices): the new R list is the duplicate-free union, every old entry sits at the slot
        of its own R-vector, every other slot is zero (so sum_R X(R) ph(k.R) is unchanged for every k), for every matrix key; keys present
        in only one system are removed from both; the two stored systems end up on the same R list; point-group choice.
  system/interpolate.py::SystemInterpolator.interpolate   for symbolic alpha: every matrix entry and every centre is (1-alpha) A + alpha B
        (affine), alpha = 0 gives A, alpha = 1 gives B exactly; the chosen point group is set.
  system/interpolate.py::SystemInterpolatorSOC.interpolate   up / down sub-systems interpolated with the same alpha, nspin bookkeeping.
Bounded stand-in: real random systems on different R-sets -- H(k) of interpolate(0) / interpolate(1) equals H(k) of the endpoints.
"""
import contextlib
import copy
import io
import itertools
import warnings

import numpy as rnp
import z3
from pyvc.core import ctx, sreal, land, lift, SNum, SCplx
from pyvc.unit import unit, Unit
from pyvc.npshim import Shim, sym_cplx_array, sym_real_array

F = "wannierberri/system/interpolate.py"


def _valid(c):
    s = z3.Solver()
    s.add(z3.Not(c.t))
    return s.check() == z3.unsat


def _ceq(x, y):
    x, y = SCplx.of(x), SCplx.of(y)
    return land(x.re == y.re, x.im == y.im)


class RV:
    def __init__(self, lattice=None, iRvec=None, shifts_left_red=None, shifts_right_red=None):
        self.lattice, self.iRvec = lattice, rnp.array(iRvec)
        self.shifts_left_red, self.shifts_right_red = shifts_left_red, shifts_right_red


class Sys:
    def __init__(self, name, Rs, keys, nw=2):
        self.name = name
        # the centres as every k-derivative uses them (Rvectors.cRvec_shifted) live in the R-vector object
        self.rvec = RV(lattice="LAT", iRvec=Rs, shifts_left_red=sym_real_array("sl_" + name, (nw, 3)), shifts_right_red=sym_real_array("sr_" + name, (nw, 3)))
        self.SL, self.SR = self.rvec.shifts_left_red, self.rvec.shifts_right_red
        self._XX_R = {}
        for k in keys:
            tail = (3,) if k == "AA" else ()
            self._XX_R[k] = sym_cplx_array("%s_%s" % (k, name), (len(Rs), nw, nw) + tail)
        self.wannier_centers_cart = sym_real_array("wcc_" + name, (nw, 3))
        self.pointgroup = "PG" + name
        self.cleared = 0
        self.pg_set = None

    def clear_cached_R(self):
        self.cleared += 1

    def clear_cached_wcc(self):
        self.cleared_wcc = getattr(self, "cleared_wcc", 0) + 1

    def set_pointgroup(self, pointgroup=None):
        self.pg_set = pointgroup

    def __deepcopy__(self, memo):
        o = Sys.__new__(Sys)
        o.__dict__.update(self.__dict__)
        o._XX_R = dict(self._XX_R)
        o.rvec = copy.copy(self.rvec)
        return o


CASES = {
    "partial overlap": ([[0, 0, 0], [1, 0, 0], [0, 1, 0]], [[0, 0, 0], [0, 1, 0], [0, 0, -1], [2, 0, 0]]),
    "disjoint": ([[1, 0, 0], [0, 1, 0]], [[0, 0, 0], [-1, 0, 0]]),
    "equal, different order": ([[0, 0, 0], [1, 0, 0], [-1, 0, 0]], [[-1, 0, 0], [0, 0, 0], [1, 0, 0]]),
    "nested": ([[0, 0, 0]], [[0, 0, 0], [0, 0, 1], [0, 0, -1]]),
}


def _init_unit(case):
    @unit("C26", "SystemInterpolator.__init__+interpolate[%s]" % case, scope="shape:R-sets %s; 2 orbitals; keys Ham, AA (+ one-sided keys)" % (CASES[case],), expect_min=6,
          replay=lambda mv, ob: _replay_real(mv, ob), replay_once=True)
    def _i(U):
        sh = Shim()
        init = U.fn(F, "SystemInterpolator.__init__", globs=dict(np=sh, copy=copy, warnings=warnings, Rvectors=RV), model=False)
        interp = U.fn(F, "SystemInterpolator.interpolate", globs=dict(np=sh, copy=copy, Rvectors=RV), model=False)

        def body():
            R0, R1 = CASES[case]
            s0 = Sys("0", R0, ["Ham", "AA", "SS"])
            s1 = Sys("1", R1, ["Ham", "AA", "CC"])
            orig0, orig1 = {k: v.copy() for k, v in s0._XX_R.items()}, {k: v.copy() for k, v in s1._XX_R.items()}
            usepg = (1, 0, -1)[ctx().choose(3, "use_pointgroup")]
            me = type("SI", (), {})()
            with warnings.catch_warnings():
                warnings.simplefilter("ignore")
                init(me, s0, s1, use_pointgroup=usepg)
            A, B = me.system0, me.system1
            union = {tuple(r) for r in R0} | {tuple(r) for r in R1}
            newR = [tuple(int(x) for x in r) for r in A.rvec.iRvec]
            U.ensure("new R list = duplicate-free union of the two R-sets; both stored systems use it", len(newR) == len(union) and set(newR) == union
                     and [tuple(int(x) for x in r) for r in B.rvec.iRvec] == newR)
            U.ensure("keys present in only one system are removed from both", set(A._XX_R) == {"Ham", "AA"} and set(B._XX_R) == {"Ham", "AA"})
            for sysn, orig, Rold in ((A, orig0, R0), (B, orig1, R1)):
                ok = True
                for key in ("Ham", "AA"):
                    M = sysn._XX_R[key]
                    ok = ok and M.shape[0] == len(newR)
                    for i, R in enumerate(newR):
                        for idx in rnp.ndindex(*M.shape[1:]):
                            want = orig[key][(Rold.index(list(R)),) + idx] if list(R) in Rold else 0
                            ok = ok and _valid(_ceq(M[(i,) + idx], want))
                U.ensure("system %s: every old X(R) sits at the slot of its own R, all other slots are zero (Fourier sums unchanged)" % sysn.name, ok)
            U.ensure("R-vector objects rebuilt on the same lattice with each system's own shifts; caches cleared",
                     A.rvec.lattice == "LAT" and A.rvec.shifts_left_red is s0.SL and A.rvec.shifts_right_red is s0.SR and B.rvec.shifts_left_red is s1.SL
                     and B.rvec.shifts_right_red is s1.SR and A.cleared == 1 and B.cleared == 1)
            U.ensure("point group taken from the requested system", me.pointgroup == {1: "PG1", 0: "PG0", -1: None}[usepg])
            U.ensure("the caller's systems are not modified", set(s0._XX_R) == {"Ham", "AA", "SS"} and s0._XX_R["Ham"].shape[0] == len(R0))
            alpha = sreal("alpha")
            new = interp(me, alpha)
            ok = True
            for key in ("Ham", "AA"):
                for idx in rnp.ndindex(*A._XX_R[key].shape):
                    ok = ok and _valid(_ceq(new._XX_R[key][idx], SCplx.of(A._XX_R[key][idx]) * (1 - alpha) + SCplx.of(B._XX_R[key][idx]) * alpha))
            U.ensure("interpolate(alpha): every matrix entry is (1-alpha) A + alpha B (affine in alpha)", ok)
            U.ensure("interpolate(alpha): the quantities cached from the centres (reduced centres, ...) are dropped after the centres were mixed", getattr(new, "cleared_wcc", 0) >= 1)
            U.ensure("interpolate(alpha): centres are (1-alpha) wcc0 + alpha wcc1",
                     all(_valid(lift(new.wannier_centers_cart[i, j]) == (1 - alpha) * A.wannier_centers_cart[i, j] + alpha * B.wannier_centers_cart[i, j]) for i in range(2) for j in range(3)))
            def shifts_ok(n_, al):
                rv = n_.rvec
                ok_ = rv.lattice == "LAT" and [tuple(int(x) for x in r) for r in rv.iRvec] == newR
                for nm_, a0_, b0_ in (("shifts_left_red", s0.SL, s1.SL), ("shifts_right_red", s0.SR, s1.SR)):
                    got = getattr(rv, nm_)
                    ok_ = ok_ and got is not None and rnp.shape(got) == (2, 3)
                    if ok_:
                        ok_ = all(_valid(lift(got[i, j]) == (1 - al) * a0_[i, j] + al * b0_[i, j]) for i in range(2) for j in range(3))
                return ok_
            U.ensure("interpolate(alpha): the centres used by the k-derivatives (R-vector shifts, left and right) are (1-alpha) of system 0's + alpha of system 1's, on the union R list",
                     shifts_ok(new, alpha))
            for a_, S_ in ((0.0, A), (1.0, B)):
                e = interp(me, a_)
                U.ensure("alpha = %g: R-vector shifts are those of system %s" % (a_, S_.name), shifts_ok(e, a_))
                okk = all(_valid(_ceq(e._XX_R[key][idx], S_._XX_R[key][idx])) for key in ("Ham", "AA") for idx in rnp.ndindex(*S_._XX_R[key].shape))
                okk = okk and all(_valid(lift(e.wannier_centers_cart[i, j]) == S_.wannier_centers_cart[i, j]) for i in range(2) for j in range(3))
                U.ensure("alpha = %g reproduces system %s exactly (matrices and centres)" % (a_, S_.name), okk)
            U.ensure("the interpolated system gets the chosen point group and does not alias the stored endpoints", new.pg_set == me.pointgroup and new is not A and new._XX_R is not A._XX_R)
        U.run(body, check_feasible=False)


for _c in CASES:
    _init_unit(_c)


@unit("C26", "SystemInterpolatorSOC.interpolate", scope="shape:nspin 1 and 2", expect_min=2)
def _soc(U):
    base = []
    f = U.fn(F, "SystemInterpolatorSOC.interpolate", globs=dict(np=rnp, copy=copy, super=lambda: type("S", (), {"interpolate": lambda self_, a: (base.append(a), type("N", (), {"nspin": "nspin of system0 (deep copy)"})())[1]})()), model=False)

    def body():
        two = bool(ctx().choose(2, "two spin channels"))
        me = type("X", (), {})()
        me.interpolator_up = type("I", (), {"interpolate": lambda s_, a: ("up", a)})()
        me.interpolator_down = type("I", (), {"interpolate": lambda s_, a: ("down", a)})() if two else None
        alpha = sreal("alpha")
        out = f(me, alpha)
        U.ensure("the spinor part is interpolated by the base class with the same alpha", len(base) >= 1 and base[-1] is alpha)
        U.ensure("up (and down) sub-systems are interpolated with the same alpha; nspin bookkeeping",
                 out.system_up == ("up", alpha) and (out.system_down == ("down", alpha) and out.nspin == 2 if two else out.system_down is out.system_up and out.nspin == 1))
    U.run(body, check_feasible=False)


@unit("C26", "SystemInterpolatorSOC.__init__: the spin-down channel is interpolated unless BOTH systems have a single channel", scope="shape:nspin (1,1), (1,2), (2,1), (2,2)", expect_min=1)
def _soc_init(U):
    made = []

    class SI:
        def __init__(self, a, b, pg):
            made.append((a, b, pg))
    supc = []
    f = U.fn(F, "SystemInterpolatorSOC.__init__", globs=dict(np=rnp, copy=copy, SystemInterpolator=SI,
                                                            super=lambda: __import__("types").SimpleNamespace(__init__=lambda a, b, pg: supc.append((a, b, pg)))), model=False)

    def body():
        n0 = 1 + ctx().choose(2, "nspin of system 0 - 1")
        n1 = 1 + ctx().choose(2, "nspin of system 1 - 1")
        del made[:]
        del supc[:]

        def soc(tag, nspin):
            o = type("SOC", (), {})()
            o.nspin, o.system_up = nspin, tag + "-up"
            o.system_down = tag + "-down" if nspin == 2 else o.system_up        # as SystemSOC sets it up
            return o
        s0, s1 = soc("s0", n0), soc("s1", n1)
        me = type("Me", (), {})()
        me.system0, me.system1 = type("Copy", (), {})(), type("Copy", (), {})()     # the base class stores deep copies
        f(me, s0, s1, use_pointgroup=0)
        ok = supc == [(s0, s1, 0)] and made[0] == ("s0-up", "s1-up", 0) and isinstance(me.interpolator_up, SI)
        if n0 == 1 and n1 == 1:
            ok = ok and me.interpolator_down is None and len(made) == 1
        else:
            ok = ok and len(made) == 2 and made[1] == (s0.system_down, s1.system_down, 0) and me.interpolator_down is not None
        U.ensure("up channels paired; down channels paired (a single-channel system contributes its only channel) unless both systems are single-channel; base class initialised with the SOC parts", ok)
    U.run(body, check_feasible=False)


def _real_endpoints(rng, n):
    import wannierberri as wb
    from wannierberri.system.system_R import System_R
    from wannierberri.system.interpolate import SystemInterpolator
    fails, cases = [], 0
    for t in range(2 if n <= 30 else 8):
        seed = rng.randint(0, 10 ** 6)
        rnp.random.seed(seed)
        with contextlib.redirect_stdout(io.StringIO()), warnings.catch_warnings():
            warnings.simplefilter("ignore")
            lat = rnp.eye(3) * 2.0
            a = System_R.from_random(num_wann=2, nRvec=7, max_R=1, real_lattice=lat, berry=True)
            b = System_R.from_random(num_wann=2, nRvec=19, max_R=2, real_lattice=lat, berry=True)
            for s_ in (a, b):
                for key in list(s_._XX_R.keys()):
                    X = s_.get_R_mat(key)
                    s_.set_R_mat(key, 0.5 * (X + s_.rvec.conj_XX_R(X)), reset=True) if {tuple(r) for r in s_.rvec.iRvec} == {tuple(-r) for r in s_.rvec.iRvec} else None
            si = SystemInterpolator(a, b, use_pointgroup=-1)
            ks = rnp.random.rand(3, 3)

            def H(s_, k):
                return sum(s_.get_R_mat("Ham")[i] * rnp.exp(2j * rnp.pi * rnp.dot(k, R)) for i, R in enumerate(s_.rvec.iRvec))
            e0, e1, eh = si.interpolate(0.0), si.interpolate(1.0), si.interpolate(0.5)
            bad = []
            for k in ks:
                if not rnp.allclose(H(e0, k), H(a, k), atol=1e-12):
                    bad.append("alpha=0 differs from system0 at k")
                if not rnp.allclose(H(e1, k), H(b, k), atol=1e-12):
                    bad.append("alpha=1 differs from system1 at k")
                if not rnp.allclose(H(eh, k), 0.5 * (H(a, k) + H(b, k)), atol=1e-12):
                    bad.append("alpha=1/2 is not the mean")
            from wannierberri.evaluate_k import evaluate_k
            for al_, ref_ in ((0.0, a), (1.0, b)):
                e_ = si.interpolate(al_)
                for q_ in ("energy", "berry_curvature"):
                    if not rnp.allclose(evaluate_k(e_, k=list(ks[0]), quantities=[q_]), evaluate_k(ref_, k=list(ks[0]), quantities=[q_]), atol=1e-9):
                        bad.append("evaluate_k %s at alpha=%g differs from that of the endpoint system" % (q_, al_))
        cases += 1
        if bad:
            fails.append(dict(input=dict(seed=seed), clause="endpoints / affine", failed=sorted(set(bad))))
    return dict(cases=cases, failures=fails, distinct=cases)


def _replay_real(mv, ob):
    import random
    r = _real_endpoints(random.Random(11), 10)
    return dict(reproduced=bool(r["failures"]), input="installed SystemInterpolator on random 2-band systems with different R-sets and different centres (seeds in `failed`)", failed=r["failures"][:3])


Unit("C26", "interpolation endpoints [real systems]", concrete=_real_endpoints,
     bounded_desc="random 2-band systems on different R-sets (7 vs 19 R-vectors): H(k) of interpolate(0), interpolate(1), interpolate(1/2) at 3 random k")
