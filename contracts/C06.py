"""C06  K-point weights partition the Brillouin zone for every grid and history.

Under contract (real text):
  grid/Kpoint.py::KpointBZparallel.absorb    symbolic weights, all flag combinations: weight moved, other untouched, result carried,
                                             double evaluation raises
  grid/Kpoint.py::KpointBZparallel.divide    symbolic K, dK, weight; refinement meshes (2,2,2),(3,1,2),(1,1,1),(2,3,1) and non-periodic
                                             directions: prod(ndiv) children, weight/prod each, children tile the parent cell exactly
                                             (per axis child x covers [K-dK/2+x dK', K-dK/2+(x+1) dK']), parent weight 0, level+1
  grid/Kpoint.py::exclude_equiv_points       symbolic weights, EVERY equivalence pattern of n <= 5 points (all set partitions), every
                                             number of new points: total weight conserved, only new points are removed, removed points
                                             are absorbed by an equivalent survivor, survivors keep their order, old points never merge
  grid/Kpoint_tetra.py::KpointBZtetra.__init__, divide   symbolic vertices: absolute corners kept, children share the two complementary
                                             vertices and split the edge uniformly, weight/ndiv, volume(child) = volume(parent)/ndiv, parent 0
  grid/grid_tetra.py::GridTetra.__init__     the literal 5-tetrahedra table (read from the source): volumes 1/6,1/6,1/6,1/6,1/3, every point
                                             of the unit cube lies in one of them, interiors pairwise disjoint (linear real arithmetic)
Bounded stand-in: Grid.get_K_list with real point groups on small grids (weights positive, sum 1, orbits partition the grid, weight =
orbit size / N), refinement histories, GridTetra total weight/volume after splitting.
"""
import ast
import contextlib
import io
import itertools
from fractions import Fraction

import numpy as rnp
import z3
from pyvc.core import ctx, sreal, sint, land, lor, lnot, implies, lift, SNum, conc, ite, forall
from pyvc.unit import unit, Unit
from pyvc.extract import read_source, find_def, ContractUnbound
from pyvc.npshim import Shim, sym_real_array

FK = "wannierberri/grid/Kpoint.py"
FT = "wannierberri/grid/Kpoint_tetra.py"
FG = "wannierberri/grid/grid_tetra.py"


class _Obj:
    pass


def _valid(c):
    s = z3.Solver()
    s.add(z3.Not(c.t if hasattr(c, "t") else z3.BoolVal(bool(c))))
    return s.check() == z3.unsat


# ------------------------------------------------------------------ absorb
@unit("C06", "KpointBZparallel.absorb", expect_min=4)
def _absorb(U):
    f = U.fn(FK, "KpointBZparallel.absorb", globs={}, model=False)

    def mk(name, ev):
        k = _Obj()
        k.factor = sreal("w_" + name)
        k.was_evaluated_flag = ev
        k.result = "res_" + name if ev else None
        k.get_result = lambda: k.result
        def set_result(r):
            k.result = r
            k.was_evaluated_flag = True
        k.set_result = set_result
        def add_factor(x):
            k.factor = k.factor + x
        k.add_factor = add_factor
        return k

    def body():
        ev_self = bool(ctx().choose(2, "self evaluated"))
        mode = ctx().choose(3, "other: None / fresh / evaluated")
        me = mk("self", ev_self)
        w0 = me.factor
        if mode == 0:
            f(me, None)
            U.ensure("absorbing None changes nothing", lambda: me.factor == w0)
            return
        other = mk("other", mode == 2)
        wo = other.factor
        if ev_self and mode == 2:
            try:
                f(me, other)
                U.ensure("two evaluated points must not be merged (RuntimeError)", False)
            except RuntimeError:
                U.ensure("two evaluated points must not be merged (RuntimeError)", True)
                U.ensure("nothing moved when merging is refused", lambda: land(me.factor == w0, other.factor == wo))
            return
        f(me, other)
        U.ensure("weight of the absorbed point is added", lambda: me.factor == w0 + wo)
        U.ensure("the absorbed point itself is untouched", lambda: other.factor == wo)
        U.ensure("an existing result is carried over to the surviving point", me.result == ("res_other" if mode == 2 else ("res_self" if ev_self else None)))
    U.run(body, check_feasible=False)


# ------------------------------------------------------------------ divide
def _divide_unit(ndiv, periodic, prop="C06"):
    @unit(prop, "KpointBZparallel.divide[ndiv=%s,periodic=%s]" % (ndiv, periodic), scope="shape:ndiv=%s; use_symmetry on/off; with and without a point group; result in memory or dumped" % (ndiv,), expect_min=40)
    def _d(U):
        made = []

        class KP:
            def __init__(self, **kw):
                self.__dict__.update(kw)
                self.result_set = False
                made.append(self)

            def set_result(self, r):
                self.result_set = True
        merged = []
        f = U.fn(FK, "KpointBZparallel.divide", globs=dict(np=Shim(symbolic_zeros=False), KpointBZparallel=KP,
                                                          exclude_equiv_points=lambda lst: merged.append(list(lst))), model=False)

        def body():
            del made[:]
            del merged[:]
            use_sym = bool(ctx().choose(2, "use_symmetry"))
            pg = [None, "the point group"][ctx().choose(2, "point group present")]
            me = _Obj()
            me.K = sym_real_array("K", (3,))
            me.dK = sym_real_array("dK", (3,))
            for j in range(3):
                ctx().assume(me.dK[j] > 0)
            me.factor = sreal("w")
            me.NKFFT = rnp.array([2, 3, 4])
            me.pointgroup = pg
            me.refinement_level = 3
            me.set_factor = lambda x: setattr(me, "factor", x)
            me.get_result = lambda: "res"
            # state of an evaluated K-point as KpointBZ keeps it: the result in memory, or dumped / discarded (None)
            me.result = ["res", None][ctx().choose(2, "result in memory / dumped")]
            me.was_evaluated_flag = True
            w0 = me.factor
            nd = rnp.array(ndiv)
            out = f(me, nd, rnp.array(periodic), use_symmetry=use_sym)
            U.ensure("symmetry-equivalent children are merged exactly when symmetry is in use AND a point group exists (once, over all children); otherwise every sub-cell keeps its own point",
                     (len(merged) == 1 and len(merged[0]) == len(made) and all(a is b for a, b in zip(merged[0], made))) if (use_sym and pg is not None) else merged == [])
            U.ensure("no child arrives already evaluated: each is evaluated (and added to the integral) by the next iteration", not any(c.result_set for c in made))
            eff = [ndiv[j] if periodic[j] else 1 for j in range(3)]
            ntot = eff[0] * eff[1] * eff[2]
            U.ensure("prod(ndiv) children (non-periodic directions are not divided)", len(out) == ntot)
            U.ensure("every child carries weight/prod(ndiv); the weights add up to the parent's", lambda: land(*[c.factor == w0 / ntot for c in out]))
            U.ensure("the parent keeps no weight", lambda: lift(me.factor) == 0)
            U.ensure("children are one refinement level deeper, same FFT grid and point group", all(c.refinement_level == 4 and c.NKFFT is me.NKFFT and c.pointgroup is pg for c in out))
            U.ensure("child cell size is dK/ndiv", lambda: land(*[c.dK[j] == me.dK[j] / eff[j] for c in out for j in range(3)]))
            # tiling: the children's cells are exactly the sub-cells of the parent cell, each sub-cell once
            cells = {}
            ok = True
            for c in out:
                found = None
                for x in itertools.product(*[range(e) for e in eff]):
                    if all(_valid(c.K[j] - c.dK[j] / 2 == me.K[j] - me.dK[j] / 2 + x[j] * (me.dK[j] / eff[j])) for j in range(3)):
                        found = x
                        break
                ok = ok and found is not None and found not in cells
                cells[found] = c
            U.ensure("children tile the parent cell: child (x,y,z) covers [K-dK/2 + x dK', K-dK/2 + (x+1) dK'] per axis, every sub-cell exactly once",
                     ok and len(cells) == ntot)
        U.run(body, check_feasible=False)


_divide_unit((2, 2, 2), (True, True, True))
_divide_unit((3, 1, 2), (True, True, True))
_divide_unit((1, 1, 1), (True, True, True))
_divide_unit((2, 3, 1), (True, True, True))
_divide_unit((2, 2, 2), (True, True, False))
_divide_unit((3, 2, 2), (False, True, False))


# ------------------------------------------------------------------ exclude_equiv_points
def _partitions(n):
    if n == 0:
        yield []
        return
    for p in _partitions(n - 1):
        for i in range(len(p)):
            yield p[:i] + [p[i] + [n - 1]] + p[i + 1:]
        yield p + [[n - 1]]


def _exclude_unit(n):
    @unit("C06", "exclude_equiv_points[n=%d]" % n, scope="shape:n=%d points, all equivalence patterns, all numbers of new points" % n, expect_min=4,
          tiers=("quick", "thorough") if n <= 4 else ("thorough",))
    def _e(U):
        f = U.fn(FK, "exclude_equiv_points", globs=dict(np=rnp), model=False)
        parts = list(_partitions(n))

        def body():
            part = parts[ctx().choose(len(parts), "equivalence classes")]
            newp = ctx().choose(n + 2, "new_points (last choice: None)")
            new_points = None if newp == n + 1 else newp
            same_shell = bool(ctx().choose(2, "all points at the same distance"))
            cls = {}
            for ci, c in enumerate(part):
                for i in c:
                    cls[i] = ci
            Ks = []
            for i in range(n):
                k = _Obj()
                k.i = i
                k.factor = sreal("w%d" % i)
                k.distGamma = 1.0 if same_shell else 1.0 + 0.5 * cls[i]       # equivalent points lie at the same distance
                k.absorbed = []
                k.equiv = (lambda o, k=k: cls[k.i] == cls[o.i])

                def absorb(o, k=k):
                    k.absorbed.append(o.i)
                    k.factor = k.factor + o.factor
                k.absorb = absorb
                Ks.append(k)
            w0 = [k.factor for k in Ks]
            lst = list(Ks)
            f(lst, new_points) if new_points is not None else f(lst)
            npts = n if new_points is None else new_points
            first_new = n - npts
            kept = [k.i for k in lst]
            removed = [i for i in range(n) if i not in kept]
            U.ensure("surviving points keep their order", kept == sorted(kept))
            U.ensure("only new points are removed (old, possibly evaluated, points are never deleted)", all(i >= first_new for i in removed))
            # a removed point may have absorbed others before it was absorbed itself (the order inside a shell is numpy's argsort order of equal
            # distances, which is not fixed): what matters is where its weight ends up -- follow the chain of absorptions
            absorber = {}
            for j in range(n):
                for i in Ks[j].absorbed:
                    absorber.setdefault(i, []).append(j)

            def owner(i):
                seen = set()
                while i in absorber and i not in seen:
                    seen.add(i)
                    i = absorber[i][0]
                return i
            U.ensure("every removed point was absorbed exactly once, and the chain of absorptions ends in an equivalent survivor",
                     all(len(absorber.get(i, [])) == 1 and owner(i) in kept and cls[owner(i)] == cls[i] for i in removed) and all(i not in absorber for i in kept))
            U.ensure("no new point survives next to an equivalent earlier survivor",
                     all(not (cls[a] == cls[b] and b >= first_new) for a in kept for b in kept if a < b))
            tot0 = 0
            for w in w0:
                tot0 = tot0 + w
            tot1 = 0
            for k in lst:
                tot1 = tot1 + k.factor
            U.ensure("the total weight is conserved", lambda: tot1 == tot0)
            U.ensure("each survivor's weight is its own plus the weights of the points whose absorption chain ends in it",
                     lambda: land(*[Ks[j].factor == _sum([w0[j]] + [w0[i] for i in removed if owner(i) == j]) for j in kept]))
        U.run(body, check_feasible=False, max_paths=100000)
        U.assumption("equiv() is an equivalence relation and equivalent points have equal distGamma (the symmetry images of a point lie at the same distance from the nearest Gamma image)")


def _sum(xs):
    out = xs[0]
    for x in xs[1:]:
        out = out + x
    return out


for _n in (1, 2, 3, 4, 5):
    _exclude_unit(_n)


# ------------------------------------------------------------------ tetrahedra
@unit("C06", "KpointBZtetra.__init__+divide", scope="shape:symbolic vertices, ndiv=2 and 3, every longest-edge choice", expect_min=6)
def _tetra(U):
    made = []
    init = U.fn(FT, "KpointBZtetra.__init__", globs=dict(np=Shim(symbolic_zeros=False), super=lambda: _SuperStub()), model=False)

    class _SuperStub:
        def __init__(self):
            pass

    def body():
        del made[:]
        iedge = ctx().choose(6, "longest edge")
        ndiv = 2 + ctx().choose(2, "ndiv")
        V = sym_real_array("v", (4, 3))
        K0 = sym_real_array("K", (3,))

        class KT:
            def __init__(self, vertices, basis=None, K=0, NKFFT=None, factor=1., refinement_level=0, split_level=0):
                cntr = sum(vertices[1:], vertices[0]) / 4
                self.K = rnp.array([K[j] + cntr[j] for j in range(3)], dtype=object)
                self.vertices = vertices - cntr
                self.factor, self.basis, self.NKFFT = factor, basis, NKFFT
                self.refinement_level, self.split_level = refinement_level, split_level
                made.append(self)
        divide = U.fn(FT, "KpointBZtetra.divide", globs=dict(np=Shim(symbolic_zeros=False), KpointBZtetra=KT, Iterable=__import__("typing").Iterable,
                                                            EDGES=_const(FT, "EDGES"), EDGES_COMPLEMENT=[list({0, 1, 2, 3} - set(e)) for e in _const(FT, "EDGES")]), model=False)
        # --- __init__ : absolute corners kept, vertices centred
        me = _Obj()
        rec = {}

        class Sup:
            def __init__(self_, **kw):
                rec.update(kw)
        init_f = U.fn(FT, "KpointBZtetra.__init__", globs=dict(np=Shim(symbolic_zeros=False), super=lambda: types_ns(__init__=lambda **kw: rec.update(kw))), model=False)
        init_f(me, V, basis="B", K=K0, NKFFT="FFT", factor=sreal("w"), refinement_level=1, split_level=2)
        U.ensure("__init__: K + vertices are the absolute corners handed in", lambda: land(*[rec["K"][j] + me.vertices[i][j] == K0[j] + V[i][j] for i in range(4) for j in range(3)]))
        U.ensure("__init__: stored vertices are centred (sum zero)", lambda: land(*[me.vertices[0][j] + me.vertices[1][j] + me.vertices[2][j] + me.vertices[3][j] == 0 for j in range(3)]))
        U.ensure("__init__: weight, levels, basis, FFT passed through", lambda: land(rec["factor"] == sreal("w")) if rec.get("NKFFT") == "FFT" and rec.get("refinement_level") == 1 and me.split_level == 2 and me.basis == "B" else False)
        # --- divide
        t = _Obj()
        t.vertices = V
        t.K = K0
        t.factor = sreal("w")
        t.basis, t.NKFFT = "B", "FFT"
        t.refinement_level, t.split_level = 5, 7
        t.set_factor = lambda x: setattr(t, "factor", x)
        setattr(t, "_KpointBZtetra__i_max_edge", iedge)
        w0 = t.factor
        out = divide(t, ndiv=ndiv, refine=bool(ctx().choose(2, "refine")))
        E = _const(FT, "EDGES")
        e = E[iedge]
        comp = sorted({0, 1, 2, 3} - set(e))
        U.ensure("ndiv children with weight/ndiv each; parent weight 0", lambda: land(len(out) == ndiv, lift(t.factor) == 0, *[c.factor == w0 / ndiv for c in out]))
        ok = True
        for i, c in enumerate(out):
            absolute = [[c.K[j] + c.vertices[v][j] for j in range(3)] for v in range(4)]
            want = [[K0[j] + V[comp[0]][j] for j in range(3)], [K0[j] + V[comp[1]][j] for j in range(3)],
                    [K0[j] + V[e[0]][j] + Fraction(i, ndiv) * (V[e[1]][j] - V[e[0]][j]) for j in range(3)],
                    [K0[j] + V[e[0]][j] + Fraction(i + 1, ndiv) * (V[e[1]][j] - V[e[0]][j]) for j in range(3)]]
            ok = ok and all(_valid(absolute[v][j] == want[v][j]) for v in range(4) for j in range(3))
        U.ensure("child i has the two vertices opposite to the split edge and the i-th uniform piece of that edge (absolute coordinates)", ok)

        def det3(a, b, c):
            return (a[0] * (b[1] * c[2] - b[2] * c[1]) - a[1] * (b[0] * c[2] - b[2] * c[0]) + a[2] * (b[0] * c[1] - b[1] * c[0]))

        def sdet(vs):
            d = [[vs[k][j] - vs[0][j] for j in range(3)] for k in (1, 2, 3)]
            return det3(*d)
        parent = sdet([V[comp[0]], V[comp[1]], V[e[0]], V[e[1]]])
        U.ensure("signed volume of every child = signed volume of the parent / ndiv (so the children tile the parent)",
                 lambda: land(*[sdet(list(c.vertices)) * ndiv == parent for c in out]))
        U.ensure("levels: refine -> refinement_level+1, split -> split_level+1", all((c.refinement_level, c.split_level) in ((6, 7), (5, 8)) for c in out))
    U.run(body, check_feasible=False)


class types_ns:
    def __init__(self, **kw):
        self.__dict__.update(kw)


@unit("C06", "GridTetra.get_K_list: fresh, unevaluated copies of the grid's tetrahedra (a second run starts from the same tiling with weight one)", scope="shape:3 tetrahedra, symbolic vertices and weights", expect_min=4)
def _tetra_klist(U):
    made = []

    class KT:
        def __init__(self, **kw):
            self.__dict__.update(kw)
            self.result, self.was_evaluated_flag = None, False        # what KpointBZ.__init__ sets
            made.append(self)
    cp = U.fn(FT, "KpointBZtetra.copy", globs=dict(np=rnp, KpointBZtetra=KT), model=False)
    KT.copy = lambda self: cp(self)
    gk = U.fn(FG, "GridTetra.get_K_list", globs=dict(np=rnp), model=False)

    def body():
        del made[:]
        grid = _Obj()
        grid.K_list = []
        for i in range(3):
            grid.K_list.append(KT(vertices=sym_real_array("v%d" % i, (4, 3)), K=sym_real_array("K%d" % i, (3,)), NKFFT="FFT", factor=sreal("w%d" % i), basis="B", refinement_level=i, split_level=2 * i))
            grid.K_list[-1].result, grid.K_list[-1].was_evaluated_flag = "stale result of an earlier run", True
            grid.K_list[-1].factor = sreal("w_now%d" % i) if i == 1 else grid.K_list[-1].factor          # a point whose weight an earlier run changed keeps ITS state; the copy takes the current weight
        own = list(grid.K_list)
        n_before = len(made)
        out = gk(grid, use_symmetry=bool(ctx().choose(2, "use_symmetry")))
        U.ensure("as many K-points as the grid has tetrahedra, in the same order, none of them the grid's own object (frame: a run that refines or evaluates them leaves the grid untouched)",
                 len(out) == 3 and all(o is not k for o in out for k in own) and len(set(map(id, out))) == 3 and grid.K_list == own and len(made) == n_before + 3)
        U.ensure("every copy is unevaluated", all(o.result is None and o.was_evaluated_flag is False for o in out))
        # KpointBZtetra(vertices, K) re-centres: centre + vertices are the absolute corners; the stored vertices are centred, so K and vertices come out unchanged
        U.ensure("every copy has the same corners, weight, basis, FFT grid and levels as the grid's tetrahedron",
                 lambda: land(*[land(*[lift(o.vertices[a][j]) == lift(k.vertices[a][j]) for a in range(4) for j in range(3)] + [lift(o.K[j]) == lift(k.K[j]) for j in range(3)] + [lift(o.factor) == lift(k.factor)])
                                for o, k in zip(out, own)]) if all(o.basis == "B" and o.NKFFT == "FFT" and o.refinement_level == k.refinement_level and o.split_level == k.split_level for o, k in zip(out, own)) else False)
    U.run(body, check_feasible=False)


def _const(relpath, name):
    src, _ = read_source(relpath)
    for node in ast.parse(src).body:
        if isinstance(node, ast.Assign) and any(isinstance(t, ast.Name) and t.id == name for t in node.targets):
            return ast.literal_eval(node.value)
    raise ContractUnbound("%s not found in %s" % (name, relpath))


@unit("C06", "GridTetra.__init__ five-tetrahedra table", expect_min=4)
def _five(U):
    src, path = read_source(FG)
    node, _c = find_def(ast.parse(src), "GridTetra.__init__")
    table = None
    for n in ast.walk(node):
        if isinstance(n, ast.Assign) and ast.unparse(n.targets[0]) == "tetrahedra" and isinstance(n.value, ast.BinOp):
            try:
                table = ast.literal_eval(n.value.left.args[0])
                shift = ast.literal_eval(n.value.right.value.args[0])
            except Exception:
                table = None
    if table is None:
        raise ContractUnbound("literal 5-tetrahedra table not found in GridTetra.__init__")
    T = [[[Fraction(x) - Fraction(str(s)) for x, s in zip(v, shift)] for v in t] for t in table]

    def det(t):
        d = [[t[k][j] - t[0][j] for j in range(3)] for k in (1, 2, 3)]
        return (d[0][0] * (d[1][1] * d[2][2] - d[1][2] * d[2][1]) - d[0][1] * (d[1][0] * d[2][2] - d[1][2] * d[2][0]) + d[0][2] * (d[1][0] * d[2][1] - d[1][1] * d[2][0]))

    def inside(t, p, strict):
        # barycentric coordinates by Cramer (the vertices are concrete rationals, p symbolic): all >= 0 (or > 0)
        D = det(t)
        conds = []
        for k in range(4):
            tk = [list(v) for v in t]
            tk[k] = p
            dk = det(tk)
            conds.append((dk * (1 if D > 0 else -1) > 0) if strict else (dk * (1 if D > 0 else -1) >= 0))
        return land(*conds)

    def build_vol():
        vols = sorted(abs(det(t)) / 6 for t in T)
        return [], land(*[lift(float(0)) == 0]) if vols == [Fraction(1, 6)] * 4 + [Fraction(1, 3)] else (lift(1) == 0)
    U.lemma("volumes are 1/6,1/6,1/6,1/6,1/3 (sum 1 = the cell)", lambda: ([], (lift(0) == 0) if sorted(abs(det(t)) / 6 for t in T) == [Fraction(1, 6)] * 4 + [Fraction(1, 3)] else (lift(1) == 0)))
    p = [sreal("px"), sreal("py"), sreal("pz")]
    half = Fraction(1, 2)
    incube = land(*[land(x >= -half, x <= half) for x in p])
    U.lemma("every point of the cell [-1/2,1/2]^3 lies in one of the five tetrahedra", lambda: ([incube], lor(*[inside(t, p, False) for t in T])))
    for a in range(5):
        for b in range(a + 1, 5):
            U.lemma("interiors of tetrahedra %d and %d are disjoint" % (a, b), lambda a=a, b=b: ([], lnot(land(inside(T[a], p, True), inside(T[b], p, True)))))
    U.lemma("every tetrahedron lies inside the cell", lambda: ([], land(*[land(c >= -half, c <= half) for t in T for v in t for c in [lift(float(x)) for x in v]])))
    U.functions.append(dict(qualname="%s::GridTetra.__init__ (literal table)" % FG, file=path, lines=[node.lineno, node.end_lineno],
                            sha256=__import__("hashlib").sha256(str(table).encode()).hexdigest(), dropped=[], rewritten=["the literal array of vertices read from the AST"]))


# ------------------------------------------------------------------ bounded stand-in: real grids and groups
def _real_grids(rng, n):
    import wannierberri as wb
    from wannierberri.symmetry.point_symmetry import PointGroup, PointSymmetry
    from wannierberri.grid import Grid
    fails, cases = [], 0
    lat = rnp.eye(3)
    hexlat = rnp.array([[1, 0, 0], [-0.5, rnp.sqrt(3) / 2, 0], [0, 0, 1.3]])
    with contextlib.redirect_stdout(io.StringIO()):
        from wannierberri.symmetry import point_symmetry as ps
        groups = [("C4z+Inv", ["C4z", "Inversion"], lat), ("C2x,C2y,TR", ["C2x", "C2y", "TimeReversal"], lat), ("identity", [], lat),
                  ("C3z", ["C3z"], hexlat), ("C6z+Mz", ["C6z", "Mz"], hexlat), ("C4z*TR", [ps.C4z * ps.TimeReversal] if hasattr(ps, "C4z") else ["C4z"], lat)]
    for name, gens, L in groups:
        for div in ((2, 2, 2), (4, 4, 1), (3, 3, 2), (6, 6, 1)):
            with contextlib.redirect_stdout(io.StringIO()):
                try:
                    pg = PointGroup(gens, real_lattice=L)
                    if not pg.symmetric_grid(rnp.array(div)):
                        continue
                    system = types_ns(periodic=rnp.array([True] * 3), NKFFT_recommended=rnp.array([1, 1, 1]), pointgroup=pg)
                    grid = Grid(system=system, NKdiv=rnp.array(div), NKFFT=1)
                    Ks = grid.get_K_list(use_symmetry=True)
                except Exception as e:
                    if "wannierberri" in str(getattr(e, "__traceback__", "")):
                        raise
                    raise
            cases += 1
            N = int(rnp.prod(div))
            bad = []
            fac = rnp.array([K.factor for K in Ks])
            if not (fac > 0).all():
                bad.append("non-positive weight")
            if abs(fac.sum() - 1) > 1e-12:
                bad.append("weights sum to %r" % fac.sum())
            seen = {}
            for K in Ks:
                st = {tuple(int(v) for v in (rnp.round(k * rnp.array(div)).astype(int) % rnp.array(div))) for k in K.star}
                if abs(K.factor - len(st) / N) > 1e-12:
                    bad.append("weight %r != orbit size %d / %d" % (K.factor, len(st), N))
                for s in st:
                    seen[s] = seen.get(s, 0) + 1
            if len(seen) != N or any(v != 1 for v in seen.values()):
                bad.append("orbits of the kept points do not cover each grid point exactly once")
            # one refinement step with merging keeps the total weight
            with contextlib.redirect_stdout(io.StringIO()):
                from wannierberri.grid.Kpoint import exclude_equiv_points
                l1 = len(Ks)
                Ks += Ks[rng.randrange(l1)].divide(ndiv=rnp.array([2, 2, 2]), periodic=rnp.array([True] * 3), use_symmetry=True)
                exclude_equiv_points(Ks, new_points=len(Ks) - l1)
            tot = sum(K.factor for K in Ks)
            if abs(tot - 1) > 1e-12 or any(K.factor < 0 for K in Ks):
                bad.append("after refinement + merging: total weight %r" % tot)
            if bad:
                fails.append(dict(input=dict(group=name, div=list(div)), clause="weights partition the grid", failed=bad[:4]))
    return dict(cases=cases, failures=fails, distinct=cases)


Unit("C06", "Grid.get_K_list + refinement [real point groups]", concrete=_real_grids,
     bounded_desc="6 (magnetic) point groups on cubic / hexagonal lattices, grids 2x2x2, 4x4x1, 3x3x2, 6x6x1 where compatible; one random refinement step with merging")


# ------------------------------------------------------------------ Grid.get_K_list : symmetry reduction of the initial grid
def _closure(gens):
    ops = [rnp.eye(3, dtype=int)]
    changed = True
    while changed:
        changed = False
        for a in list(ops):
            for g in gens:
                c = a @ g
                if not any((c == o).all() for o in ops):
                    ops.append(c)
                    changed = True
    return ops


GROUPS = {
    "identity": [],
    "C2y": [rnp.diag([-1, 1, -1])],
    "Mx,Mz": [rnp.diag([-1, 1, 1]), rnp.diag([1, 1, -1])],
    "inversion": [rnp.diag([-1, -1, -1])],
    "C2x,C2y": [rnp.diag([1, -1, -1]), rnp.diag([-1, 1, -1])],
    "C4z": [rnp.array([[0, -1, 0], [1, 0, 0], [0, 0, 1]])],
    "C3(111)": [rnp.array([[0, 0, 1], [1, 0, 0], [0, 1, 0]])],
}


def _klist_unit(gname, tiers=("quick", "thorough")):
    @unit("C06", "Grid.get_K_list[%s]" % gname, scope="shape:every grid with 1..4 (quick) / 1..5 (thorough) points per direction compatible with the group",
          expect_min=3, tiers=tiers)
    def _k(U):
        ops = _closure(GROUPS[gname])

        class PG:
            def star(self, K):
                imgs = []
                for o in ops:
                    k = o @ K
                    if not any(rnp.allclose((k - q) - rnp.round(k - q), 0, atol=1e-9) for q in imgs):
                        imgs.append(k)
                return rnp.array(imgs)

        class KP:
            def __init__(self, K, dK, NKFFT, factor, pointgroup, refinement_level):
                self.K, self.dK, self.factor, self.pointgroup = K, dK, factor, pointgroup
                self.absorbed = 0

            @property
            def star(self):
                return self.pointgroup.star(self.K)

            def absorb(self, other):
                if other is None:
                    return
                self.factor += other.factor
                self.absorbed += 1
        f = U.fn("wannierberri/grid/grid.py", "Grid.get_K_list", globs=dict(np=rnp, time=lambda: 0.0, print=lambda *a, **k: None, KpointBZparallel=KP), model=False)

        def body():
            import os
            top = 4 if os.environ.get("VERIF_TIER", "quick") != "thorough" else 5
            bad_sum, bad_w, bad_part, ngrids = [], [], [], 0
            for div in itertools.product(range(1, top + 1), repeat=3):
                d = rnp.array(div)
                # the grid must be mapped onto itself by the group
                if not all(rnp.allclose(((o @ (rnp.array(p) / d)) * d) - rnp.round((o @ (rnp.array(p) / d)) * d), 0, atol=1e-9)
                           for o in ops for p in ((1, 0, 0), (0, 1, 0), (0, 0, 1))):
                    continue
                ngrids += 1
                me = _Obj()
                me.div, me.FFT, me.pointgroup = d, rnp.array([1, 1, 1]), PG()
                Ks = f(me, use_symmetry=True)
                N = int(d.prod())
                if abs(sum(K.factor for K in Ks) - 1) > 1e-12 or any(K.factor <= 0 for K in Ks):
                    bad_sum.append(div)
                seen = {}
                for K in Ks:
                    orb = {tuple(int(v) for v in rnp.round(k * d).astype(int) % d) for k in K.star}
                    if abs(K.factor - len(orb) / N) > 1e-12:
                        bad_w.append(div)
                    for s_ in orb:
                        seen[s_] = seen.get(s_, 0) + 1
                if len(seen) != N or any(v != 1 for v in seen.values()):
                    bad_part.append(div)
                Ku = f(me, use_symmetry=False)
                if len(Ku) != N or any(abs(K.factor - 1 / N) > 1e-15 for K in Ku):
                    bad_sum.append(("no symmetry",) + div)
            U.ensure("at least one compatible grid explored", ngrids > 0)
            U.ensure("weights are positive and sum to one (with and without symmetry reduction)", not bad_sum)
            U.ensure("every retained point carries the weight of its orbit: |orbit| / N", not bad_w)
            U.ensure("the orbits of the retained points cover each grid point exactly once", not bad_part)
            ctx().ghost["grids"] = ngrids
        U.run(body, check_feasible=False)
        U.assumption("PointGroup.star(k) lists the distinct images of k (contract of star, see C09); absorb() adds the weight (proved above)")


for _g in GROUPS:
    _klist_unit(_g)
