"""C03  Integrals depend only on the k-point set, not on its FFT factorisation.

Chain of contracts (from the property: same result for every N_i = NKdiv_i x NKFFT_i and every FFT library):

  (1) Grid.get_K_list(use_symmetry=False):  one K-point per (x,y,z) in [0,div)^3 with K = (x,y,z)/div, dK = 1/div,
      NKFFT = FFT, factor = 1/prod(div).
  (2) run() hands the calculators a Data_K built with dK = Kpoint.Kp_fullBZ = K/NKFFT; Data_K.kpoints_all = points_FFT + dK.
      Hence K-point (x) x FFT-point (i) evaluates the dense-mesh point  n = i*div + x  of the N = div*FFT mesh:
      k = n/N, and the pairs (i,x) -> n are a bijection onto [0,N)  [lemma, proved for ALL div, FFT >= 1].
  (3) every calculator returns  (1/nk) * sum over its nk FFT points of a per-k summand  (StaticCalculator: unit shared with
      C13; DynamicCalculator: unit below), and run() adds the K-points with weight `factor`: each dense-mesh point gets
      the total weight factor/nk = 1/prod(N) whatever the factorisation.
  (4) the interpolated matrices at a dense-mesh point are the same whatever the factorisation and library: C02.
  (5) determineNK resolves (NK, NKFFT, NKdiv) as documented.

Tiers.  (2) lemma: unbounded (z3, non-linear integer arithmetic).  (1),(2) code: the real text executed for EVERY factorisation of
every mesh size up to 6 (quick) / 8 (thorough) per direction on a set of anisotropic meshes -- complete for those sizes.
(3),(5): per shape.  Bounded stand-in: the installed run() for all factorisations of a 4x2x6 mesh, three calculators,
both FFT libraries.
Assumption (stated, not proved): a calculator's per-k summand depends only on the interpolated data at that k-point
(tetrahedron corners: offsets dK/(2 NKFFT) = 1/(2N), factorisation independent -- C33).
"""
import contextlib
import io
import itertools
import types
import warnings
from fractions import Fraction

import numpy as rnp
import z3

from pyvc.core import ctx, sreal, sint, SNum, SCplx, land, lor, implies, lift, SBool
from pyvc.unit import unit, Unit
from pyvc.npshim import Shim, sym_cplx_array, sym_real_array

F_GR = "wannierberri/grid/grid.py"
F_KP = "wannierberri/grid/Kpoint.py"
F_DK = "wannierberri/data_K/data_K.py"
F_DYN = "wannierberri/calculators/dynamic.py"
F_UT = "wannierberri/utility.py"
F_RG = "wannierberri/run_grid.py"


def _valid(c):
    s = z3.Solver()
    s.add(z3.Not(c.t))
    return s.check() == z3.unsat


# ------------------------------------------------------------------ (2) the bijection lemma, all div, FFT
@unit("C03", "lemma: (FFT index i, K index x) -> n = i*div + x is a bijection onto the dense mesh, and k = n/(div*FFT)", expect_min=3, timeout_ms=60000)
def _lemma(U):
    # injectivity, split so that no step needs more non-linear reasoning than "a >= 0 and div >= 1 give a*div >= 0" (the one-goal form was
    # decided in 1-3 s on an idle machine but went `unknown` at 10 s with all cores busy): WLOG i2 = i + 1 + a with a >= 0 is impossible
    # (the symmetric case is this one with the names exchanged), and i2 == i leaves a linear statement
    def inj_lt():
        d, i, a, x, x2 = sint("div"), sint("i"), sint("a"), sint("x"), sint("x2")
        hyp = [d >= 1, a >= 0, i >= 0, x >= 0, x < d, x2 >= 0, x2 < d, i * d + x == (i + 1 + a) * d + x2]
        return hyp, a < 0          # contradicts a >= 0: derivable only because the hypotheses are inconsistent, i.e. the case cannot occur
    U.lemma("injective: two different FFT indices never give the same n (i2 = i + 1 + a, a >= 0)", inj_lt)

    def inj_eq():
        d, i, x, x2 = sint("div"), sint("i"), sint("x"), sint("x2")
        hyp = [d >= 1, i >= 0, x >= 0, x < d, x2 >= 0, x2 < d, i * d + x == i * d + x2]
        return hyp, x == x2
    U.lemma("injective: with the same FFT index, the same n means the same K index", inj_eq)

    def rng():
        d, f, i, x = sint("div"), sint("FFT"), sint("i"), sint("x")
        hyp = [d >= 1, f >= 1, i >= 0, i < f, x >= 0, x < d]
        return hyp, land(i * d + x >= 0, i * d + x <= d * f - 1)
    U.lemma("range", rng)

    def sur():
        d, f, n, q, r = sint("div"), sint("FFT"), sint("n"), sint("q"), sint("r")
        hyp = [d >= 1, f >= 1, n >= 0, n <= d * f - 1, n == q * d + r, r >= 0, r < d]       # q, r = divmod(n, div)
        return hyp, land(q >= 0, q < f)
    U.lemma("surjective (the quotient of n by div is a valid FFT index)", sur)

    def val():
        d, f, i, x = sreal("div"), sreal("FFT"), sreal("i"), sreal("x")
        hyp = [d >= 1, f >= 1]
        return hyp, i / f + (x / d) / f == (i * d + x) / (d * f)
    U.lemma("k = i/FFT + (x/div)/FFT = n/(div*FFT)", val)


# ------------------------------------------------------------------ (1),(2) the real text for every factorisation
def _factorisations(N):
    return [(d, N // d) for d in range(1, N + 1) if N % d == 0]


def _kset_unit(meshes, tag, tiers=("quick", "thorough")):
    @unit("C03", "get_K_list x kpoints_all cover the dense mesh exactly once with equal weights [%s]" % tag,
          scope="shape:every factorisation NKdiv x NKFFT of the meshes %s" % (meshes,), expect_min=3, tiers=tiers)
    def _k(U):
        NP = rnp
        g = dict(np=NP, time=lambda: 0.0, print=lambda *a, **k: None, pickle=None, SYMMETRY_PRECISION=1e-6)
        KB = U.klass(F_KP, "KpointBZ", globs=g, rewrite_comps=False, only=("__init__", "Kp_fullBZ", "set_factor", "add_factor"))
        KPar = U.klass(F_KP, "KpointBZparallel", globs=g, rewrite_comps=False, bases=(KB,), only=("dK_fullBZ",))
        g2 = dict(g)
        g2["KpointBZparallel"] = KPar
        GA = U.klass(F_GR, "GridAbstract", globs=g2, rewrite_comps=False, only=("points_FFT",))
        GR = U.klass(F_GR, "Grid", globs=g2, rewrite_comps=False, bases=(GA,), only=("get_K_list", "dense"))
        DK = U.klass(F_DK, "Data_K", globs=dict(np=NP), rewrite_comps=False, only=("kpoints_all", "nk", "NKFFT"))
        paral = None

        def body():
            bad, ncomb = [], 0
            for mesh in meshes:
                for fac in itertools.product(*[_factorisations(N) for N in mesh]):
                    div = rnp.array([f_[0] for f_ in fac])
                    fft = rnp.array([f_[1] for f_ in fac])
                    grid = GR.__new__(GR)
                    grid.div, grid.FFT, grid.pointgroup = div, fft, "PG"
                    KL = grid.get_K_list(use_symmetry=False)
                    ncomb += 1
                    if len(KL) != int(div.prod()):
                        bad.append((mesh, fac, "number of K-points"))
                        continue
                    weight = {}
                    ok = True
                    for K in KL:
                        ok = ok and rnp.allclose(K.dK, 1.0 / div) and rnp.array_equal(K.NKFFT, fft) and K.pointgroup == "PG" and abs(K.factor - 1.0 / div.prod()) < 1e-15
                        data = DK.__new__(DK)
                        data.grid, data.k_list = grid, None
                        data.dK = K.Kp_fullBZ                         # what run() passes (unit on paralfunc below)
                        kall = data.kpoints_all
                        if kall.shape != (int(fft.prod()), 3) or data.nk != int(fft.prod()):
                            ok = False
                            break
                        for ik, k in enumerate(kall):
                            n = rnp.rint(k * rnp.array(mesh))
                            if abs(k * rnp.array(mesh) - n).max() > 1e-9:
                                ok = False
                            key = tuple(int(v) % m for v, m in zip(n, mesh))
                            weight[key] = weight.get(key, 0) + K.factor / data.nk
                            # C order of the FFT points: ik = iz + F2*(iy + F1*ix), and this K's own offset
                            ix, rem = divmod(ik, int(fft[1] * fft[2]))
                            iy, iz = divmod(rem, int(fft[2]))
                            x = rnp.rint(K.K * div).astype(int)
                            if key != tuple(int(i_ * d_ + x_) % m for i_, d_, x_, m in zip((ix, iy, iz), div, x, mesh)):
                                ok = False
                    tot = int(rnp.prod(mesh))
                    if not ok or len(weight) != tot or any(abs(w - 1.0 / tot) > 1e-12 for w in weight.values()):
                        bad.append((mesh, fac, "dense mesh not covered once with weight 1/prod(N)"))
            U.ensure("for every factorisation: prod(div) K-points with K=(x,y,z)/div, dK=1/div, NKFFT=FFT, factor=1/prod(div)", not [b for b in bad if b[2].startswith("number")])
            U.ensure("for every factorisation: FFT point i of K-point x is the dense-mesh point i*div+x (C order), each dense point once, total weight factor/nk = 1/prod(N)",
                     not bad)
            U.ensure("at least 20 factorisations explored", ncomb >= 20)
        U.run(body, check_feasible=False)
        U.assumption("float64 k-coordinates compared with the exact mesh to 1e-9 (n/N computed in floating point)")


_kset_unit([(4, 2, 6), (1, 3, 2), (6, 1, 1), (2, 2, 2), (5, 4, 3)], "sizes up to 6")
_kset_unit([(8, 6, 4), (7, 8, 2), (3, 3, 8)], "sizes up to 8", tiers=("thorough",))


@unit("C03", "run(): the Data_K of a K-point is built with dK = Kpoint.Kp_fullBZ, the run's grid and that K-point", scope="shape:one call", expect_min=1)
def _paralfunc(U):
    import ast
    from pyvc.extract import read_source
    src, _ = read_source(F_RG)
    tree = ast.parse(src)
    fn = [n for n in ast.walk(tree) if isinstance(n, ast.FunctionDef) and n.name == "paralfunc"]
    if len(fn) != 1:
        from pyvc.extract import FunctionNotFound
        raise FunctionNotFound("run.paralfunc (found %d definitions)" % len(fn))
    node = fn[0]
    mod = ast.Module(body=[node], type_ignores=[])
    seen = []

    class RD:
        def __init__(self, d):
            self.d = d

    def dkc(system, dK=None, grid=None, Kpoint=None, **kw):
        seen.append((system, dK, grid, Kpoint, kw))
        return "DATA"
    g = dict(data_k_class=dkc, parameters_K={"fftlib": "numpy"}, ResultDict=RD)
    exec(compile(mod, "<extracted run_grid.py::run.paralfunc>", "exec"), g)

    def body():
        kp = types.SimpleNamespace(Kp_fullBZ="K/NKFFT of this K-point")
        calc = {"a": lambda d: ("res-a", d)}
        sysm = types.SimpleNamespace(pointgroup=types.SimpleNamespace(symmetrize=lambda r: ("sym", r)))
        out = g["paralfunc"](kp, sysm, "GRID", calc, False)
        U.ensure("Data_K(system, dK=Kpoint.Kp_fullBZ, grid=grid, Kpoint=Kpoint, **parameters_K); every calculator is applied to that one Data_K",
                 len(seen) == 1 and seen[0][0] is sysm and seen[0][1] == "K/NKFFT of this K-point" and seen[0][2] == "GRID" and seen[0][3] is kp
                 and seen[0][4] == {"fftlib": "numpy"} and isinstance(out, RD) and out.d == {"a": ("res-a", "DATA")})
    U.run(body, check_feasible=False)
    U.functions.append(dict(qualname=F_RG + "::run.paralfunc", file=F_RG, lines=[node.lineno, node.end_lineno], sha256="nested function, extracted by name from run()", dropped=[], rewritten=[]))


# ------------------------------------------------------------------ (5) determineNK
@unit("C03", "determineNK", scope="shape:NK, NKFFT, NKdiv in 1..7 per direction (anisotropic samples), periodic flags", expect_min=4)
def _determine(U):
    one2three = U.fn(F_UT, "one2three", globs=dict(np=rnp, Iterable=__import__("collections.abc").abc.Iterable), model=False, rewrite_comps=False)
    auto = []

    def autoNK(NK, rec, pg):
        auto.append((NK, rec))
        return rnp.array([1, 1, 1]), rnp.array(NK)
    f = U.fn(F_GR, "determineNK", globs=dict(np=rnp, one2three=one2three, warnings=warnings, autoNK=autoNK), model=False, rewrite_comps=False)
    pg = types.SimpleNamespace(symmetric_grid=lambda nk: True, recip_lattice=rnp.eye(3) * 2 * rnp.pi)

    def body():
        bad1, bad2, bad3, bad4 = [], [], [], []
        per = rnp.array([True, True, True])
        with warnings.catch_warnings():
            warnings.simplefilter("ignore")
            for dv in [(1, 1, 1), (2, 3, 1), (4, 1, 5), 3]:
                for ff in [(1, 1, 1), (3, 2, 7), (2, 2, 2), 5]:
                    for NK in (None, (6, 6, 6), 12):
                        d, f_ = f(per.copy(), dv, ff, NK, rnp.array([2, 2, 2]), pg)
                        if list(d) != list(one2three(dv)) or list(f_) != list(one2three(ff)):
                            bad1.append((dv, ff, NK))
            for NK in itertools.product((1, 2, 5, 6, 7), (3, 4), (1, 7)):
                for ff in itertools.product((1, 2, 4), (1, 3), (2, 5)):
                    d, f_ = f(per.copy(), None, ff, NK, rnp.array([2, 2, 2]), pg)
                    want = [max(1, int(rnp.round(n / q))) for n, q in zip(NK, ff)]
                    if list(d) != want or list(f_) != list(ff):
                        bad2.append((NK, ff, list(d)))
                    # whenever NK is a multiple of NKFFT the product is the requested mesh
                    if all(n % q == 0 for n, q in zip(NK, ff)) and list(d * f_) != list(NK):
                        bad2.append((NK, ff, "product"))
            for perflags in itertools.product((True, False), repeat=3):
                d, f_ = f(rnp.array(perflags), (2, 3, 4), (5, 6, 7), None, rnp.array([2, 2, 2]), pg)
                if list(d) != [2 if perflags[0] else 1, 3 if perflags[1] else 1, 4 if perflags[2] else 1] or list(f_) != [5 if perflags[0] else 1, 6 if perflags[1] else 1, 7 if perflags[2] else 1]:
                    bad3.append(perflags)
            try:
                f(per.copy(), None, None, None, rnp.array([2, 2, 2]), pg)
                bad4.append("no error without NK / (NKdiv, NKFFT)")
            except ValueError:
                pass
            del auto[:]
            f(per.copy(), None, None, (4, 4, 4), rnp.array([2, 3, 2]), pg)
            if len(auto) != 1 or list(auto[0][0]) != [4, 4, 4] or list(auto[0][1]) != [2, 3, 2]:
                bad4.append("autoNK not consulted with (NK, NKFFT_recommended)")
            d, f_ = f(per.copy(), None, (2, 2, 2), None, rnp.array([2, 2, 2]), pg, length=10.0)
            if list(d * f_) != [10, 10, 10]:
                bad4.append("length -> NK = round(length*|B|/2pi)")
        U.ensure("(NKdiv, NKFFT) given: returned unchanged (NK / length disregarded)", not bad1)
        U.ensure("(NK, NKFFT) given: NKdiv = max(1, round(NK/NKFFT)) per direction, NKFFT unchanged, exact product when divisible", not bad2)
        U.ensure("non-periodic directions are forced to one k-point", not bad3)
        U.ensure("missing input is refused; NK alone goes through autoNK with the recommended FFT grid; length converts to NK", not bad4)
    U.run(body, check_feasible=False)


@unit("C03", "autoNK: a symmetric FFT grid between the minimal one and twice it, and NKdiv = max(1, round(NK / THAT FFT grid))", scope="shape:NK in 1..24 (isotropic and anisotropic), three recommended FFT grids, two symmetry constraints", expect_min=3)
def _autonk(U):
    itv = U.fn(F_GR, "iterate_vector", globs={}, model=False, rewrite_comps=False)
    f = U.fn(F_GR, "autoNK", globs=dict(np=rnp, iterate_vector=itv, print=lambda *a, **k: None), model=False, rewrite_comps=False)

    def body():
        bad_div, bad_fft, bad_best = [], [], []
        for cname, sym in (("any grid", lambda g: True), ("x = y required", lambda g: g[0] == g[1])):
            pg = types.SimpleNamespace(symmetric_grid=sym)
            for rec in ((2, 2, 2), (3, 3, 2), (4, 4, 1)):
                rec_a = rnp.array(rec)
                cands0 = [g for g in itertools.product(*[range(rec[i], 3 * rec[i]) for i in range(3)]) if sym(g)]
                fmin = rnp.array(min(cands0, key=lambda g: (g[0] * g[1] * g[2], cands0.index(g))))
                for NK in [(n, n, n) for n in range(1, 25)] + [(10, 10, 7), (8, 8, 12), (5, 5, 24), (17, 17, 3)]:
                    NKa = rnp.array(NK)
                    d, fft = f(NKa, rec_a, pg)
                    d, fft = rnp.array(d), rnp.array(fft)
                    if not (sym(tuple(int(x) for x in fft)) and all(fmin[i] <= fft[i] < 2 * fmin[i] for i in range(3))):
                        bad_fft.append((cname, rec, NK, fft.tolist()))
                    want = rnp.maximum(1, rnp.round(NKa / fft).astype(int))
                    if d.tolist() != want.tolist():
                        bad_div.append((cname, rec, NK, d.tolist(), fft.tolist()))

                    def score(g):
                        g = rnp.array(g)
                        dv = rnp.maximum(1, rnp.round(NKa / g).astype(int))
                        r = dv * g / NKa
                        r = rnp.where(r > 1, 1.0 / r, r)
                        return r.min()
                    cands = [g for g in itertools.product(*[range(int(fmin[i]), 2 * int(fmin[i])) for i in range(3)]) if sym(g)]
                    best = max(score(g) for g in cands)
                    if score(fft) < best - 1e-12:
                        bad_best.append((cname, rec, NK, fft.tolist()))
        U.ensure("the FFT grid returned is compatible with the symmetry and lies between the minimal symmetric grid and twice it", not bad_fft)
        U.ensure("NKdiv = max(1, round(NK / FFT)) for the FFT grid that is RETURNED", not bad_div)
        U.ensure("no admissible FFT grid reproduces the requested NK better (worst direction ratio)", not bad_best)
    U.run(body, check_feasible=False)


# ------------------------------------------------------------------ (3) the calculators average over their k-points
from contracts import C13 as _c13      # noqa: E402

_c13._static_unit(0, 2, True, False, prop="C03", nk_int=3)
_c13._static_unit(1, 2, True, False, prop="C03", nk_int=2)


@unit("C03", "DynamicCalculator.__call__: (constant/(nk V)) sum_k sum_pairs f_omega f_EF trace_ln(k, m, n)", scope="shape:3 k-points, 2 band groups, 2 omegas, 2 Fermi levels, rank-1 formula", expect_min=2)
def _dyn(U):
    results = []

    class ER:
        def __init__(self, Es, data, **kw):
            results.append((Es, data, kw))
    call = U.fn(F_DYN, "DynamicCalculator.__call__", globs=dict(np=Shim(), EnergyResult=ER), model=False, rewrite_comps=False)

    def body():
        del results[:]
        nk = 3
        groups = [{(0, 1): 0.5, (1, 3): 1.5}, {(0, 2): 0.25, (2, 3): 2.0}, {(0, 3): 1.0}]

        class Formula:
            ndim = 1
            transformTR, transformInv = "TR", "INV"

            def __init__(self, data_K=None, **kw):
                pass

            def trace_ln(self, ik, m, n):
                return rnp.array([SCplx(sreal("t_%d_%d_%d_%d.re" % (ik, m[0], n[0], c)), sreal("t_%d_%d_%d_%d.im" % (ik, m[0], n[0], c))) for c in range(3)], dtype=object)
        me = types.SimpleNamespace(Formula=Formula, kwargs_formula={}, omega=rnp.array([0.5, 1.0]), Efermi=rnp.array([0.0, 1.0]), dtype=complex,
                                   degen_thresh=1e-4, degen_Kramers=False, constant_factor=3.0, save_mode="bin")
        me.nonzero = lambda E1, E2: not (E1 == 2.0 and E2 == 2.0)           # one pair is skipped
        me.factor_Efermi = lambda E1, E2: rnp.array([E1 + 2 * E2, E1 - E2 + 0.5])                    # per Fermi level
        me.factor_omega = lambda E1, E2: rnp.array([1.0 + E1 * E2, 2.0 - E1 + 4 * E2])             # per omega
        data = types.SimpleNamespace(nk=nk, cell_volume=2.0)
        data.get_bands_in_range_groups_ik = lambda ik, emin, emax, **kw: dict(groups[ik])
        call(me, data)
        Es, out, kw = results[0]
        U.ensure("result on (Efermi, omega) axes with the formula's declared transformations", tuple(out.shape) == (2, 2, 3) and Es[0] is me.Efermi and Es[1] is me.omega
                 and kw["transformTR"] == "TR" and kw["transformInv"] == "INV")
        cl = []
        for ie in range(2):
            for iw in range(2):
                for c in range(3):
                    want = SCplx(0, 0)
                    for ik in range(nk):
                        for m, Em in groups[ik].items():
                            for n, En in groups[ik].items():
                                if not me.nonzero(Em, En):
                                    continue
                                t = SCplx(sreal("t_%d_%d_%d_%d.re" % (ik, m[0], n[0], c)), sreal("t_%d_%d_%d_%d.im" % (ik, m[0], n[0], c)))
                                want = want + t * float(me.factor_omega(Em, En)[iw] * me.factor_Efermi(Em, En)[ie])
                    want = want * (3.0 / (nk * 2.0))
                    got = SCplx.of(out[ie, iw, c])
                    cl.append(got.re == want.re)
                    cl.append(got.im == want.im)
        U.ensure("out[EF, omega, c] = constant/(nk V) * sum over k and band-group pairs of f_omega * f_EF * trace_ln (a plain average over the k-points)", land(*cl))
    U.run(body, check_feasible=False)


# ------------------------------------------------------------------ bounded stand-in: the installed run()
def _real_run(rng, n):
    import wannierberri as wb
    from wannierberri import calculators as calc
    fails, cases = [], 0
    rnp.random.seed(rng.randint(1, 10 ** 6))
    with contextlib.redirect_stdout(io.StringIO()), warnings.catch_warnings():
        warnings.simplefilter("ignore")
        system = wb.system.System_R.from_random(num_wann=3, nRvec=9, max_R=2, berry=True)
        X = system.get_R_mat("Ham")
        system.set_R_mat("Ham", 0.5 * (X + system.rvec.conj_XX_R(X)), reset=True) if {tuple(r) for r in system.rvec.iRvec} == {tuple(-r) for r in system.rvec.iRvec} else None
        mesh = (4, 2, 6)
        Ef = rnp.linspace(-0.5, 0.5, 3)
        calcs = lambda: {"dos": calc.static.DOS(Efermi=Ef, tetra=False), "cumdos": calc.static.CumDOS(Efermi=Ef, tetra=False),
                         "ahc": calc.static.AHC(Efermi=Ef, tetra=False, kwargs_formula={"external_terms": False})}
        combos = list(itertools.product(*[_factorisations(N) for N in mesh]))
        rng.shuffle(combos)
        combos = combos[: (4 if n <= 30 else 12)]
        ref = None
        for fac in combos:
            for lib in (("fftw", "numpy") if n > 30 or fac is combos[0] else ("fftw",)):
                grid = wb.grid.Grid(system, NKdiv=[f_[0] for f_ in fac], NKFFT=[f_[1] for f_ in fac], use_symmetry=False)
                res = wb.run(system, grid=grid, calculators=calcs(), parallel=None, print_Kpoints=False, print_progress_step=1000,
                             parameters_K=dict(fftlib=lib), adpt_num_iter=0, use_irred_kpt=False, symmetrize=False, fout_name=None, suffix=None, restart=False, file_Klist=None) \
                    if False else wb.run(system, grid=grid, calculators=calcs(), parameters_K=dict(fftlib=lib), adpt_num_iter=0, use_irred_kpt=False, symmetrize=False, print_Kpoints=False)
                cur = {k: v.data.copy() for k, v in res.results.items()}
                cases += 1
                if ref is None:
                    ref = (fac, lib, cur)
                    continue
                for k in cur:
                    err = float(rnp.abs(cur[k] - ref[2][k]).max())
                    if err > 1e-8 * max(1.0, float(rnp.abs(ref[2][k]).max())):
                        fails.append(dict(input=dict(mesh=mesh, NKdiv_NKFFT=[list(f_) for f_ in fac], fftlib=lib, reference=[list(f_) for f_ in ref[0]], calculator=k), clause="same result for every factorisation / library", err=err))
    return dict(cases=cases, failures=fails, distinct=cases)


Unit("C03", "run() over factorisations and FFT libraries [real code]", concrete=_real_run,
     bounded_desc="installed run() on a random 3-band system, 4x2x6 mesh: 4 (quick) / 12 (thorough) of its 24 factorisations, fftw and numpy, DOS / CumDOS / internal AHC compared to 1e-8")



# run() with irreducible K-points must symmetrise every K-point's result whatever `symmetrize` says (otherwise the result depends on how the
# grid is factorised into K-points and FFT points): the run()-level unit of C10 / C07, registered here as well
import contracts.C10 as _c10      # noqa: E402
_c10._mk_unit(2, 0, "memory", True, ("quick", "thorough"), prop="C03")
