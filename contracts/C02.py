"""C02  All Fourier-transform back ends give the same k-space matrices.

Spec function (from the property):  F(X, k)[a,b,...] = sum_R X[R,a,b,...] * ph(k . R),   ph(x) = exp(2 pi i x).
Every back end must return F of the SAME real-space data at the SAME k-points, so they agree with each other:

  grid back ends (fftlib = fftw / numpy / slow), K-point shift dK:   out[ik] = F(X_der, n(ik)/NKFFT + dK),  ik in C order
  explicit k list:                                                   out[i]  = F(X_der, k_list[i])
  X_der = the der-fold Cartesian derivative  X[R,a,b,...] * prod_c  i (R.A + tau_b - tau_a)_c
  hermitian=True: the Hermitian part in the two band indices;  HH_K and Xbar('Ham', der) of Data_K_R are these for the
  system's Hamiltonian at kpoints_all.

What is verified and how (tier S = per shape): the REAL text of FFT_R_to_k (all methods), fft_np, fft_W, execute_fft,
Rvectors.__init__/set_fft_R_to_k/apply_expdK/derivative/R_to_k/cRvec*/shifts_*, utility.cached_einsum, Data_K_R.HH_K/
Xbar/_R_to_k_H/get_R_mat and Data_K.kpoints_all/nk/NKFFT is executed by CPython on real numpy object arrays whose
entries are symbolic: every matrix element X[R,a,b,..] is a pair of real symbols, dK / k_list / Wannier-centre shifts
are real symbols, phases are formal characters ph(linear form) with ph(x)ph(y)=ph(x+y), ph(n)=1.  The result is a formal
sum  sum_j coeff_j * ph(form_j)  and every obligation is "coefficient of every character equals the spec's" -- a z3
equality over the reals, for ALL data / shifts / dK / k at the stated R-vector sets, FFT box sizes and band counts.

External contracts (assumed, validated by a bounded cross-check against the real libraries on random data):
  numpy.fft.ifftn / fftn and pyfftw.FFTW(direction BACKWARD / FORWARD, default normalisation) are the normalised inverse /
  unnormalised forward discrete Fourier transform along the given axes.
"""
import itertools
import time as _time
import types
import warnings as _warnings
from fractions import Fraction

import numpy as rnp
import z3

from pyvc.core import ctx, sreal, SNum, SCplx, land, SBool, Undecided
from pyvc.unit import unit, Unit
from pyvc.npshim import Shim, sym_real_array, sym_cplx_array
from pyvc.phase import Ph, Scaled, PhSum, phsum_eq, fourier_spec

F_FFT = "wannierberri/fourier/fft.py"
F_RV = "wannierberri/fourier/rvectors.py"
F_UT = "wannierberri/utility.py"
F_DKR = "wannierberri/data_K/data_K_R.py"
F_DK = "wannierberri/data_K/data_K.py"
F_GR = "wannierberri/grid/grid.py"


# --------------------------------------------------------------------------------------------- external DFT contract
def dft(inp, axes, inverse):
    """the contract of the external transforms on an object array: forward  sum_m a[m] ph(-n.m/N),
    inverse (normalised)  (1/N) sum_m a[m] ph(+n.m/N), along `axes`"""
    a = rnp.array(inp, dtype=object)
    for ax in axes:
        N = a.shape[ax]
        a = rnp.moveaxis(a, ax, 0)
        out = rnp.zeros(a.shape, dtype=object)
        for n in range(N):
            acc = 0
            for m in range(N):
                c = Fraction(n * m, N) * (1 if inverse else -1)
                acc = acc + a[m] * PhSum.of(Ph({1: c}))
            out[n] = acc / N if inverse else acc
        a = rnp.moveaxis(out, 0, ax)
    return a


def _fft_ns():
    return types.SimpleNamespace(ifftn=lambda x, axes=None: dft(x, axes, True), fftn=lambda x, axes=None: dft(x, axes, False))


class _FFTW:
    """pyfftw.FFTW plan (external contract, from pyfftw's documentation of FFTW.__call__ / update_arrays):
       * calling the plan with an input array of the plan's shape and dtype that is suitably laid out makes THAT array the plan's
         new input array (no copy) -- whether a given array qualifies depends on its alignment, so both outcomes are explored;
         otherwise the data are copied into the plan's CURRENT input array;
       * with FFTW_DESTROY_INPUT the contents of the input array are unspecified after the transform;
       * the result is written to the plan's output array, which is returned (the same array object on every call);
       * BACKWARD transforms are normalised by default."""
    count = [0]

    def __init__(self, fft_in, fft_out, axes=(0,), flags=(), direction="FFTW_FORWARD"):
        assert direction in ("FFTW_FORWARD", "FFTW_BACKWARD")
        self.axes, self.inverse, self.shape = tuple(axes), direction == "FFTW_BACKWARD", fft_in.shape
        self.input_array, self.output_array = fft_in, fft_out
        self.destroy = "FFTW_DESTROY_INPUT" in flags

    def __call__(self, inp=None):
        if inp is not None:
            assert tuple(inp.shape) == tuple(self.shape), "pyfftw: input shape differs from the plan's"
            adopt = isinstance(inp, rnp.ndarray) and inp.flags["C_CONTIGUOUS"] and ADOPT[0] and bool(ctx().choose(2, "pyfftw adopts the caller's array as its input array"))
            if adopt:
                self.input_array = inp
            else:
                self.input_array[...] = inp
        out = dft(self.input_array, self.axes, self.inverse)
        if self.destroy:
            _FFTW.count[0] += 1
            for idx in rnp.ndindex(*self.input_array.shape):
                self.input_array[idx] = SCplx(sreal("fftw_scratch_%d_%s.re" % (_FFTW.count[0], "_".join(map(str, idx)))), sreal("fftw_scratch_%d_%s.im" % (_FFTW.count[0], "_".join(map(str, idx)))))
        self.output_array[...] = out
        return self.output_array


ADOPT = [False]          # the aliasing behaviour is explored only by the unit that is about it (keeps the other units single-path)


def _pyfftw():
    return types.SimpleNamespace(FFTW=_FFTW, empty_aligned=lambda shape, dtype=None: rnp.zeros(shape, dtype=object))


def _exp_override(shim_exp):
    def exp(x):
        # np.exp(2j*pi/N) of a CONCRETE purely imaginary number is the phase it stands for (floats as the reals they denote)
        if isinstance(x, (complex, rnp.complexfloating)) and x.real == 0:
            from pyvc.phase import exp_scalar
            return exp_scalar(complex(x))
        if isinstance(x, rnp.ndarray) and x.dtype == complex and rnp.all(x.real == 0):
            from pyvc.phase import exp_scalar
            out = rnp.empty(x.shape, dtype=object)
            for idx in rnp.ndindex(x.shape):
                out[idx] = exp_scalar(complex(x[idx]))
            return out
        return shim_exp(x)
    return exp


def mk_np():
    base = Shim()
    return Shim(overrides={"fft": _fft_ns(), "exp": _exp_override(base.exp)})


def build(U, with_dataK=False):
    """the classes FFT_R_to_k and Rvectors (and optionally Data_K_R) assembled from the extracted real methods"""
    U.assume_ensures = False          # the clauses of these units are independent statements about different outputs
    NP = mk_np()
    g_ut = dict(np=NP, EINSUM_PATH_CACHE={})
    cached_einsum = U.fn(F_UT, "cached_einsum", globs=g_ut, model=False, rewrite_comps=False)
    g = dict(np=NP, pyfftw=_pyfftw(), PYFFTW_IMPORTED=True, time=_time.time, warnings=_warnings, cached_einsum=cached_einsum)
    for nm in ("fft_W", "fft_np", "execute_fft"):
        g[nm] = U.fn(F_FFT, nm, globs=g, model=False, rewrite_comps=False)
    for nm in ("fft_W", "fft_np", "execute_fft"):
        getattr(g[nm], "raw", g[nm]).__globals__.update({k: g[k] for k in ("fft_W", "fft_np", "execute_fft")})
    FFT = U.klass(F_FFT, "FFT_R_to_k", globs=g, rewrite_comps=False)
    g2 = dict(g)
    g2["FFT_R_to_k"] = FFT
    g2["clear_cached"] = U.fn(F_UT, "clear_cached", globs=dict(np=NP), model=False, rewrite_comps=False)
    # the whole class is assembled (a helper added to Rvectors later is then simply there)
    for nm in ("iterate_nd", "iterate3dpm"):
        g2[nm] = None
    g2["execute_fft"] = g["execute_fft"]
    RV = U.klass(F_RV, "Rvectors", globs=g2, rewrite_comps=False, skip=("__len__",))
    return NP, FFT, RV, g2


# ------------------------------------------------------------------------------------------------------- the cases
LATT = rnp.array([[1.0, 0.5, 0.0], [0.0, 2.0, 0.25], [-0.5, 0.0, 1.5]])        # dyadic entries: exact in binary
R_SETS = {
    "A": rnp.array([[0, 0, 0], [1, 0, 0], [-1, 0, 0], [0, 1, -1], [0, -1, 1], [2, 1, 0]]),          # +-R pairs and one unpaired, outside small boxes
    "B": rnp.array([[0, 0, 0], [3, -2, 1], [-3, 2, -1], [1, 1, 1], [-1, -1, -1]]),
}
GRID_CASES_QUICK = [((2, 1, 1), "A"), ((2, 3, 1), "A"), ((1, 2, 4), "B"), ((3, 2, 2), "B")]
GRID_CASES_THOROUGH = GRID_CASES_QUICK + [((4, 4, 1), "A"), ((2, 2, 3), "A"), ((5, 1, 2), "B"), ((1, 1, 1), "B"), ((3, 3, 3), "A")]
NW = 2


def _dk_forms():
    return [{"dK%d" % j: Fraction(1)} for j in range(3)]


def _kforms_grid(NKFFT):
    """k of grid point ik (C order) : n_j/N_j + dK_j"""
    out = []
    for n in itertools.product(*[range(N) for N in NKFFT]):
        out.append([{("dK%d" % j): Fraction(1), 1: Fraction(n[j], NKFFT[j])} for j in range(3)])
    return out


def _spec_der(X, Rs, shifts, der):
    """X_der[R,a,b,c1..] = X[R,a,b] * prod i (R.A + tau_b - tau_a)_c   (shifts = reduced centres, symbolic)"""
    nR = len(Rs)
    cart = shifts.dot(LATT) if shifts is not None else None
    cur = {(iR, a, b, ()): X[iR, a, b] for iR in range(nR) for a in range(NW) for b in range(NW)}
    for _ in range(der):
        nxt = {}
        for (iR, a, b, cc), v in cur.items():
            for c in range(3):
                d = float(Rs[iR].dot(LATT)[c])
                if cart is not None:
                    d = d + cart[b, c] - cart[a, c]
                nxt[(iR, a, b, cc + (c,))] = v * SCplx(0, 1) * d
        cur = nxt
    return cur


def _check_out(U, label, out, Xd, Rs, kforms, der, hermitian):
    """out[ik,a,b,c..] == (hermitian part of) F(X_der, k_ik)"""
    U.ensure("%s: shape (nk, nw, nw, 3^der)" % label, tuple(out.shape) == (len(kforms), NW, NW) + (3,) * der)
    nR = len(Rs)
    for ik, kf in enumerate(kforms):
        Fk = {}
        for cc in itertools.product(range(3), repeat=der):
            for a in range(NW):
                for b in range(NW):
                    Fk[(a, b, cc)] = fourier_spec([Xd[(iR, a, b, cc)] for iR in range(nR)], Rs, kf)
        cl = []
        for (a, b, cc), f in Fk.items():
            want = (f + Fk[(b, a, cc)].conj()) * 0.5 if hermitian else f
            cl.append(phsum_eq(out[(ik, a, b) + cc], want))
        U.ensure("%s: k-point %d (C order) = sum_R X_der[R] ph(R.k)%s" % (label, ik, ", Hermitian part" if hermitian else ""), land(*cl))


def _grid_unit(NKFFT, rname, lib, der, hermitian, shifts_sym, tiers=("quick", "thorough")):
    name = "R_to_k grid NKFFT=%s R-set %s lib=%s der=%d%s%s" % (NKFFT, rname, lib, der, " hermitian" if hermitian else "", " centres" if shifts_sym else "")

    def prove(U):
        NP, FFT, RV, g = build(U)
        Rs = R_SETS[rname]

        def body():
            shifts = sym_real_array("tau", (NW, 3)) if shifts_sym else None
            rv = RV(lattice=LATT, shifts_left_red=shifts, iRvec=Rs)
            dK = rnp.array([sreal("dK0"), sreal("dK1"), sreal("dK2")], dtype=object)
            rv.set_fft_R_to_k(NK=NKFFT, num_wann=NW, fftlib=lib, dK=dK)
            X = sym_cplx_array("X", (len(Rs), NW, NW))
            XK = rv.apply_expdK(X.copy())
            U.ensure("apply_expdK keeps the shape", tuple(XK.shape) == tuple(X.shape))
            out = rv.R_to_k(XK, der=der, hermitian=hermitian)
            _check_out(U, name, out, _spec_der(X, Rs, shifts, der), Rs, _kforms_grid(NKFFT), der, hermitian)
        U.run(body, check_feasible=False)
        _externals(U)
    return Unit("C02", name, prove=prove, replay=_replay_chain, replay_once=True, tiers=tiers,
                scope="shape:NKFFT=%s, %d R-vectors, %d bands, derivative order %d" % (NKFFT, len(R_SETS[rname]), NW, der), expect_min=2)


def _externals(U):
    U.external("numpy.fft.ifftn / pyfftw.FFTW(BACKWARD): normalised inverse DFT along the given axes; fftn / FORWARD: unnormalised forward DFT (cross-checked on random data by the bounded unit)")
    U.external("np.exp(2j*pi*x) = ph(x); ph(x)ph(y)=ph(x+y); ph(n)=1; characters of distinct linear forms are independent")
    U.assumption("floating-point products 2*pi*n / (2*pi) are treated as the rationals they stand for (phases snapped within 1e-12)")


def _klist_unit(rname, der, hermitian, shifts_sym, nk=2):
    name = "R_to_k explicit k-list R-set %s der=%d%s%s" % (rname, der, " hermitian" if hermitian else "", " centres" if shifts_sym else "")

    def prove(U):
        NP, FFT, RV, g = build(U)
        Rs = R_SETS[rname]

        def body():
            shifts = sym_real_array("tau", (NW, 3)) if shifts_sym else None
            rv = RV(lattice=LATT, shifts_left_red=shifts, iRvec=Rs)
            kl = sym_real_array("k", (nk, 3))
            rv.set_fft_R_to_k(NK=None, num_wann=NW, k_list=kl)
            X = sym_cplx_array("X", (len(Rs), NW, NW))
            XK = rv.apply_expdK(X.copy())
            U.ensure("apply_expdK is the identity for an explicit k list", all(XK[idx] is X[idx] or XK[idx] == X[idx] for idx in rnp.ndindex(X.shape)) if XK.shape == X.shape else False)
            out = rv.R_to_k(XK, der=der, hermitian=hermitian)
            kforms = [[{"k_%d_%d" % (i, j): Fraction(1)} for j in range(3)] for i in range(nk)]
            _check_out(U, name, out, _spec_der(X, Rs, shifts, der), Rs, kforms, der, hermitian)
        U.run(body, check_feasible=False)
        _externals(U)
    return Unit("C02", name, prove=prove, replay=_replay_chain, replay_once=True,
                scope="shape:%d symbolic k-points, %d R-vectors, %d bands, derivative order %d" % (nk, len(R_SETS[rname]), NW, der), expect_min=2)


def _hermitian_model(Rs):
    """symbolic X on a +-closed R set with X[-R] = X[R]^dagger"""
    idx = {tuple(int(v) for v in R): i for i, R in enumerate(Rs)}
    X = rnp.empty((len(Rs), NW, NW), dtype=object)
    for R, i in idx.items():
        j = idx[tuple(-v for v in R)]
        if j < i:
            continue
        for a in range(NW):
            for b in range(NW):
                if j == i and b < a:
                    continue
                if j == i and a == b:
                    X[i, a, a] = SCplx(sreal("H_%d_%d.re" % (i, a)), 0)
                    continue
                v = SCplx(sreal("H_%d_%d_%d.re" % (i, a, b)), sreal("H_%d_%d_%d.im" % (i, a, b)))
                X[i, a, b] = v
                X[j, b, a] = v.conj()
    return X


R_PM = rnp.array([[0, 0, 0], [1, 0, 0], [-1, 0, 0], [0, 1, -1], [0, -1, 1], [2, 1, 0], [-2, -1, 0]])


def _herm_unit(NKFFT, lib, der):
    name = "derivatives of a Hermitian model are Hermitian: NKFFT=%s lib=%s der=%d" % (NKFFT, lib, der)

    def prove(U):
        NP, FFT, RV, g = build(U)

        def body():
            shifts = sym_real_array("tau", (NW, 3))
            rv = RV(lattice=LATT, shifts_left_red=shifts, iRvec=R_PM)
            if lib == "k_list":
                rv.set_fft_R_to_k(NK=None, num_wann=NW, k_list=sym_real_array("k", (1, 3)))
            else:
                rv.set_fft_R_to_k(NK=NKFFT, num_wann=NW, fftlib=lib, dK=rnp.array([sreal("dK0"), sreal("dK1"), sreal("dK2")], dtype=object))
            X = _hermitian_model(R_PM)
            out = rv.R_to_k(rv.apply_expdK(X.copy()), der=der, hermitian=False)         # Xbar('Ham', der) passes hermitian=False
            cl = []
            for idx in rnp.ndindex(out.shape):
                ik, a, b = idx[:3]
                if a <= b:
                    cl.append(phsum_eq(out[idx], PhSum.of(out[(ik, b, a) + idx[3:]]).conj()))
            U.ensure("out[k,a,b,c..] = conj(out[k,b,a,c..]) for every k, band pair and Cartesian index (model: X[-R] = X[R]^dagger)", land(*cl))
        U.run(body, check_feasible=False)
        _externals(U)
    return Unit("C02", name, prove=prove, replay=_replay_chain, replay_once=True,
                scope="shape:NKFFT=%s, 7 R-vectors (+-closed), %d bands, derivative order %d" % (NKFFT, NW, der), expect_min=1)


def _frame_unit(lib):
    name = "a result of R_to_k is not disturbed by later transforms on the same object: lib=%s" % lib

    def prove(U):
        NP, FFT, RV, g = build(U)
        Rs = R_SETS["A"]

        def body():
            ADOPT[0] = True
            try:
                rv = RV(lattice=LATT, shifts_left_red=None, iRvec=Rs)
                dK = rnp.array([sreal("dK0"), sreal("dK1"), sreal("dK2")], dtype=object)
                rv.set_fft_R_to_k(NK=(2, 1, 1), num_wann=NW, fftlib=lib, dK=dK)
                X = sym_cplx_array("X", (len(Rs), NW, NW))
                Y = sym_cplx_array("Y", (len(Rs), NW, NW))
                first = rv.R_to_k(rv.apply_expdK(X.copy()), der=0, hermitian=False)
                kept = first.copy()
                second = rv.R_to_k(rv.apply_expdK(Y.copy()), der=0, hermitian=False)          # same shape, other data
                kept2 = second.copy()
                rv.R_to_k(rv.apply_expdK(X.copy()), der=1, hermitian=False)
                rv.R_to_k(rv.apply_expdK(X.copy()), der=0, hermitian=False)
                U.ensure("the arrays returned by the first two calls still hold their results after a same-shape call, a der=1 call and another der=0 call (for every admissible behaviour of the FFT library)",
                         land(*([phsum_eq(first[idx], kept[idx]) for idx in rnp.ndindex(*first.shape)] + [phsum_eq(second[idx], kept2[idx]) for idx in rnp.ndindex(*second.shape)])))
            finally:
                ADOPT[0] = False
        U.run(body, check_feasible=False)
        _externals(U)
        U.external("pyfftw.FFTW.__call__: may adopt a suitably laid out input array as the plan's input array, copies otherwise; FFTW_DESTROY_INPUT leaves the input array unspecified")
    return Unit("C02", name, prove=prove, replay=_replay_alias, replay_once=True, scope="shape:NKFFT=(2,1,1), 6 R-vectors, 2 bands; calls der 0, 0, 1, 0", expect_min=1)


def _reconf_unit(lib):
    name = "set_fft_R_to_k called again with another K-point shift: the transform uses the NEW shift: lib=%s" % lib

    def prove(U):
        NP, FFT, RV, g = build(U)
        Rs = R_SETS["A"]

        def body():
            rv = RV(lattice=LATT, shifts_left_red=None, iRvec=Rs)
            X = sym_cplx_array("X", (len(Rs), NW, NW))
            dK1 = rnp.array([sreal("dK0"), sreal("dK1"), sreal("dK2")], dtype=object)
            dK2 = rnp.array([sreal("e0"), sreal("e1"), sreal("e2")], dtype=object)
            rv.set_fft_R_to_k(NK=(2, 1, 1), num_wann=NW, fftlib=lib, dK=dK1)
            rv.R_to_k(rv.apply_expdK(X.copy()), der=0, hermitian=False)
            rv.set_fft_R_to_k(NK=(1, 2, 1), num_wann=NW, fftlib=lib, dK=dK2)
            out = rv.R_to_k(rv.apply_expdK(X.copy()), der=0, hermitian=False)
            kforms = [[{("e%d" % j): Fraction(1), 1: Fraction(n[j], (1, 2, 1)[j])} for j in range(3)] for n in itertools.product(range(1), range(2), range(1))]
            _check_out(U, name, out, _spec_der(X, Rs, None, 0), Rs, kforms, 0, False)
        U.run(body, check_feasible=False)
        _externals(U)
    return Unit("C02", name, prove=prove, replay=_replay_chain, replay_once=True, scope="shape:NKFFT (2,1,1) then (1,2,1), 6 R-vectors, 2 bands", expect_min=2)


def _reconf_klist_unit(lib):
    name = "an object configured for a shifted grid and then for an explicit k-list: no trace of the old shift: first lib=%s" % lib

    def prove(U):
        NP, FFT, RV, g = build(U)
        Rs = R_SETS["A"]

        def body():
            rv = RV(lattice=LATT, shifts_left_red=None, iRvec=Rs)
            X = sym_cplx_array("X", (len(Rs), NW, NW))
            dK1 = rnp.array([sreal("dK0"), sreal("dK1"), sreal("dK2")], dtype=object)
            rv.set_fft_R_to_k(NK=(2, 1, 1), num_wann=NW, fftlib=lib, dK=dK1)
            rv.R_to_k(rv.apply_expdK(X.copy()), der=0, hermitian=False)
            kl = sym_real_array("k", (2, 3))
            rv.set_fft_R_to_k(NK=None, num_wann=NW, k_list=kl)
            out = rv.R_to_k(rv.apply_expdK(X.copy()), der=0, hermitian=False)
            kforms = [[{"k_%d_%d" % (i, j): Fraction(1)} for j in range(3)] for i in range(2)]
            _check_out(U, name, out, _spec_der(X, Rs, None, 0), Rs, kforms, 0, False)
        U.run(body, check_feasible=False)
        _externals(U)
    return Unit("C02", name, prove=prove, replay=_replay_chain, replay_once=True, scope="shape:NKFFT (2,1,1) then 2 symbolic k-points, 6 R-vectors, 2 bands", expect_min=2)


def _replay_alias(mv, ob):
    """installed code: the first result must survive later calls, for every library"""
    from wannierberri.fourier.rvectors import Rvectors
    rs = rnp.random.RandomState(0)
    Rs = rnp.array([[0, 0, 0], [1, 0, 0], [-1, 0, 0], [0, 1, 0], [0, -1, 0]])
    X = rs.randn(len(Rs), 2, 2) + 1j * rs.randn(len(Rs), 2, 2)
    bad = []
    for lib in ("fftw", "numpy", "slow"):
        rv = Rvectors(lattice=rnp.eye(3), shifts_left_red=rs.rand(2, 3), iRvec=Rs)
        rv.set_fft_R_to_k(NK=(3, 2, 1), num_wann=2, fftlib=lib, dK=(0.1, 0.2, 0.0))
        a = rv.R_to_k(rv.apply_expdK(X.copy()), der=0, hermitian=False)
        keep = a.copy()
        rv.R_to_k(rv.apply_expdK(2 * X + 1), der=0, hermitian=False)
        if abs(a - keep).max() > 1e-12:
            bad.append(dict(lib=lib, clause="der=0 result overwritten by a later same-shape call on the same Rvectors object", change=float(abs(a - keep).max())))
        rv.R_to_k(rv.apply_expdK(X.copy()), der=1, hermitian=False)
        if abs(a - keep).max() > 1e-12:
            bad.append(dict(lib=lib, clause="der=0 result overwritten by a later der=1 call on the same Rvectors object", change=float(abs(a - keep).max())))
    return dict(reproduced=bool(bad), input="Rvectors.R_to_k(der=0, hermitian=False) then R_to_k(der=1) on one object, NK=(3,2,1), 5 R-vectors, 2 bands", failed=bad)


# ------------------------------------------------------------------------------------------------------- Data_K_R
F_SR = "wannierberri/system/system_R.py"


class _FakePath:          # stands for KpointBZpath in `isinstance(Kpoint, KpointBZpath)`
    pass


def build_dataK(U):
    import abc
    NP, FFT, RV, g = build(U)
    gd = dict(g)
    gd.update(KpointBZpath=_FakePath, abc=abc, alpha_A=rnp.array([1, 2, 0]), beta_A=rnp.array([2, 0, 1]))
    DK = U.klass(F_DK, "Data_K", globs=gd, rewrite_comps=False, only=("__init__", "_rotate", "NKFFT", "nbands", "kpoints_all", "nk"))
    SR = U.klass(F_SR, "System_R", globs=gd, rewrite_comps=False, only=("get_R_mat", "has_R_mat", "set_R_mat", "Ham_R"),
                 extra=dict(half_wann_matrices=set(), range_wann=property(lambda self: rnp.arange(self.num_wann))))
    GA = U.klass(F_GR, "GridAbstract", globs=gd, rewrite_comps=False, only=("points_FFT",))
    DKR = U.klass(F_DKR, "Data_K_R", globs=gd, rewrite_comps=False, bases=(DK, SR),
                  only=("__init__", "HH_K", "get_R_mat", "Xbar", "_R_to_k_H"))
    return NP, RV, GA, DKR


def _dataK_unit(NKFFT, lib, klist=False):
    name = "Data_K_R.HH_K / Xbar('Ham',1) / kpoints_all: %s" % ("explicit k-list" if klist else "NKFFT=%s lib=%s" % (NKFFT, lib))
    Rs = R_SETS["A"]

    def prove(U):
        NP, RV, GA, DKR = build_dataK(U)

        def body():
            # centres: generic exact numbers here (the derivative factors are proved for symbolic centres in the R_to_k units)
            shifts = rnp.array([[0.25, -0.5, 0.125], [0.75, 0.375, -1.25]])
            system = types.SimpleNamespace()
            system.rvec = RV(lattice=LATT, shifts_left_red=shifts, iRvec=Rs)
            H = sym_cplx_array("X", (len(Rs), NW, NW))
            system._XX_R = {"Ham": H}
            system.get_R_mat = lambda key: system._XX_R[key]
            system.has_R_mat = lambda key: key in system._XX_R
            system.force_internal_terms_only = False
            system.real_lattice = LATT
            system.num_wann = NW
            system.is_phonon = False
            if klist:
                nk = 2
                kl = sym_real_array("k", (nk, 3))
                grid = GA.__new__(GA)
                grid.FFT = rnp.array([1, 1, 1])              # a path object's FFT box
                data = DKR(system, dK=None, grid=grid, Kpoint=None, fftlib=lib, k_list=kl)
                kforms = [[{"k_%d_%d" % (i, j): Fraction(1)} for j in range(3)] for i in range(nk)]
            else:
                grid = GA.__new__(GA)
                grid.FFT = rnp.array(NKFFT)
                dK = rnp.array([sreal("dK0"), sreal("dK1"), sreal("dK2")], dtype=object)
                data = DKR(system, dK=dK, grid=grid, Kpoint=None, fftlib=lib)
                kforms = _kforms_grid(NKFFT)
                nk = len(kforms)
            U.ensure("nk = number of k-points evaluated", data.nk == nk)
            U.ensure("the transform works on a copy of the system's R-vectors", data.rvec is not system.rvec)
            # kpoints_all: the k-points the transform evaluates, modulo a reciprocal lattice vector
            kp = data.kpoints_all
            ok = tuple(kp.shape) == (nk, 3)
            cl = []
            if ok:
                for ik in range(nk):
                    for j in range(3):
                        if klist:
                            cl.append(kp[ik, j] == kl[ik, j])
                        else:
                            want = dK[j] + float(Fraction(kforms[ik][j][1]))
                            d = kp[ik, j] - want                      # must be an integer (up to the rounding of n/N in floating point)
                            m = SNum(z3.ToInt((d + 0.5).t), "int")
                            cl.append(abs(d - m) < 1e-12)
            U.ensure("kpoints_all[ik] = n(ik)/NKFFT + dK modulo 1, in C order (or the given list)", land(*cl) if ok and cl else ok)
            # HH_K
            HK = data.HH_K
            _check_out(U, "HH_K", HK, _spec_der(H, Rs, shifts, 0), Rs, kforms, 0, True)
            # Xbar('Ham', 1) in the gauge given by UU_K  (here: a symbolic matrix per k-point; unitarity is not needed)
            UU = rnp.empty((nk, NW, NW), dtype=object)          # generic, distinct, exactly representable entries (all U: see the _rotate unit)
            for idx in rnp.ndindex(UU.shape):
                q = 1 + idx[0] * NW * NW + idx[1] * NW + idx[2]
                UU[idx] = SCplx(Fraction(2 * q + 1, 4), Fraction(3 - q, 8))
            data.__dict__["UU_K"] = UU
            data.select_K = rnp.ones(nk, dtype=bool)
            XB = data.Xbar("Ham", 1)
            Xd = _spec_der(H, Rs, shifts, 1)
            ok = tuple(XB.shape) == (nk, NW, NW, 3)
            U.ensure("Xbar('Ham',1) shape", ok)
            for ik, kf in enumerate(kforms):
                cl = []
                Fk = {(b, c, x): fourier_spec([Xd[(iR, b, c, (x,))] for iR in range(len(Rs))], Rs, kf) for b in range(NW) for c in range(NW) for x in range(3)}
                for a in range(NW):
                    for d in range(NW):
                        for x in range(3):
                            want = PhSum({})
                            for b in range(NW):
                                for c in range(NW):
                                    want = want + Fk[(b, c, x)] * (UU[ik, b, a].conj() * UU[ik, c, d])
                            cl.append(phsum_eq(XB[ik, a, d, x], want))
                U.ensure("Xbar('Ham',1)[k=%d] = U_k^dagger (sum_R i(R+tau_b-tau_a) H[R] ph(R.k)) U_k with this k's own U" % ik, land(*cl))
            U.ensure("Xbar is memoised per (name, der)", data.Xbar("Ham", 1) is XB)
        U.run(body, check_feasible=False)
        _externals(U)
        U.external("np.linalg.eigh (E_K, UU_K): any matrices; here a generic exact matrix per k-point, the rotation itself is proved for arbitrary U in the _rotate unit")
    return Unit("C02", name, prove=prove, replay=_replay_dataK, replay_once=True,
                scope="shape:%s, 6 R-vectors, %d bands" % ("2 symbolic k-points" if klist else "NKFFT=%s" % (NKFFT,), NW), expect_min=4)


@unit("C02", "Data_K._rotate: U_k^dagger M_k U_k for every k, trailing indices untouched", scope="shape:2 k-points, 2 bands, one trailing Cartesian index", expect_min=1)
def _rotate_unit(U):
    NP, RV, GA, DKR = build_dataK(U)

    def body():
        me = DKR.__new__(DKR)
        UU = sym_cplx_array("U", (2, NW, NW))
        me.__dict__["UU_K"] = UU
        M = sym_cplx_array("M", (2, NW, NW, 2))
        out = me._rotate(M)
        cl = []
        ok = tuple(out.shape) == (2, NW, NW, 2)
        if ok:
            for k in range(2):
                for a in range(NW):
                    for d in range(NW):
                        for x in range(2):
                            want = SCplx(0, 0)
                            for b in range(NW):
                                for c in range(NW):
                                    want = want + UU[k, b, a].conj() * M[k, b, c, x] * UU[k, c, d]
                            got = SCplx.of(out[k, a, d, x])
                            cl.append(got.re == want.re)
                            cl.append(got.im == want.im)
        U.ensure("out[k,a,d,x] = sum_bc conj(U[k,b,a]) M[k,b,c,x] U[k,c,d]", land(*cl) if ok else False)
    U.run(body, check_feasible=False)


def _replay_dataK(mv, ob):
    import random
    r = _bounded_dataK(random.Random(7), 10)
    return dict(reproduced=bool(r["failures"]), input="random tight-binding systems through Data_K_R with all FFT libraries and an explicit k list", failed=r["failures"][:3])


def _bounded_dataK(rng, n):
    """installed code: HH_K and Xbar('Ham',der) from Data_K_R for fftw / numpy / slow grids and the explicit k list agree with the direct sum"""
    import wannierberri as wb
    from wannierberri.grid import Grid
    from wannierberri.data_K import Data_K_R
    rnp.random.seed(rng.randint(1, 10 ** 6))
    fails, cases = [], 0
    for t in range(3 if n <= 30 else 12):
        nw = rng.randint(1, 3)
        system = wb.system.System_R.from_random(num_wann=nw, nRvec=rng.randint(3, 8), max_R=3)
        NK = [rng.randint(1, 3) for _ in range(3)]
        grid = Grid(system, NKdiv=1, NKFFT=NK, use_symmetry=False)
        dK = rnp.array([rng.uniform(0, 1) / NK[j] for j in range(3)])
        Rs, H = system.rvec.iRvec, system.get_R_mat("Ham")
        cR = system.rvec.cRvec_shifted
        ref = None
        for lib in ("fftw", "numpy", "slow", "k_list"):
            if lib == "k_list":
                kl = (grid.points_FFT + dK[None]) % 1
                data = Data_K_R(system, dK=None, grid=grid, k_list=kl)
            else:
                data = Data_K_R(system, dK=dK, grid=grid, fftlib=lib)
            kall = data.kpoints_all
            ph = rnp.exp(2j * rnp.pi * kall.dot(Rs.T))
            HK = rnp.einsum("kr,rab->kab", ph, H)
            HK = 0.5 * (HK + HK.swapaxes(1, 2).conj())
            D1 = rnp.einsum("kr,rabc->kabc", ph, 1j * H[..., None] * cR)
            UU = data.UU_K
            D1 = rnp.einsum("kba,kbcx,kcd->kadx", UU.conj(), D1, UU)
            cases += 1
            e1 = float(rnp.abs(data.HH_K - HK).max())
            e2 = float(rnp.abs(data.Xbar("Ham", 1) - D1).max())
            e3 = float(rnp.abs(data.HH_K - data.HH_K.swapaxes(1, 2).conj()).max())
            if max(e1, e2, e3) > 1e-8:
                fails.append(dict(input=dict(lib=lib, NKFFT=NK, num_wann=nw), clause="HH_K / Xbar('Ham',1) = direct sum at kpoints_all, Hermitian", errors=[e1, e2, e3]))
    return dict(cases=cases, failures=fails, distinct=cases)


# ------------------------------------------------------------------------------------------------------- replay (real code)
def _real_chain_cases(rng, n):
    import wannierberri as wb
    from wannierberri.fourier.rvectors import Rvectors
    fails, cases = [], 0
    libs = ["fftw", "numpy", "slow"]
    for t in range(n):
        nR = rng.randint(1, 7)
        Rs = rnp.unique(rnp.array([[rng.randint(-3, 3) for _ in range(3)] for _ in range(nR)]), axis=0)
        nw = rng.randint(1, 3)
        NK = tuple(rng.randint(1, 5) for _ in range(3))
        der = rng.randint(0, 2)
        herm = rng.random() < 0.5
        latt = rnp.array([[rng.uniform(-1, 1) for _ in range(3)] for _ in range(3)]) + 2 * rnp.eye(3)
        tau = rnp.array([[rng.uniform(-1, 1) for _ in range(3)] for _ in range(nw)])
        dK = rnp.array([rng.uniform(0, 1) / NK[j] for j in range(3)])
        X = rnp.array([[[complex(rng.gauss(0, 1), rng.gauss(0, 1)) for _ in range(nw)] for _ in range(nw)] for _ in range(len(Rs))])
        kall = rnp.array([[n_[j] / NK[j] + dK[j] for j in range(3)] for n_ in itertools.product(*[range(N) for N in NK])])

        def spec(klist):
            Xd = X.copy()
            cR = Rs.dot(latt)[:, None, None, :] + (-tau.dot(latt)[:, None] + tau.dot(latt)[None, :])[None]
            for _ in range(der):
                Xd = 1j * Xd[..., None] * cR.reshape((len(Rs), nw, nw) + (1,) * (Xd.ndim - 3) + (3,))
            out = rnp.einsum("kr,r...->k...", rnp.exp(2j * rnp.pi * klist.dot(Rs.T)), Xd)
            if herm:
                out = 0.5 * (out + out.swapaxes(1, 2).conj())
            return out
        want = spec(kall)
        for lib in libs:
            rv = Rvectors(lattice=latt, shifts_left_red=tau, iRvec=Rs)
            rv.set_fft_R_to_k(NK=NK, num_wann=nw, fftlib=lib, dK=dK)
            got = rv.R_to_k(rv.apply_expdK(X.copy()), der=der, hermitian=herm)
            cases += 1
            if got.shape != want.shape or not rnp.allclose(got, want, atol=1e-9):
                fails.append(dict(input=dict(lib=lib, NKFFT=NK, iRvec=Rs.tolist(), der=der, hermitian=herm, nw=nw),
                                  clause="out[ik] = sum_R X_der[R] ph(R.(n/NKFFT+dK))", max_err=float(rnp.abs(got - want).max()) if got.shape == want.shape else "shape %s vs %s" % (got.shape, want.shape)))
        rv = Rvectors(lattice=latt, shifts_left_red=tau, iRvec=Rs)
        rv.set_fft_R_to_k(NK=None, num_wann=nw, k_list=kall)
        got = rv.R_to_k(rv.apply_expdK(X.copy()), der=der, hermitian=herm)
        cases += 1
        if got.shape != want.shape or not rnp.allclose(got, want, atol=1e-9):
            fails.append(dict(input=dict(lib="k_list", NKFFT=NK, iRvec=Rs.tolist(), der=der, hermitian=herm, nw=nw),
                              clause="out[i] = sum_R X_der[R] ph(R.k_i)", max_err=float(rnp.abs(got - want).max()) if got.shape == want.shape else "shape"))
    return cases, fails


def _replay_chain(mv, ob):
    import random
    cases, fails = _real_chain_cases(random.Random(20260922), 8)
    return dict(reproduced=bool(fails), input="8 random models (R-sets, NKFFT, der, hermitian) through all four back ends of the installed code", failed=fails[:3])


def _bounded_chain(rng, n):
    cases, fails = _real_chain_cases(rng, 15 if n <= 30 else 150)
    return dict(cases=cases, failures=fails, distinct=cases)


# ------------------------------------------------------------------------------------------------------- registration
def _register():
    quick = set(GRID_CASES_QUICK)
    for NKFFT, rname in GRID_CASES_THOROUGH:
        for lib in ("numpy", "fftw", "slow"):
            _grid_unit(NKFFT, rname, lib, 0, True, False, tiers=("quick", "thorough") if (NKFFT, rname) in quick else ("thorough",))
    _grid_unit((2, 3, 1), "A", "numpy", 0, False, False)
    _grid_unit((2, 1, 1), "A", "numpy", 1, False, True)
    _grid_unit((2, 1, 1), "A", "fftw", 1, True, True)
    _grid_unit((1, 2, 1), "B", "fftw", 2, False, True)
    _grid_unit((2, 1, 1), "B", "slow", 1, False, True)
    for lib_ in ("fftw", "numpy", "slow"):
        _frame_unit(lib_)
    _reconf_unit("numpy")
    _reconf_unit("fftw")
    # library names are accepted in any letter case: the same transform as for the lower-case name
    for lib_ in ("FFTW", "NumPy", "Slow"):
        _grid_unit((2, 1, 1), "A", lib_, 0, False, False)
    _reconf_klist_unit("numpy")
    _reconf_klist_unit("slow")
    _klist_unit("A", 0, True, False)
    _klist_unit("B", 1, False, True)
    _klist_unit("A", 2, True, True, nk=1)
    _dataK_unit((2, 1, 1), "numpy")
    _dataK_unit((1, 3, 2), "fftw")
    _dataK_unit(None, "fftw", klist=True)
    _herm_unit((2, 1, 1), "numpy", 1)
    _herm_unit((1, 2, 1), "fftw", 2)
    _herm_unit(None, "k_list", 3)


_register()

Unit("C02", "Data_K_R: HH_K and Xbar agree across back ends [real code]", concrete=_bounded_dataK,
     bounded_desc="installed get_data_k on 3 (quick) / 12 (thorough) random systems x 4 back ends against the direct sum")

Unit("C02", "all four back ends agree with the spec sum [real code, real FFT libraries]", concrete=_bounded_chain,
     bounded_desc="installed Rvectors/FFT_R_to_k with real numpy.fft and pyfftw on 15 (quick) / 150 (thorough) random models x 4 back ends: validates the external DFT contracts")
