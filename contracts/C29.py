"""C29  Paths are built and tabulated faithfully.

Under contract (real text on the real numpy; node coordinates / k-points SYMBOLIC):
  grid/path.py::Path.from_nodes    node lists with and without breaks (None), nk given as one integer or per segment: every node appears in
        order at the expected index with its label, each segment is sampled uniformly (start + t/(nk-1) (end-start), t = 0..nk-2), a break
        repeats the node before it once and is recorded there, the last node closes the path.  With `dk`/`length` (concrete nodes):
        nk = round(|segment|/dk)+1, at least 2.
  grid/path.py::Path.get_refined   symbolic k-points, every break set on a 4-point path, factors 1-3: original point i sits at
        pos(i) = sum_{j<i} (1 if j is a break else factor) with its label / break flag, the points in between subdivide the segment uniformly.
  grid/path.py::Path.get_K_list    the batches concatenate to the k-point list, each point once, in order, for every batch size.
  grid/path.py::Path.getKline      (concrete paths) starts at 0, increments are the Cartesian segment lengths, zero across breaks: non-decreasing.
  result/tabresult.py::TABresult.self_to_path   path order with each point's own values: the unit of C12 (every collection order of
                                                 3 and 4 path points) is registered here as well.
"""
import itertools
import warnings
from collections.abc import Iterable

import numpy as rnp
import z3
from pyvc.core import ctx, sreal, land, lift, SNum
from pyvc.unit import unit, Unit
from pyvc.npshim import Shim, sym_real_array

F = "wannierberri/grid/path.py"


def _valid(c):
    s = z3.Solver()
    s.add(z3.Not(c.t))
    return s.check() == z3.unsat


class PathStub:
    def __init__(self, **kw):
        self.kw = kw
        self.recip_lattice = rnp.eye(3)
        self.pointgroup = "PG"
        for k in ("labels", "breaks"):
            setattr(self, k, kw.get(k))
        if "k_list" in kw:
            self.K_list = kw["k_list"]


PATTERNS = [
    ("A-B", [0, 1]), ("A-B-C", [0, 1, 2]), ("A-B|C-D", [0, 1, None, 2, 3]), ("A|B-C", [0, None, 1, 2]), ("A-B-C|D-E-F", [0, 1, 2, None, 3, 4, 5]),
    ("A-B|C-D|E-F", [0, 1, None, 2, 3, None, 4, 5]),
]


def _nodes_unit(pname, pat, nk, default_labels=False):
    @unit("C29", "Path.from_nodes[%s,nk=%s%s]" % (pname, nk, ",default labels" if default_labels else ""), scope="shape:node pattern %s" % pname, expect_min=4)
    def _n(U):
        f = U.fn(F, "Path.from_nodes", globs=dict(np=Shim(), Iterable=Iterable), model=False)

        def body():
            coords = {j: [sreal("n%d_%d" % (j, c)) for c in range(3)] for j in pat if j is not None}
            nodes = [None if j is None else coords[j] for j in pat]
            labs = None if default_labels else ["L%d" % j for j in pat if j is not None]
            lab_of = (lambda j: str(j + 1)) if default_labels else (lambda j: "L%d" % j)         # default labels: the nodes numbered from 1, gaps not counted
            nseg = sum(1 for a, b in zip(pat, pat[1:]) if a is not None and b is not None)
            nks = list(nk) if isinstance(nk, (list, tuple)) else [nk] * nseg
            out = f(PathStub, recip_lattice=rnp.eye(3), nodes=nodes, labels=labs, nk=(list(nk) if isinstance(nk, (list, tuple)) else nk))
            # independent construction of what the property demands
            want, wlab, wbr = [], {}, []
            seg = 0
            for a, b in zip(pat, pat[1:]):
                if a is not None and b is not None:
                    wlab[len(want)] = lab_of(a)
                    n_ = nks[seg]
                    seg += 1
                    for t in range(n_ - 1):
                        want.append([coords[a][c] + (coords[b][c] - coords[a][c]) * t / (n_ - 1) for c in range(3)])
                elif a is not None and b is None:
                    wlab[len(want)] = lab_of(a)
                    want.append(list(coords[a]))
                    wbr.append(len(want) - 1)
            last = [j for j in pat if j is not None][-1]
            want.append(list(coords[last]))
            wlab[len(want) - 1] = lab_of(last)
            K = out.K_list
            U.ensure("number of points", K.shape == (len(want), 3))
            ok = K.shape == (len(want), 3) and all(_valid(lift(K[i, c]) == lift(want[i][c])) for i in range(len(want)) for c in range(3))
            U.ensure("every node in order, each segment sampled uniformly with nk points incl. both ends, break nodes repeated once", ok)
            U.ensure("labels sit on their nodes", dict(out.labels) == wlab)
            U.ensure("breaks are recorded at the node before the gap", list(out.breaks) == wbr)
        U.run(body, check_feasible=False)


for _pn, _pat in PATTERNS:
    _nodes_unit(_pn, _pat, 3)
_nodes_unit("A-B-C", [0, 1, 2], 2)
_nodes_unit("A-B|C-D|E-F", [0, 1, None, 2, 3, None, 4, 5], 3, default_labels=True)
_nodes_unit("A|B-C", [0, None, 1, 2], 3, default_labels=True)
_nodes_unit("A-B|C-D", [0, 1, None, 2, 3], [2, 5])
_nodes_unit("A-B-C|D-E-F", [0, 1, 2, None, 3, 4, 5], [5, 2, 3, 9])       # dyadic sampling fractions (exact in floats)


@unit("C29", "Path.from_nodes[dk / length]", scope="shape:concrete nodes on three lattices", expect_min=2)
def _dk(U):
    f = U.fn(F, "Path.from_nodes", globs=dict(np=rnp, Iterable=Iterable), model=False)

    def body():
        bad = []
        for lat in (rnp.eye(3), rnp.diag([1.0, 2.0, 0.5]), rnp.array([[1, 0.3, 0], [0, 1, 0.2], [0.1, 0, 1.5]])):
            for nodes in ([[0, 0, 0], [0.5, 0, 0], [0.5, 0.5, 0.5]], [[0, 0, 0], [0.001, 0, 0], None, [0.2, 0.1, 0], [0.5, 0.5, 0]]):
                for dk in (0.05, 0.2, 3.0):
                    class P(PathStub):
                        def __init__(self, **kw):
                            super().__init__(**kw)
                            self.recip_lattice = lat
                    out = f(P, recip_lattice=lat, nodes=nodes, dk=dk)
                    o2 = f(P, recip_lattice=lat, nodes=nodes, length=2 * rnp.pi / dk)
                    if out.K_list.shape != o2.K_list.shape or not rnp.allclose(out.K_list, o2.K_list):
                        bad.append(("length != 2pi/dk", dk))
                    pos = 0
                    for a, b in zip(nodes, nodes[1:]):
                        if a is not None and b is not None:
                            L = rnp.linalg.norm((rnp.array(a) - rnp.array(b)).dot(lat))
                            n_ = max(2, round(L / dk) + 1)
                            segpts = out.K_list[pos:pos + n_ - 1]
                            exp = rnp.array(a)[None, :] + rnp.arange(n_ - 1)[:, None] / (n_ - 1) * (rnp.array(b) - rnp.array(a))[None, :]
                            if segpts.shape != exp.shape or not rnp.allclose(segpts, exp):
                                bad.append(("segment", a, b, dk))
                            pos += n_ - 1
                        elif a is not None:
                            pos += 1
        U.ensure("with dk (or length = 2 pi/dk): nk = round(|segment|/dk)+1 but at least 2, uniform sampling", not bad)
        for kw in (dict(length=1.0, dk=0.1), dict(dk=0.1, nk=3)):
            try:
                f(PathStub, recip_lattice=rnp.eye(3), nodes=[[0, 0, 0], [1, 0, 0]], **kw)
                U.ensure("contradictory spacing options are refused %s" % sorted(kw), False)
            except ValueError:
                U.ensure("contradictory spacing options are refused %s" % sorted(kw), True)
    U.run(body, check_feasible=False)


def _refine_unit(factor):
    @unit("C29", "Path.get_refined[factor=%d]" % factor, scope="shape:5-point path, every set of breaks, labels on points 0,2,4", expect_min=3)
    def _r(U):
        f = U.fn(F, "Path.get_refined", globs=dict(np=Shim(), Path=PathStub), model=False)
        n = 5

        def body():
            br = [i for i in range(n) if (ctx().choose(2, "break at %d" % i) == 1)]
            me = PathStub()
            me.K_list = sym_real_array("k", (n, 3))
            me.labels = {0: "G", 2: "X", 4: "M"}
            me.breaks = br
            out = f(me, factor=factor)
            K = rnp.array(out.K_list, dtype=object)
            pos = [0]
            for j in range(n - 1):
                pos.append(pos[-1] + (1 if j in br else factor))
            U.ensure("refined length = 1 + sum over segments (1 across a break, factor otherwise)", K.shape == (pos[-1] + 1, 3))
            ok = K.shape == (pos[-1] + 1, 3)
            if ok:
                for i in range(n):
                    ok = ok and all(_valid(lift(K[pos[i], c]) == me.K_list[i, c]) for c in range(3))
                for i in range(n - 1):
                    if i not in br:
                        for j in range(1, factor):
                            ok = ok and all(_valid(lift(K[pos[i] + j, c]) == me.K_list[i, c] + (me.K_list[i + 1, c] - me.K_list[i, c]) * j / factor) for c in range(3))
            U.ensure("original point i sits at pos(i); the points between non-break neighbours subdivide the segment uniformly", ok)
            U.ensure("labels and breaks move with their points", dict(out.labels) == {pos[i]: l for i, l in me.labels.items()} and list(out.breaks) == [pos[i] for i in br])
        U.run(body, check_feasible=False)


for _f in (1, 2, 3):
    _refine_unit(_f)


@unit("C29", "Path.get_K_list", scope="shape:7 points, batch sizes 1..9", expect_min=1)
def _batches(U):
    class KB:
        def __init__(self, K=None, pointgroup=None):
            self.K, self.pg = K, pointgroup
    f = U.fn(F, "Path.get_K_list", globs=dict(np=Shim(), KpointBZpath=KB, warnings=warnings, print=lambda *a, **k: None), model=False)

    def body():
        me = PathStub()
        me.K_list = sym_real_array("k", (7, 3))
        bad = []
        for kb in range(1, 10):
            out = f(me, k_batch=kb)
            cat = rnp.vstack([o.K for o in out]) if out else rnp.zeros((0, 3))
            same = cat.shape == (7, 3) and all(cat[i, c] is me.K_list[i, c] for i in range(7) for c in range(3))
            if not same or any(len(o.K) == 0 or len(o.K) > kb for o in out) or any(o.pg != "PG" for o in out):
                bad.append(kb)
        U.ensure("for every batch size the batches are non-empty, at most k_batch long and concatenate to the path (each point once, in order)", not bad)
    U.run(body, check_feasible=False)


@unit("C29", "Path.getKline", scope="shape:concrete paths with breaks on two lattices", expect_min=1)
def _kline(U):
    f = U.fn(F, "Path.getKline", globs=dict(np=rnp), model=False)

    def body():
        rs = rnp.random.RandomState(3)
        bad = []
        for lat in (rnp.eye(3), rnp.array([[1, 0.3, 0], [0, 1, 0.2], [0.1, 0, 1.5]])):
            for n, br in ((2, []), (6, []), (6, [2]), (7, [0, 3]), (5, [3])):
                me = PathStub()
                me.recip_lattice = lat
                me.K_list = rs.rand(n, 3)
                me.K_list[1] = me.K_list[0] if n > 3 else me.K_list[1]         # a repeated point (zero-length step)
                me.breaks = br
                K = f(me)
                seg = rnp.linalg.norm((me.K_list[1:] - me.K_list[:-1]).dot(lat), axis=1)
                seg[br] = 0
                if K.shape != (n,) or K[0] != 0 or not rnp.allclose(rnp.diff(K), seg) or (rnp.diff(K) < 0).any():
                    bad.append((n, br))
                K2 = f(me, break_thresh=0.5)
                seg2 = seg.copy()
                seg2[seg2 > 0.5] = 0
                if not rnp.allclose(rnp.diff(K2), seg2):
                    bad.append((n, br, "thresh"))
        U.ensure("path coordinate starts at 0, grows by the Cartesian segment length, by 0 across breaks (and across jumps above break_thresh): non-decreasing", not bad)
    U.run(body, check_feasible=False)


# ------------------------------------------------------------------ re-ordering of collected results to the path (shared with C12)
from contracts import C12 as _c12      # noqa: E402

for _n in (3, 4):
    _c12._path_unit(_n, prop="C29")


# ------------------------------------------------------------------ evaluate_k_path: the wiring around run()
@unit("C29", "evaluate_k_path: path built from the nodes (or the given one), named quantities + own tabulators in path mode, one run() over the path", scope="shape:with / without a given path", expect_min=3)
def _ekp(U):
    import types
    FE = "wannierberri/evaluate_k.py"
    calls = {}

    class TA:
        def __init__(self, tabulators=None, mode=None, ibands=None):
            self.tabulators, self.mode, self.ibands = dict(tabulators), mode, ibands

    def run(system, grid=None, calculators=None, parallel=None, **kw):
        calls["run"] = (system, grid, calculators, parallel, kw)
        return types.SimpleNamespace(results={"tabulate": ("TAB-OF", grid)})

    class PathStub:
        @staticmethod
        def from_nodes(system, nodes=None, labels=None, length=None):
            calls["from_nodes"] = (system, nodes, labels, length)
            return ("PATH", tuple(nodes))
    avail = {"energy": "TAB-energy", "berry_curvature": "TAB-berry"}
    g = dict(available_quantities=avail, tabulate=types.SimpleNamespace(TabulatorAll=TA), run=run)
    f = U.fn(FE, "evaluate_k_path", globs=g, model=False, rewrite_comps=False)
    import sys as _sys
    # `from .grid import Path` inside the function: give it the stub through a module object
    import wannierberri.grid as _wg

    def body():
        calls.clear()
        real_Path = _wg.Path
        _wg.Path = PathStub
        try:
            f.raw.__globals__["__package__"] = "wannierberri"
            f.raw.__globals__["__name__"] = "wannierberri.evaluate_k"
            out = f("SYS", nodes=[[0, 0, 0], [0.5, 0, 0]], labels=["G", "X"], length=77, quantities=["energy"], tabulators={"mine": "TAB-mine"}, ibands=[1], parallel="PAR", extra=1)
        finally:
            _wg.Path = real_Path
        path, res = out
        system, grid, calcs, par, kw = calls["run"]
        ta = calcs["tabulate"]
        U.ensure("no path given: Path.from_nodes(system, nodes, labels, length) is built and returned with the result",
                 calls["from_nodes"] == ("SYS", [[0, 0, 0], [0.5, 0, 0]], ["G", "X"], 77) and path[0] == "PATH")
        U.ensure("one run() over that path with a single TabulatorAll in path mode holding the user's tabulators and the named quantities, band selection and extra options forwarded",
                 system == "SYS" and grid is path and list(calcs) == ["tabulate"] and ta.mode == "path" and ta.tabulators == {"mine": "TAB-mine", "energy": "TAB-energy"}
                 and ta.ibands == [1] and par == "PAR" and kw == {"extra": 1} and res == ("TAB-OF", path))
        calls.clear()
        out2 = f("SYS", path="GIVEN", quantities=["berry_curvature"])
        U.ensure("a given path is used as it is and only the table is returned", "from_nodes" not in calls and calls["run"][1] == "GIVEN" and out2 == ("TAB-OF", "GIVEN"))
        try:
            f("SYS", path="GIVEN", quantities=["no-such-quantity"])
            ok = False
        except ValueError:
            ok = True
        U.ensure("unknown named quantities are refused", ok)
    U.run(body, check_feasible=False)
    U.external("run() over a Path: K-points from Path.get_K_list, results re-ordered by TABresult.self_to_path (units above); per-k independence of the k-list transform: C02")
