"""C14  Tetrahedron weights equal the exact linear-tetrahedron volume fractions.

Functions under contract (text read from /repo on every run):
  grid/tetrahedron.py::weights_tetra                      (all branches: accurate/coefficient, der 0..3)
  grid/tetrahedron.py::TetraWeights.weight_1k1b_priv      (calls weights_tetra by contract)
  grid/tetrahedron.py::TetraWeightsParal.weight_1k1b_priv (12-tetrahedra decomposition; weights_tetra by contract)
  grid/tetrahedron.py::TetraWeights.weight_1k1b           (der=-1 complement, null K-point)
Spec (taken from the property statement, not from the code): Bloechl's volume fraction V of a linear tetrahedron,
its derivatives tied to V by the Taylor identity (a polynomial identity the solver checks), range, monotonicity,
symmetry under permutation of the corners.
"""
import itertools
import random
from fractions import Fraction

from pyvc.core import (ctx, lift, ite, land, lor, implies, forall, sreal, sint, fresh_real, lnot, SNum, conc)
from pyvc.arr import sym_array, SArr
from pyvc.unit import unit, Unit
from pyvc.npmodel import np as NP
from pyvc import runtime

F = "wannierberri/grid/tetrahedron.py"
DIFF_MIN = Fraction(1e-12)        # the code's float literal, with its exact binary value


# ------------------------------------------------------------------ spec functions (polymorphic: Fraction/float or symbolic)
def V_c1(e, E):
    e1, e2, e3, e4 = e
    return (E - e1) * (E - e1) * (E - e1) / ((e2 - e1) * (e3 - e1) * (e4 - e1))


def V_c2(e, E):
    e1, e2, e3, e4 = e
    K = ((e3 - e1) + (e4 - e2)) / ((e3 - e2) * (e4 - e2))
    x = E - e2
    return ((e2 - e1) * (e2 - e1) + 3 * (e2 - e1) * x + 3 * x * x - K * x * x * x) / ((e3 - e1) * (e4 - e1))


def V_c3(e, E):
    e1, e2, e3, e4 = e
    return 1 - (e4 - E) * (e4 - E) * (e4 - E) / ((e4 - e1) * (e4 - e2) * (e4 - e3))


def D_c1(k, e, E):
    e1, e2, e3, e4 = e
    den = (e2 - e1) * (e3 - e1) * (e4 - e1)
    return [None, 3 * (E - e1) * (E - e1) / den, 6 * (E - e1) / den, 6 / den][k]


def D_c2(k, e, E):
    e1, e2, e3, e4 = e
    K = ((e3 - e1) + (e4 - e2)) / ((e3 - e2) * (e4 - e2))
    d = (e3 - e1) * (e4 - e1)
    x = E - e2
    return [None, (3 * (e2 - e1) + 6 * x - 3 * K * x * x) / d, (6 - 6 * K * x) / d, -6 * K / d][k]


def D_c3(k, e, E):
    e1, e2, e3, e4 = e
    den = (e4 - e1) * (e4 - e2) * (e4 - e3)
    return [None, 3 * (e4 - E) * (e4 - E) / den, -6 * (e4 - E) / den, 6 / den][k]


PIECES = ("below", "c1", "c2", "c3", "above")


def piece_cond(p, e, E):
    e1, e2, e3, e4 = e
    return dict(below=lambda: E < e1, c1=lambda: land(E >= e1, E < e2), c2=lambda: land(E >= e2, E < e3),
                c3=lambda: land(E >= e3, E < e4), above=lambda: E >= e4)[p]()


def spec(der, e, E, sym=True):
    """V^(der)(e; E) for strictly increasing e; der=0: the volume fraction"""
    e1, e2, e3, e4 = e
    if der == 0:
        pc = [V_c1(e, E), V_c2(e, E), V_c3(e, E)]
        hi, lo = 1, 0
    else:
        pc = [D_c1(der, e, E), D_c2(der, e, E), D_c3(der, e, E)]
        hi, lo = 0, 0
    if sym:
        return ite(E >= e4, hi, ite(E < e1, lo, ite(E >= e3, pc[2], ite(E >= e2, pc[1], pc[0]))))
    return hi if E >= e4 else lo if E < e1 else pc[2] if E >= e3 else pc[1] if E >= e2 else pc[0]


def sort4(xs):
    """spec-side sorting network on 4 values (bubble network, exact)"""
    ys = [lift(x) for x in xs]
    for i in range(4):
        for j in range(3 - i):
            a, b = ys[j], ys[j + 1]
            c = a <= b
            ys[j], ys[j + 1] = ite(c, a, b), ite(c, b, a)
    return ys


def spread(s):
    out = [s[0]]
    for i in range(3):
        out.append(ite(s[i + 1] - out[i] < DIFF_MIN, out[i] + DIFF_MIN, s[i + 1]))
    return out


def spec_concrete(der, corners, E):
    s = sorted(Fraction(c) for c in corners)
    p = [s[0]]
    for i in range(3):
        p.append(p[i] + DIFF_MIN if s[i + 1] - p[i] < DIFF_MIN else s[i + 1])
    return spec(der, p, Fraction(E), sym=False)


# ------------------------------------------------------------------ the code under contract
def _cut():
    """mid-condition after `e1, e2, e3, e4 = e` (solver hygiene: prove it on every path, then continue ONE path on which
    the four corners are fresh symbols constrained only by it).  cond is proved and then assumed; also_prove ties the
    corners the code uses to the spec's  spread(sort4(inputs))  and is proved only."""
    def cond(L):
        return [land(L.e1 < L.e2, L.e2 < L.e3, L.e3 < L.e4)]

    def also(L):
        p = spread(sort4(ctx().ghost["inputs"]))
        return [land(L.e1 == p[0], L.e2 == p[1], L.e3 == p[2], L.e4 == p[3])]
    return [dict(after="e1, e2, e3, e4 = e", vars=("e", "e1", "e2", "e3", "e4", "i"), cond=cond, also_prove=also)]


def _globs():
    return dict(np=NP)


def _mk_weights_tetra_unit(der, accurate):
    name = "weights_tetra[der=%d,%s]" % (der, "accurate" if accurate else "coeff")
    loop_ids = {(0, True): 1, (0, False): 2, (1, False): 3, (2, False): 4, (3, False): 5}
    loop_ids.update({(1, True): 3, (2, True): 4, (3, True): 5})
    lk = loop_ids[(der, accurate)]

    def prove(U):
        def inv(L):
            e = (L.e1, L.e2, L.e3, L.e4)
            return [forall(lambda j: implies(land(j >= 0, j < L.pos), L.occ.get((j,)) == spec(der, e, L.efall.get((j,)))), name="inv")]
        loops = {lk: dict(header="range(nEF)", inv=inv)}
        f = U.fn(F, "weights_tetra", globs=_globs(), loops=loops, cuts=_cut())

        def body():
            n = sint("nEF")
            ctx().assume(n >= 0)
            efall = sym_array("efall", (n,), "real")
            e = [sreal("e%d" % i) for i in range(4)]
            ctx().ghost["inputs"] = e
            res = f(efall, e[0], e[1], e[2], e[3], der=der, accurate=accurate)
            c = ctx().ghost["cut0"]         # the corners the code uses; == spread(sort4(inputs)) by the cut's mid-condition
            p = (c["e1"], c["e2"], c["e3"], c["e4"])
            U.ensure("ensures:occ==V^(%d)(corners,ef)" % der,
                     forall(lambda j: implies(land(j >= 0, j < n), res.get((j,)) == spec(der, p, efall.get((j,)))), name="post"))
            return res
        U.run(body)
        U.external("sorted() returns the ordered permutation of a 4-list (encoded exactly as a compare-exchange network)")
        U.external("numba @njit compiles weights_tetra with the python semantics of the float subset it uses (decorator dropped)")

    def replay(mv, ob):
        corners = [float(mv.get("e%d" % i, 0)) for i in range(4)]
        efs = sorted(set(float(v) for (idx, v) in mv.array("efall").items() if not isinstance(v, str)))
        sc = sorted(corners)
        efs += sc + [(a + b) / 2 for a, b in zip(sc, sc[1:])] + [sc[0] - 1, sc[-1] + 1]
        return _replay_weights(corners, efs, der, accurate)

    def concrete(rng, n):
        fails, cases = [], 0
        for t in range(n):
            mode = t % 4
            base = [rng.uniform(-3, 3) for _ in range(4)]
            if mode == 1:
                base[1] = base[0]
            if mode == 2:
                base[2] = base[1] = base[0]
            if mode == 3:
                base = [base[0]] * 4
            if not accurate or der > 0:       # the coefficient form cancels catastrophically for close corners (floats)
                base = sorted(base)
                base = [base[0] + 0.3 * i + abs(base[i] - base[0]) for i in range(4)]
            rng.shuffle(base)
            efs = [rng.uniform(-4, 4) for _ in range(7)] + [b for b in base]
            r = _replay_weights(base, efs, der, accurate)
            cases += 1
            if r["reproduced"]:
                fails.append(r)
        return dict(cases=cases, failures=fails, distinct=cases, sample=dict(corners=base, efall=efs[:3]))
    Unit("C14", name, prove=prove, replay=replay, concrete=concrete, expect_min=6,
         bounded_desc="random corners in [-3,3] incl. 2/3/4-fold coincident (accurate branch), 11 Fermi levels each; |diff| <= 1e-6(1+|spec|)")


def _replay_weights(corners, efs, der, accurate):
    import numpy as np
    from wannierberri.grid.tetrahedron import weights_tetra
    fn = getattr(weights_tetra, "py_func", weights_tetra)
    got = fn(np.array(efs, dtype=float), *[float(c) for c in corners], der=der, accurate=accurate)
    bad = []
    for E, g in zip(efs, got):
        want = spec_concrete(der, corners, E)
        scale = 1 + abs(float(want))
        if not abs(float(g) - float(want)) <= 1e-6 * scale * (1 if der == 0 else 10 ** der):
            bad.append(dict(ef=E, got=float(g), spec=float(want)))
    return dict(reproduced=bool(bad), input=dict(corners=corners, efall=list(efs), der=der, accurate=accurate),
                clause="occ[i] == V^(der)(perturbed sorted corners; efall[i])", mismatches=bad[:4])


for _der, _acc in ((0, True), (0, False), (1, False), (2, False), (3, False)):
    _mk_weights_tetra_unit(_der, _acc)


# ------------------------------------------------------------------ spec-level lemmas (no code): what V is
def _strict(e):
    return land(e[0] < e[1], e[1] < e[2], e[2] < e[3])


@unit("C14", "spec:range", expect_min=5, timeout_ms=60000)
def _range(U):
    e = [sreal("P%d" % i) for i in range(4)]
    E = sreal("E")
    for p in PIECES:
        def build(p=p):
            v = spec(0, e, E)
            return [_strict(e), piece_cond(p, e, E)], land(v >= 0, v <= 1)
        U.lemma("0<=V<=1 on piece %s" % p, build)


@unit("C14", "spec:continuity", expect_min=3)
def _cont(U):
    e = [sreal("P%d" % i) for i in range(4)]
    U.lemma("V_c1(e1)=0", lambda: ([_strict(e)], V_c1(e, e[0]) == 0))
    U.lemma("V_c1(e2)=V_c2(e2)", lambda: ([_strict(e)], V_c1(e, e[1]) == V_c2(e, e[1])))
    U.lemma("V_c2(e3)=V_c3(e3)", lambda: ([_strict(e)], V_c2(e, e[2]) == V_c3(e, e[2])))
    U.lemma("V_c3(e4)=1", lambda: ([_strict(e)], V_c3(e, e[3]) == 1))


@unit("C14", "spec:taylor", expect_min=3, timeout_ms=60000)
def _taylor(U):
    """D_k are the derivatives of V: V(E+h) = V + h D1 + h^2 D2/2 + h^3 D3/6 identically in h on each cubic piece"""
    e = [sreal("P%d" % i) for i in range(4)]
    E, h = sreal("E"), sreal("h")
    for nm, Vp, Dp in (("c1", V_c1, D_c1), ("c2", V_c2, D_c2), ("c3", V_c3, D_c3)):
        U.lemma("taylor %s" % nm, lambda Vp=Vp, Dp=Dp: ([_strict(e)],
                Vp(e, E + h) == Vp(e, E) + h * Dp(1, e, E) + h * h * Dp(2, e, E) / 2 + h * h * h * Dp(3, e, E) / 6))


def _mono_piece(nm, Vp, lo, hi):
    @unit("C14", "spec:monotone-within[%s]" % nm, expect_min=1, timeout_ms=120000)
    def _m(U):
        e = [sreal("P%d" % i) for i in range(4)]
        E1, E2 = sreal("Ea"), sreal("Eb")
        U.lemma("%s: e%d<=E1<=E2<=e%d => V_%s(E1)<=V_%s(E2)" % (nm, lo + 1, hi + 1, nm, nm), lambda: (
                [_strict(e), e[lo] <= E1, E1 <= E2, E2 <= e[hi]], Vp(e, E1) <= Vp(e, E2)))


_mono_piece("c1", V_c1, 0, 1)
_mono_piece("c2", V_c2, 1, 2)
_mono_piece("c3", V_c3, 2, 3)


@unit("C14", "spec:monotone-chain", expect_min=1)
def _chain(U):
    """global monotonicity of V from the per-piece lemmas + continuity: a linear argument over uninterpreted piece
    polynomials P1,P2,P3 (the instances of the per-piece lemmas and of continuity are the hypotheses)"""
    import z3
    from pyvc.core import SNum, SBool
    P = [z3.Function("Pc%d" % k, z3.RealSort(), z3.RealSort()) for k in (1, 2, 3)]
    e = [sreal("P%d" % i) for i in range(4)]
    E1, E2 = sreal("Ea"), sreal("Eb")

    def ap(k, x):
        return SNum(P[k](lift(x).t), "real")

    def Vabs(E):
        return ite(E >= e[3], 1, ite(E < e[0], 0, ite(E >= e[2], ap(2, E), ite(E >= e[1], ap(1, E), ap(0, E)))))

    def build():
        hyps = [_strict(e), E1 <= E2]
        pts = [E1, E2] + e
        for k in range(3):       # per-piece monotonicity, instantiated at all pairs of relevant points
            for x in pts:
                for y in pts:
                    hyps.append(implies(land(e[k] <= x, x <= y, y <= e[k + 1]), ap(k, x) <= ap(k, y)))
        hyps += [ap(0, e[0]) == 0, ap(0, e[1]) == ap(1, e[1]), ap(1, e[2]) == ap(2, e[2]), ap(2, e[3]) == 1]
        return hyps, Vabs(E1) <= Vabs(E2)
    U.lemma("E1<=E2 => V(E1)<=V(E2) (all pieces)", build)


@unit("C14", "spec:symmetry", expect_min=3)
def _sym(U):
    """the spec's sorted corners do not depend on the order of the arguments: invariant under the three adjacent
    transpositions, which generate S4; together with `occ == V(spread(sort4(corners)))` this is order independence"""
    e = [sreal("x%d" % i) for i in range(4)]
    for k in range(3):
        sw = list(e)
        sw[k], sw[k + 1] = sw[k + 1], sw[k]
        U.lemma("sort4 invariant under swap(%d,%d)" % (k, k + 1),
                lambda sw=sw: ([], land(*[x == y for x, y in zip(sort4(e), sort4(sw))])))
    U.lemma("sort4 is ordered", lambda: ([], (lambda s: land(s[0] <= s[1], s[1] <= s[2], s[2] <= s[3]))(sort4(e))))
    U.lemma("spread makes corners strictly increasing",
            lambda: ([], (lambda p: land(p[0] < p[1], p[1] < p[2], p[2] < p[3]))(spread(sort4(e)))))


@unit("C14", "spec:corner-bounds", expect_min=2)
def _bounds(U):
    """the perturbed sorted corners stay within [min, max + 3*diff_min] of the inputs (linear)"""
    e = [sreal("x%d" % i) for i in range(4)]

    def lo():
        p = spread(sort4(e))
        return [], land(*[p[0] <= x for x in e])

    def hi():
        p = spread(sort4(e))
        return [], land(*[implies(land(*[y <= x for y in e]), p[3] <= x + 3 * DIFF_MIN) for x in e])
    U.lemma("p1 <= every input corner", lo)
    U.lemma("p4 <= max(input corners) + 3e-12", hi)


# ------------------------------------------------------------------ callers of weights_tetra: verified against its CONTRACT
class _WTStub:
    """weights_tetra seen through its contract: result[j] = VV_k(efall[j]) with VV_k := E -> V^(der)(spread(sort4(corners_k)); E)
    uninterpreted; the facts about VV_k used by callers are exactly the lemmas proved above
    (spec:range, spec:monotone-chain, spec:corner-bounds) -- recorded per call for the caller's obligations."""

    def __init__(self):
        self.calls = []

    def __call__(self, efall, e0, e1, e2, e3, der=0, accurate=True):
        import z3
        k = len(self.calls)
        f = z3.Function("VV%d" % k, z3.RealSort(), z3.RealSort())
        self.calls.append(dict(corners=(e0, e1, e2, e3), der=der, f=f, efall=efall))
        return SArr(efall.shape, lambda idx: SNum(f(lift(efall.get(idx)).t), "real"), "real")

    def facts(self, k, E):
        """instances at Fermi level E of the callee's postcondition consequences (der = 0)"""
        c = self.calls[k]
        v = SNum(c["f"](lift(E).t), "real")
        cs = c["corners"]
        mx = runtime.m_max(*cs)
        mn = runtime.m_min(*cs)
        return [land(v >= 0, v <= 1), implies(E >= mx + 3 * DIFF_MIN, v == 1), implies(E < mn, v == 0)]

    def mono(self, k, Ea, Eb):
        c = self.calls[k]
        return implies(Ea <= Eb, SNum(c["f"](lift(Ea).t), "real") <= SNum(c["f"](lift(Eb).t), "real"))


class _Obj:
    pass


def _same_term(a, b):
    import z3
    return z3.eq(z3.simplify(lift(a).t), z3.simplify(lift(b).t))


@unit("C14", "TetraWeightsParal.weight_1k1b_priv", expect_min=6)
def _paral(U):
    from pyvc.core import fresh_int
    stub = _WTStub()
    f = U.fn(F, "TetraWeightsParal.weight_1k1b_priv", globs=dict(np=NP, weights_tetra=stub))

    def body():
        del stub.calls[:]
        n = sint("nEF")
        ctx().assume(n >= 0)
        ef = sym_array("eFermi", (n,), "real")
        me = _Obj()
        me.eCorners = sym_array("eCorners", (1, 2, 2, 2, 1), "real")
        me.eCenter = sym_array("eCenter", (1, 1), "real")
        res = f(me, ef, 0, 0, 0)
        centre = me.eCenter.get((0, 0))
        C = lambda x, y, z: me.eCorners.get((0, x, y, z, 0))
        # the decomposition demanded by the property: 6 faces, each split along the diagonal (0,0)-(1,1), apex = centre
        expected = []
        for side in (0, 1):
            for axis in (0, 1, 2):
                def corner(u, v, axis=axis, side=side):
                    idx = [u, v]
                    idx.insert(axis, side)
                    return C(*idx)
                expected.append((centre, corner(0, 0), corner(0, 1), corner(1, 1)))
                expected.append((centre, corner(0, 0), corner(1, 0), corner(1, 1)))
        U.ensure("12 calls", len(stub.calls) == 12)
        key = lambda q: tuple(sorted(str(lift(x).t) for x in q))
        U.ensure("the 12 corner quadruples are {centre + one triangle of each face split along its (0,0)-(1,1) diagonal}",
                 sorted(key(c["corners"]) for c in stub.calls) == sorted(key(q) for q in expected))
        U.ensure("every call passes the same Fermi levels and der", all(c["efall"] is ef and c["der"] == 0 for c in stub.calls))
        i, j = fresh_int("i"), fresh_int("j")
        ctx().assume(land(i >= 0, i < n, j >= 0, j < n))
        Ei, Ej = ef.get((i,)), ef.get((j,))
        with U.spec():
            for k in range(len(stub.calls)):
                for fct in stub.facts(k, Ei) + stub.facts(k, Ej) + [stub.mono(k, Ei, Ej)]:
                    ctx().assume(fct)
            allE = [centre] + [C(x, y, z) for x in (0, 1) for y in (0, 1) for z in (0, 1)]
            s12 = 0
            for c in stub.calls:
                s12 = s12 + SNum(c["f"](lift(Ei).t), "real")
        U.ensure("occ == (1/12) * sum of the 12 tetrahedron weights", lambda: res.get((i,)) == s12 / 12)
        U.ensure("0 <= occ <= 1", lambda: land(res.get((i,)) >= 0, res.get((i,)) <= 1))
        U.ensure("monotone: E_i <= E_j => occ_i <= occ_j", lambda: implies(Ei <= Ej, res.get((i,)) <= res.get((j,))))
        U.ensure("occ == 1 above all nine energies (+3e-12)",
                 lambda: implies(land(*[Ei >= x + 3 * DIFF_MIN for x in allE]), res.get((i,)) == 1))
        U.ensure("occ == 0 below all nine energies", lambda: implies(land(*[Ei < x for x in allE]), res.get((i,)) == 0))
        return res
    U.run(body)
    U.assumption("callee weights_tetra is used through its contract (proved in the weights_tetra units and spec lemmas)")


@unit("C14", "TetraWeights.weight_1k1b_priv", expect_min=2)
def _tetra_priv(U):
    stub = _WTStub()
    f = U.fn(F, "TetraWeights.weight_1k1b_priv", globs=dict(np=NP, weights_tetra=stub))

    def body():
        del stub.calls[:]
        n, nk, nb = sint("nEF"), sint("nk"), sint("nb")
        ik, ib = sint("ik"), sint("ib")
        ctx().assume(land(n >= 0, ik >= 0, ik < nk, ib >= 0, ib < nb))
        ef = sym_array("eFermi", (n,), "real")
        me = _Obj()
        me.eCorners = sym_array("eCorners", (nk, 4, nb), "real")
        for der in (0,):
            res = f(me, ef, ik, ib, der)
        U.ensure("one call", len(stub.calls) == 1)
        c = stub.calls[0]
        U.ensure("corners are eCorners[ik, 0..3, ib]", all(_same_term(c["corners"][v], me.eCorners.get((ik, v, ib))) for v in range(4)))
        U.ensure("Fermi levels and der passed through", c["efall"] is ef and c["der"] == 0)
        return res
    U.run(body)


@unit("C14", "TetraWeights.weight_1k1b", expect_min=3)
def _w1k1b(U):
    def mk(null):
        calls = []

        def priv(eF, ik, ib, der):
            calls.append((eF, ik, ib, der))
            return sreal("w_priv")
        f = U.fn(F, "TetraWeights.weight_1k1b", globs=dict(np=NP))

        def body():
            del calls[:]
            me = _Obj()
            me.null = null
            me.eFermis = ["EF0", "EF1"]
            me.weight_1k1b_priv = priv
            me.weight_1k1b = lambda ief, ik, ib, der: f(me, ief, ik, ib, der)
            r0 = f(me, 1, 3, 5, 0)
            r1 = f(me, 1, 3, 5, -1)
            if null:
                U.ensure("null K-point: weight 0", r0 == 0)
            else:
                U.ensure("der=0: the private weight at eFermis[ief]", lambda: land(r0 == sreal("w_priv"), calls[0] == ("EF1", 3, 5, 0)))
                U.ensure("der=-1: complement 1 - w(der=0)", lambda: r1 == 1 - sreal("w_priv"))
        U.run(body)
    mk(False)
    mk(True)


# ------------------------------------------------------------------ weights_all_band_groups: sea / anti-sea completion (CumDOS corollary)
def _wabg_unit(nb, der, prop="C14"):
    @unit(prop, "TetraWeights.weights_all_band_groups[nb=%d,der=%d]" % (nb, der), scope="shape:nb=%d bands, 1 k-point, 2 Fermi levels" % nb, expect_min=3)
    def _w(U):
        from collections import defaultdict
        import z3
        gbord = U.fn(F, "get_borders", globs=dict(np=NP))
        gbir = U.fn(F, "get_bands_in_range", globs=dict(np=NP, get_borders=gbord))
        gbelow = U.fn(F, "get_bands_below_range", globs=dict(np=NP))
        gabove = U.fn(F, "get_bands_above_range", globs=dict(np=NP))
        idx = U.fn(F, "TetraWeights.index_eFermi", globs=dict(np=NP))
        w1b = U.fn(F, "TetraWeights.__weight_1b", globs=dict(np=NP))
        w1k = U.fn(F, "TetraWeights.weight_1k1b", globs=dict(np=NP))
        ONES = lambda n: SArr((n,), lambda i: 1.0, "real")
        f = U.fn(F, "TetraWeights.weights_all_band_groups", globs=dict(np=NP, defaultdict=defaultdict, get_bands_in_range=gbir,
                                                                     get_bands_below_range=gbelow, get_bands_above_range=gabove,
                                                                     weight_select_bands=lambda a, b, s=None: 1.0, ones=ONES))

        def body():
            me = _Obj()
            me.nk, me.nb, me.null = 1, nb, False
            me.eFermis, me.weights = [], []
            Ec = sym_array("eCenter", (1, nb), "real")
            Emin = sym_array("Emin", (1, nb), "real")
            Emax = sym_array("Emax", (1, nb), "real")
            me.eCenter, me.Emin, me.Emax = Ec, Emin, Emax
            for b in range(nb):
                ctx().assume(land(Emin.get((0, b)) <= Ec.get((0, b)), Ec.get((0, b)) <= Emax.get((0, b))))
                if b:
                    ctx().assume(land(Emin.get((0, b - 1)) <= Emin.get((0, b)), Emax.get((0, b - 1)) <= Emax.get((0, b)), Ec.get((0, b - 1)) <= Ec.get((0, b))))
            eF = sym_array("eF", (2,), "real")
            ctx().assume(eF.get((0,)) <= eF.get((1,)))
            thr = sreal("thr")
            ctx().assume(thr >= 0)
            VV = [z3.Function("VVb%d" % b, z3.RealSort(), z3.RealSort()) for b in range(nb)]

            def priv(eFermi, ik, ib, der):
                # contract of weight_1k1b_priv (proved above): per Fermi level the tetrahedron weight of band ib, in [0,1],
                # 1 above all the band's corner/centre energies (+3e-12), 0 below all of them
                out = SArr(eFermi.shape, lambda i_: SNum(VV[ib](lift(eFermi.get(i_)).t), "real"), "real")
                for j in range(2):
                    v, E = out.get((j,)), eFermi.get((j,))
                    ctx().assume(land(v >= 0, v <= 1, implies(E >= Emax.get((0, ib)) + 3 * DIFF_MIN, v == 1), implies(E < Emin.get((0, ib)), v == 0)))
                return out
            me.weight_1k1b_priv = priv
            me.weight_1k1b = lambda ief, ik, ib, der: w1k(me, ief, ik, ib, der)
            setattr(me, "_TetraWeights__weight_1b", lambda ief, ik, ib, der: w1b(me, ief, ik, ib, der))
            me.index_eFermi = lambda e_: idx(me, e_)
            res = f(me, eF, der, degen_thresh=thr)
            blocks = list(res[0].keys())
            U.ensure("band blocks are pairwise disjoint index ranges", all(a[1] <= b[0] or b[1] <= a[0] for a in blocks for b in blocks if a != b)
                     and all(0 <= a[0] < a[1] <= nb for a in blocks))
            for j in range(2):
                E = eF.get((j,))
                tot = 0
                for (a, b), w in res[0].items():
                    tot = tot + lift(w.get((j,))) * (b - a)
                if der == 0:
                    U.ensure("CumDOS: all %d bands are counted at a Fermi level above every corner/centre energy (level %d)" % (nb, j),
                             lambda E=E, tot=tot: implies(land(*[E >= Emax.get((0, b)) + 3 * DIFF_MIN for b in range(nb)]), tot == nb))
                    U.ensure("CumDOS: nothing is counted at a Fermi level below every energy (level %d)" % j,
                             lambda E=E, tot=tot: implies(land(*[E < Emin.get((0, b)) for b in range(nb)]), tot == 0))
                    U.ensure("CumDOS between 0 and the number of bands (level %d)" % j, lambda tot=tot: land(tot >= 0, tot <= nb))
                else:
                    U.ensure("anti-sea: all bands are counted as empty at a Fermi level below every energy (level %d)" % j,
                             lambda E=E, tot=tot: implies(land(*[E < Emin.get((0, b)) for b in range(nb)]), tot == nb))
                    U.ensure("anti-sea: nothing counted above every energy (level %d)" % j,
                             lambda E=E, tot=tot: implies(land(*[E >= Emax.get((0, b)) + 3 * DIFF_MIN for b in range(nb)]), tot == 0))
            return res
        U.run(body)
        U.assumption("band energies at the centre and at every corner are sorted ascending in the band index (output of eigvalsh), hence so are their per-band minima/maxima")
        U.assumption("TetraWeights.__init__ computes Emin/Emax as the per-band minimum/maximum over the centre and corner energies (exercised by the bounded stand-in)")


for _nb in (1, 2, 3):
    _wabg_unit(_nb, 0)
_wabg_unit(2, -1)


def _real_tetraweights(rng, n):
    """bounded stand-in: real TetraWeights / TetraWeightsParal objects; CumDOS end values; independence from the call history"""
    import numpy as np
    from wannierberri.grid.tetrahedron import TetraWeights, TetraWeightsParal
    fails, cases = [], 0
    for t in range(6 if n <= 30 else 40):
        rs = np.random.RandomState(rng.randint(0, 10 ** 6))
        nk, nb = 2, rs.randint(1, 5)
        par = t % 2 == 0
        shape = (nk, 2, 2, 2, nb) if par else (nk, 4, nb)
        base = np.sort(rs.rand(nb) * 4)
        if t % 3 == 0 and nb > 1:
            base[1] = base[0]                    # degenerate bands
        corners = np.sort(base[None, None, :] + 0.3 * (rs.rand(nk, int(np.prod(shape[1:-1])), nb) - 0.5) * (0 if t % 5 == 4 else 1), axis=-1).reshape(shape)
        centre = np.sort(base[None, :] + 0.1 * (rs.rand(nk, nb) - 0.5) * (0 if t % 5 == 4 else 1), axis=-1)
        cls = TetraWeightsParal if par else TetraWeights

        def total(obj, ef, der=0):
            out = np.zeros((nk, len(ef)))
            for ik, w in enumerate(obj.weights_all_band_groups(ef, der=der, degen_thresh=1e-4)):
                for (a, b), v in w.items():
                    out[ik] += np.asarray(v) * (b - a)
            return out
        lo, hi = min(corners.min(), centre.min()), max(corners.max(), centre.max())
        ef1 = np.array([lo - 1.0, lo, (lo + hi) / 2, hi, hi + 1.0])
        ef1b = np.linspace(float(base[0]), float(base[-1]) + 0.5, 4)          # first level exactly at a band's energy (flat band when t%5==4)
        obj = cls(eCenter=centre, eCorners=corners)
        bad = []
        c1 = total(obj, ef1)
        if not (np.allclose(c1[:, 0], 0) and np.allclose(c1[:, -1], nb) and (np.diff(c1, axis=1) >= -1e-9).all()):
            bad.append("CumDOS not 0 -> nb, non-decreasing: %s" % c1.tolist())
        cb = total(obj, ef1b)
        if not ((np.diff(cb, axis=1) >= -1e-9).all() and np.allclose(cb[:, -1], nb) and (cb >= -1e-12).all()):
            bad.append("CumDOS with the first level on a band energy: %s" % cb.tolist())
        ef2 = ef1 * (1 + 1e-6) + 1e-9          # a different Fermi array that is `allclose` to the first one
        c2_hist = total(obj, ef2)                                              # same object, after ef1
        c2_fresh = total(cls(eCenter=centre, eCorners=corners), ef2)
        if not np.allclose(c2_hist, c2_fresh, atol=1e-12):
            bad.append("weights depend on earlier calls with a nearby Fermi array (max diff %.2e)" % abs(c2_hist - c2_fresh).max())
        ef3 = np.concatenate([[ef1[0] - 1], ef1])
        c3 = total(obj, ef3)
        if not np.allclose(c3[:, 1:], c1, atol=1e-12):
            bad.append("CumDOS changes when a lower Fermi level is prepended")
        cases += 1
        if bad:
            fails.append(dict(input=dict(nb=int(nb), parallelepiped=par, case=t), clause="tetrahedron CumDOS end values / history independence", failed=bad[:3]))
    return dict(cases=cases, failures=fails, distinct=cases)


Unit("C14", "TetraWeights CumDOS + history independence [real objects]", concrete=_real_tetraweights,
     bounded_desc="real TetraWeights/TetraWeightsParal, 2 k-points, 1-4 bands (degenerate and flat bands included), Fermi arrays below/inside/above the spectrum, repeated calls with shifted and extended Fermi arrays")
