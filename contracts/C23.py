"""C23  Monkhorst-Pack mesh detection recovers the mesh.

Under contract (real text, executed exhaustively over the FINITE domain the property quantifies over):
  w90files/utility.py::get_mp_grid          every mesh size N = 1..100 in each direction (the supported denominator), the other two
                                            directions taken from {1,2,3}, points listed ascending / descending / shuffled, with and
                                            without an integer shift of the coordinates: returns (N1,N2,N3)
  w90files/utility.py::grid_from_kpoints    (a) grid=None: the same detection through lcm of denominators, N = 1..100;
                                            (b) grid given: for every mesh with N_i <= 3 (and a 4x1x2, 5x2x1), every single missing
                                            point, every single duplicated point, every (missing, duplicated) pair and extra off-grid
                                            points, in shuffled order: returns each mesh point exactly once / raises ValueError iff a
                                            mesh point is missing
The detection in one direction reads only that column (checked on the text: the loop body indexes kpoints[:, i] only), so
directions are independent and the one-direction-at-a-time enumeration covers all sizes up to the supported denominator.
"""
import itertools
import random
import warnings
from fractions import Fraction

import numpy as rnp
from pyvc.core import ctx
from pyvc.unit import unit, Unit

F = "wannierberri/w90files/utility.py"


def _mesh(N):
    return rnp.array([[i / N[0], j / N[1], k / N[2]] for i in range(N[0]) for j in range(N[1]) for k in range(N[2])], dtype=float)


def _orders(pts, seed):
    rs = random.Random(seed)
    idx = list(range(len(pts)))
    rs.shuffle(idx)
    return [pts, pts[::-1], pts[idx]]


def _detect_unit(fn_name, lo, hi):
    @unit("C23", "%s[N=%d..%d]" % (fn_name, lo, hi), scope="shape:mesh sizes %d..%d per direction, exhaustive" % (lo, hi), expect_min=3)
    def _u(U):
        g = dict(np=rnp, Fraction=Fraction, warnings=warnings)
        is_round = U.fn(F, "is_round", globs=dict(np=rnp), model=False)
        g["is_round"] = is_round
        f = U.fn(F, fn_name, globs=g, model=False)

        def body():
            for axis in range(3):
                bad = []
                for N in range(lo, hi + 1):
                    for other in ((1, 1), (2, 3)) if N <= 40 else ((1, 1),):
                        size = [other[0], other[1]]
                        size.insert(axis, N)
                        pts = _mesh(size)
                        for variant, p in enumerate(_orders(pts, N)):
                            if variant == 2:
                                p = p + rnp.array([1.0, 0.0, -1.0])[None, :] * (N % 2)      # coordinates outside [0,1) by a lattice vector
                                p = p % 1 if fn_name == "grid_from_kpoints" else p
                            with warnings.catch_warnings():
                                warnings.simplefilter("ignore")
                                got = f(p)
                            if tuple(int(x) for x in got) != tuple(size):
                                bad.append((tuple(size), variant, tuple(int(x) for x in got)))
                U.ensure("direction %d: every mesh size %d..%d is recovered for every listing order" % (axis, lo, hi), not bad)
                if bad:
                    ctx().ghost["bad"] = bad[:3]
        U.run(body, check_feasible=False)
        U.external("Fraction(x).limit_denominator(100): the closest fraction with denominator <= 100, in lowest terms")
    return _u


for _lo, _hi in ((1, 25), (26, 50), (51, 75), (76, 100)):
    _detect_unit("get_mp_grid", _lo, _hi)
    _detect_unit("grid_from_kpoints", _lo, _hi)


@unit("C23", "get_mp_grid reads direction i only from column i", expect_min=1, scope="shape:syntactic")
def _indep(U):
    import ast
    from pyvc.extract import read_source, find_def
    src, _ = read_source(F)
    node, _c = find_def(ast.parse(src), "get_mp_grid")
    loops = [n for n in ast.walk(node) if isinstance(n, ast.For)]

    def body():
        ok = False
        for lp in loops:
            subs = [ast.unparse(s) for s in ast.walk(lp) if isinstance(s, ast.Subscript) and "kpoints" in ast.unparse(s.value)]
            if subs and isinstance(lp.target, ast.Name):
                i = lp.target.id
                ok = all(s == "kpoints[:, %s]" % i for s in subs)
        U.ensure("inside the per-direction loop kpoints is only read as kpoints[:, i]", ok)
    U.run(body, check_feasible=False)


def _select_unit(grid):
    @unit("C23", "grid_from_kpoints[grid=%s]" % (grid,), scope="shape:grid %s; all single missing/duplicated points and all pairs" % (grid,), expect_min=4)
    def _u(U):
        g = dict(np=rnp, Fraction=Fraction, warnings=warnings)
        g["is_round"] = U.fn(F, "is_round", globs=dict(np=rnp), model=False)
        f = U.fn(F, "grid_from_kpoints", globs=g, model=False)
        full = _mesh(grid)
        n = len(full)
        npg = rnp.array(grid)

        def run(pts):
            with warnings.catch_warnings():
                warnings.simplefilter("ignore")
                try:
                    return ("ok", f(pts, grid=grid))
                except ValueError as e:
                    return ("ValueError", str(e))

        def good_selection(pts, sel):
            kints = [tuple(rnp.round(pts[i] * npg).astype(int) % npg) for i in sel]
            on = all(rnp.allclose(pts[i] * npg, rnp.round(pts[i] * npg), atol=1e-5) for i in sel)
            return on and len(set(kints)) == n and len(sel) == n

        def body():
            rs = random.Random(7)
            bad = []
            # complete meshes in several orders, with extra off-grid points interleaved
            for variant in range(8):
                idx = list(range(n))
                rs.shuffle(idx)
                pts = full[idx]
                if variant >= 2:
                    # off-grid points on either side of the mesh points: above, below, above in one direction and below in another, barely off (1e-6)
                    off = [0.5 / (npg * 3.0), 0.5 / (npg * 3.0), -0.5 / (npg * 3.0), -0.5 / (npg * 3.0), rnp.array([1.0, -1.0, 0.0]) * 0.5 / (npg * 3.0), rnp.array([0.0, 0.0, -1e-6])][variant - 2]
                    extra = full[: max(1, n // 2)] + off
                    pts = rnp.vstack([pts[: n // 2], extra, pts[n // 2:]])
                st, sel = run(pts)
                if st != "ok" or not good_selection(pts, sel):
                    bad.append(("complete", variant, st))
            U.ensure("complete mesh (any order, with off-grid extras): every mesh point selected exactly once", not bad)
            bad = []
            for m in range(n):
                pts = rnp.delete(full, m, axis=0)
                st, sel = run(pts)
                if st != "ValueError":
                    bad.append(("missing", m, st))
            U.ensure("a mesh with any one point removed is rejected (ValueError)", not bad)
            bad = []
            for d in range(n):
                pts = rnp.vstack([full, full[d:d + 1]])
                idx = list(range(len(pts)))
                rs.shuffle(idx)
                pts = pts[idx]
                st, sel = run(pts)
                if st != "ok" or not good_selection(pts, sel):
                    bad.append(("duplicate", d, st))
            U.ensure("a mesh with any one point duplicated: each mesh point still selected exactly once", not bad)
            bad = []
            for m in range(n):
                for d in range(n):
                    if d == m:
                        continue
                    pts = rnp.vstack([rnp.delete(full, m, axis=0), full[d:d + 1]])
                    st, sel = run(pts)
                    if st != "ValueError":
                        bad.append(("missing+duplicate", m, d, st))
            U.ensure("one point missing and another duplicated (right count, wrong set) is rejected", not bad)
        U.run(body, check_feasible=False)
    return _u


for _g in ((1, 1, 1), (2, 1, 1), (2, 2, 1), (1, 3, 2), (3, 3, 2), (2, 2, 2), (4, 1, 2), (5, 2, 1), (3, 3, 3)):
    _select_unit(_g)
