"""C25  Spin doubling and spin-orbit assembly preserve the spectrum.

Under contract (real text on the real numpy with symbolic scalars):
  w90files/soc.py::SOC.get_C_ss, get_pauli_rotated   for ALL angles theta, phi (cos(theta/2)=c, sin(theta/2)=s, c^2+s^2=1;
        exp(-i phi/2)=u+iv, u^2+v^2=1): the three rotated matrices are Hermitian, obey sigma_a sigma_b = delta_ab + i eps_abc sigma_c,
        and the component along n = (sin th cos ph, sin th sin ph, cos th) is diag(+1,-1).  Unbounded (no shape involved).
  system/system_R.py::System_R.double_spin + fourier/rvectors.py::Rvectors.double_spin   symbolic matrices (2 orbitals, 2 R-vectors,
        a scalar and a vector matrix): X'[R,2a+s,2b+t] = delta_st X[R,a,b], centres and shifts doubled the same way -> H'(k) = H(k) (x) 1_2.
  data_K/data_K_soc.py::Data_K_soc.HH_K   up block at [::2,::2] from the up system, down block at [1::2,1::2] from the down system, SOC
        term added iff has_soc: without SOC the matrix is block diagonal (union of the two spectra).
  system/system_soc.py::SystemSOC.set_soc_axis   block structure of Ham_SOC and SS in terms of the rotated Pauli entries (nspin 1 and 2),
        linear scaling with alpha_soc, the (1,0) blocks built from the conjugate-transposed (R -> -R) matrices.
  system/system_soc.py::SystemSOC.get_system_R + fourier/rvectors.py::merge_Rvectors   every R-vector of the three R-sets lands on its
        own slot of the merged list (maps injective, merged[map[i]] = R_i) and the merged Hamiltonian is SOC + up (x) up-slots + down.
Bounded stand-in: real systems -- doubled bands twice, SOC system without coupling = union of spectra, plain system = SOC system at random k.
"""
import contextlib
import io
import itertools
import types

import numpy as rnp
import z3
from pyvc.core import ctx, sreal, land, lift, SNum, SCplx, conc
from pyvc.unit import unit, Unit
from pyvc.npshim import Shim, sym_cplx_array, sym_real_array

FSOC = "wannierberri/w90files/soc.py"
FSR = "wannierberri/system/system_R.py"
FRV = "wannierberri/fourier/rvectors.py"
FDS = "wannierberri/data_K/data_K_soc.py"
FSS = "wannierberri/system/system_soc.py"


class _Obj:
    pass


def _valid(c, hyps=()):
    s = z3.Solver()
    s.set("timeout", 20000)
    for h in hyps:
        s.add(h.t)
    s.add(z3.Not(c.t))
    return s.check() == z3.unsat


def _ceq(x, y):
    x, y = SCplx.of(x), SCplx.of(y)
    return land(x.re == y.re, x.im == y.im)


def _arr(x, dtype=None, **kw):
    a = rnp.empty(rnp.shape(x), dtype=object)
    lst = rnp.array(x, dtype=object)
    return lst


def _replay_pauli(mv, ob):
    from wannierberri.w90files.soc import SOC
    bad = []
    for th, ph in ((0.3, 0.4), (1.9, -2.2), (rnp.pi, 0.0), (rnp.pi + 0.7, 1.0), (-0.8, 3.0), (5.0, 6.0), (2 * rnp.pi - 0.2, -0.3)):
        P = SOC.get_pauli_rotated(th, ph)
        n = rnp.array([rnp.sin(th) * rnp.cos(ph), rnp.sin(th) * rnp.sin(ph), rnp.cos(th)])
        if not rnp.allclose(rnp.einsum("ijc,c->ij", P, n), rnp.diag([1, -1]), atol=1e-12):
            bad.append(dict(theta=th, phi=ph, clause="n.sigma' == diag(1,-1)"))
        sx, sy, sz = P[:, :, 0], P[:, :, 1], P[:, :, 2]
        if not (rnp.allclose(sx @ sy - sy @ sx, 2j * sz) and rnp.allclose(sx @ sx, rnp.eye(2)) and rnp.allclose(sx, sx.conj().T)):
            bad.append(dict(theta=th, phi=ph, clause="Pauli algebra"))
    return dict(reproduced=bool(bad), input="angles inside and outside [0, pi) x [0, 2 pi)", failed=bad[:3])


@unit("C25", "SOC.get_pauli_rotated (all angles)", expect_min=4, timeout_ms=60000, replay=_replay_pauli, replay_once=True, replay_free=True)
def _pauli(U):
    # cos / sin of a symbolic argument: one pair of real symbols PER DISTINCT ARGUMENT TERM, tied by c^2+s^2=1 (so the code must take
    # them of theta/2 and -phi/2 themselves: any other argument yields unrelated symbols and the identities below fail)
    theta, phi = sreal("theta"), sreal("phi")
    table = {}

    def pair(x):
        x = lift(x)
        key = z3.simplify(x.t).sexpr()
        if key not in table:
            k = len(table)
            table[key] = (sreal("cos_arg%d" % k), sreal("sin_arg%d" % k))
        return table[key]

    def cos(x):
        return pair(x)[0]

    def sin(x):
        return pair(x)[1]

    def exp(x):
        x = SCplx.of(x)            # exp(i y) = cos y + i sin y for the purely imaginary argument i*y
        cy, sy = pair(x.im)
        return SCplx(cy, sy)
    c, s = pair(theta / 2)
    u, v = pair(-1.0 * phi / 2)
    hyps = [c * c + s * s == 1, u * u + v * v == 1]

    def array(x, dtype=None):
        return rnp.array(x, dtype=object)
    shim = Shim(overrides=dict(cos=cos, sin=sin, exp=exp, array=array))
    pauli_xyz = rnp.array([[[0, 1], [1, 0]], [[0, -1j], [1j, 0]], [[1, 0], [0, -1]]]).transpose((1, 2, 0))
    css = U.fn(FSOC, "SOC.get_C_ss", globs=dict(np=shim), model=False)
    cls = types.SimpleNamespace(get_C_ss=lambda theta=0, phi=0: css(None, theta, phi))
    f = U.fn(FSOC, "SOC.get_pauli_rotated", globs=dict(np=shim, pauli_xyz=pauli_xyz, cached_einsum=lambda sub, *ops: rnp.einsum(sub, *ops)), model=False)

    def body():
        for h in hyps:
            ctx().assume(h)
        P = f(cls, theta=theta, phi=phi)
        sig = [P[:, :, k] for k in range(3)]
        U.ensure("shape (2,2,3)", tuple(P.shape) == (2, 2, 3))
        for a in range(3):
            U.ensure("sigma'_%d is Hermitian" % a, lambda a=a: land(*[_ceq(sig[a][i, j], SCplx.of(sig[a][j, i]).conj()) for i in range(2) for j in range(2)]))
        eps = {(0, 1, 2): 1, (1, 2, 0): 1, (2, 0, 1): 1, (0, 2, 1): -1, (2, 1, 0): -1, (1, 0, 2): -1}
        for a in range(3):
            for b in range(3):
                def clause(a=a, b=b):
                    out = []
                    for i in range(2):
                        for j in range(2):
                            prod = SCplx(0, 0)
                            for l in range(2):
                                prod = prod + SCplx.of(sig[a][i, l]) * SCplx.of(sig[b][l, j])
                            want = SCplx(1 if (a == b and i == j) else 0, 0)
                            for cidx in range(3):
                                e = eps.get((a, b, cidx), 0)
                                if e:
                                    want = want + SCplx(0, e) * SCplx.of(sig[cidx][i, j])
                            out.append(_ceq(prod, want))
                    return land(*out)
                U.ensure("sigma'_%d sigma'_%d = delta + i eps sigma'" % (a, b), clause)
        n = [2 * s * c * (u * u - v * v), -4 * s * c * u * v, c * c - s * s]

        def along():
            out = []
            for i in range(2):
                for j in range(2):
                    tot = SCplx(0, 0)
                    for k in range(3):
                        tot = tot + SCplx.of(sig[k][i, j]) * n[k]
                    out.append(_ceq(tot, SCplx((1 if i == 0 else -1) if i == j else 0, 0)))
            return land(*out)
        U.ensure("n . sigma' = diag(+1,-1) for n = (sin th cos ph, sin th sin ph, cos th)", along)
    U.run(body, check_feasible=False)
    U.external("cos^2+sin^2=1 for theta/2 and phi/2; exp(-i x) = cos x - i sin x; double-angle formulas for the axis")


@unit("C25", "System_R.double_spin + Rvectors.double_spin", scope="shape:2 orbitals, 2 R-vectors, scalar and vector matrices", expect_min=4)
def _double(U):
    shim = Shim()
    f = U.fn(FSR, "System_R.double_spin", globs=dict(np=shim), model=False)
    g = U.fn(FRV, "Rvectors.double_spin", globs=dict(np=shim), model=False)

    def body():
        me = _Obj()
        me.spinor, me.num_wann = False, 2
        H = sym_cplx_array("H", (2, 2, 2))
        A = sym_cplx_array("A", (2, 2, 2, 3))
        me._XX_R = {"Ham": H, "AA": A}
        me.get_R_mat = lambda k: me._XX_R[k]

        def set_R_mat(k, v, reset=False):
            me._XX_R[k] = v
        me.set_R_mat = set_R_mat
        wcc = sym_real_array("wcc", (2, 3))
        me.wannier_centers_cart = wcc.copy()
        rv = _Obj()
        rv.nshifts_left = rv.nshifts_right = 2
        sl, sr = sym_real_array("sl", (2, 3)), sym_real_array("sr", (2, 3))
        rv.shifts_left_red, rv.shifts_right_red = sl.copy(), sr.copy()
        rv.cleared = 0
        rv.clear_cached = lambda: setattr(rv, "cleared", rv.cleared + 1)
        rv.double_spin = lambda: g(rv)
        me.rvec = rv
        me.cleared = []
        me.clear_cached_wcc = lambda: me.cleared.append("wcc")
        me.clear_cached_R = lambda: me.cleared.append("R")
        pairs = []
        me.set_spin_pairs = lambda p: pairs.extend(p)
        f(me)
        U.ensure("number of Wannier functions doubled, system marked spinor", me.num_wann == 4 and me.spinor is True)
        for key, old in (("Ham", H), ("AA", A)):
            new = me._XX_R[key]
            ok = tuple(new.shape) == (2, 4, 4) + tuple(old.shape[3:])
            if ok:
                for idx in rnp.ndindex(*new.shape):
                    R, m, n = idx[0], idx[1], idx[2]
                    want = old[(R, m // 2, n // 2) + idx[3:]] if m % 2 == n % 2 else 0
                    ok = ok and _valid(_ceq(new[idx], want))
            U.ensure("%s'[R,2a+s,2b+t] = delta_st %s[R,a,b]" % (key, key), ok)
        U.ensure("centres doubled pairwise", all(_valid(lift(me.wannier_centers_cart[i, j]) == wcc[i // 2, j]) for i in range(4) for j in range(3)))
        U.ensure("shifts doubled pairwise (left and right)", all(_valid(lift(rv.shifts_left_red[i, j]) == sl[i // 2, j]) and _valid(lift(rv.shifts_right_red[i, j]) == sr[i // 2, j])
                                                             for i in range(4) for j in range(3)))
        U.ensure("caches cleared; spin pairs (2i, 2i+1)", rv.cleared >= 1 and set(me.cleared) == {"wcc", "R"} and pairs == [(0, 1), (2, 3)])
    U.run(body, check_feasible=False)


def _hhk_unit(has_soc):
    @unit("C25", "Data_K_soc.HH_K[%s]" % ("soc" if has_soc else "nosoc"), scope="shape:2+2 bands, 2 k-points", expect_min=1)
    def _h(U):
        f = U.fn(FDS, "Data_K_soc.HH_K", globs=dict(np=Shim()), model=False)

        def body():
            me = _Obj()
            me.nk, me.num_wann, me.has_soc = 2, 4, has_soc
            up, dn = _Obj(), _Obj()
            up.HH_K, dn.HH_K = sym_cplx_array("Hup", (2, 2, 2)), sym_cplx_array("Hdn", (2, 2, 2))
            me.data_K_up, me.data_K_down = up, dn
            soc_k = sym_cplx_array("Hsoc", (2, 4, 4))
            me.rvec = _Obj()
            calls = []
            me.rvec.R_to_k = lambda X, hermitian=False: (calls.append((X, hermitian)), soc_k)[1]
            me.get_R_mat = lambda key: "SOC_R" if key == "soc" else None
            H = f(me)
            ok = tuple(H.shape) == (2, 4, 4)
            if ok:
                for k, a, b in rnp.ndindex(2, 4, 4):
                    want = SCplx(0, 0)
                    if a % 2 == 0 and b % 2 == 0:
                        want = want + up.HH_K[k, a // 2, b // 2]
                    if a % 2 == 1 and b % 2 == 1:
                        want = want + dn.HH_K[k, a // 2, b // 2]
                    if has_soc:
                        want = want + soc_k[k, a, b]
                    ok = ok and _valid(_ceq(H[k, a, b], want))
            U.ensure("H = up at [::2,::2] + down at [1::2,1::2]%s; zero elsewhere" % (" + Fourier transform of the SOC matrices" if has_soc else ""), ok)
            U.ensure("SOC term transformed once, as a Hermitian matrix, iff has_soc", calls == ([("SOC_R", True)] if has_soc else []))
        U.run(body, check_feasible=False)


_hhk_unit(True)
_hhk_unit(False)


def _socaxis_unit(nspin):
    @unit("C25", "SystemSOC.set_soc_axis[nspin=%d]" % nspin, scope="shape:2 scalar orbitals, 2 R-vectors", expect_min=2)
    def _s(U):
        P = sym_cplx_array("P", (2, 2, 3))
        socmod = types.SimpleNamespace(get_pauli_rotated=lambda theta=0, phi=0: P)
        f = U.fn(FSS, "SystemSOC.set_soc_axis", globs=dict(np=Shim(), SOC=socmod, cached_einsum=lambda sub, *ops: rnp.einsum(sub, *ops), print=lambda *a, **k: None), model=False)

        def body():
            me = _Obj()
            nws = 2
            me.has_soc, me.nspin, me.num_wann, me.num_wann_scalar, me.cell = True, nspin, 2 * nws, nws, None
            me.rvec = _Obj()
            me.rvec.nRvec, me.rvec.iR0 = 2, 1
            conj_tag = {}

            def conj_XX_R(X):
                out = sym_cplx_array("conj_" + conj_tag.setdefault(id(X), "X%d" % len(conj_tag)), X.shape)
                conj_tag[id(out)] = ("conj", X)
                me.conj_of = getattr(me, "conj_of", {})
                me.conj_of[id(X)] = out
                return out
            me.rvec.conj_XX_R = conj_XX_R
            mats = {"dV_soc_wann_0_0": sym_cplx_array("dV00", (2, nws, nws, 3)), "dV_soc_wann_1_1": sym_cplx_array("dV11", (2, nws, nws, 3)),
                    "dV_soc_wann_0_1": sym_cplx_array("dV01", (2, nws, nws, 3)), "overlap_up_down": sym_cplx_array("ovl", (2, nws, nws))}
            store = {}
            me.get_R_mat = lambda k: store[k] if k in store else mats[k]
            me.set_R_mat = lambda k, v, reset=False: store.__setitem__(k, v)
            alpha = sreal("alpha_soc")
            f(me, theta=sreal("th"), phi=sreal("ph"), alpha_soc=alpha)
            Hs, SS = store["Ham_SOC"], store["SS"]

            def dot(M, R, m, n, s, t):
                tot = SCplx(0, 0)
                for cidx in range(3):
                    tot = tot + SCplx.of(M[R, m, n, cidx]) * SCplx.of(P[s, t, cidx])
                return tot
            ok = tuple(Hs.shape) == (2, 4, 4)
            if ok:
                for R, a, b in rnp.ndindex(2, 4, 4):
                    s, t, m, n = a % 2, b % 2, a // 2, b // 2
                    if nspin == 2:
                        src = {(0, 0): mats["dV_soc_wann_0_0"], (1, 1): mats["dV_soc_wann_1_1"], (0, 1): mats["dV_soc_wann_0_1"]}.get((s, t))
                        if (s, t) == (1, 0):
                            src = getattr(me, "conj_of", {}).get(id(mats["dV_soc_wann_0_1"]), mats["dV_soc_wann_1_1"] * 0)
                    else:
                        src = mats["dV_soc_wann_0_0"]
                    ok = ok and _valid(_ceq(Hs[R, a, b], dot(src, R, m, n, s, t) * alpha))
            U.ensure("Ham_SOC[R,2m+s,2n+t] = alpha * sum_c dV_st[R,m,n,c] sigma'_c[s,t]   ((1,0) block from the R->-R conjugate of dV_01)", ok)
            ok = tuple(SS.shape) == (2, 4, 4, 3)
            if ok:
                for R, a, b, cidx in rnp.ndindex(2, 4, 4, 3):
                    s, t, m, n = a % 2, b % 2, a // 2, b // 2
                    if s == t:
                        want = P[s, s, cidx] if (m == n and R == 1) else 0
                    elif nspin == 1:
                        want = P[s, t, cidx] if (m == n and R == 1) else 0
                    else:
                        ov = mats["overlap_up_down"] if (s, t) == (0, 1) else getattr(me, "conj_of", {}).get(id(mats["overlap_up_down"]), mats["overlap_up_down"] * 0)
                        want = SCplx.of(ov[R, m, n]) * SCplx.of(P[s, t, cidx])
                    ok = ok and _valid(_ceq(SS[R, a, b, cidx], want))
            U.ensure("SS: on-site rotated Pauli matrices on the diagonal spin blocks at R=0; off-diagonal spin blocks weighted by the up/down overlap", ok)
        U.run(body, check_feasible=False)


_socaxis_unit(1)
_socaxis_unit(2)


@unit("C25", "merge_Rvectors + SystemSOC.get_system_R", scope="shape:R-sets of sizes 2,3,3 with partial overlap; magnetic (two channels) and non-magnetic (one channel used twice)", expect_min=6)
def _merge(U):
    made = []

    class RV:
        def __init__(self, **kw):
            self.__dict__.update(kw)
            self.iRvec = rnp.array(kw["iRvec"])
            self.nRvec = len(self.iRvec)
            made.append(self)
    mrg = U.fn(FRV, "merge_Rvectors", globs=dict(np=rnp, Rvectors=RV), model=False)

    class SR:
        def __init__(self):
            self.mats = {}

        def set_R_mat(self, k, v, reset=False):
            self.mats[k] = v
    f = U.fn(FSS, "SystemSOC.get_system_R", globs=dict(np=Shim(), System_R=SR, print=lambda *a, **k: None), model=False)

    def body():
        lat = rnp.eye(3)
        nspin = 1 + ctx().choose(2, "nspin - 1 (1: non-magnetic, the down channel IS the up system; 2: magnetic, own R-set)")

        def rv(R):
            o = _Obj()
            o.iRvec, o.lattice, o.dim = rnp.array(R), lat, 3
            o.shifts_left_red = o.shifts_right_red = rnp.zeros((2, 3))
            return o
        Rs = [[0, 0, 0], [1, 0, 0]]
        Ru = [[0, 0, 0], [0, 1, 0], [-1, 0, 0]]
        Rd = [[0, 0, -1], [0, 0, 0], [1, 0, 0]]
        if nspin == 1:
            Rd = Ru
        r_s, r_u = rv(Rs), rv(Ru)
        r_d = r_u if nspin == 1 else rv(Rd)
        merged, maps = mrg([r_s, r_u, r_d])
        allR = {tuple(x) for x in Rs + Ru + Rd}
        U.ensure("merged list = duplicate-free union of the R-sets", len(merged.iRvec) == len(allR) and {tuple(x) for x in merged.iRvec} == allR)
        U.ensure("each map is injective and merged[map[i]] = R_i", all(len(set(m.tolist())) == len(m) and all(tuple(merged.iRvec[m[i]]) == tuple(src[i]) for i in range(len(src)))
                                                                      for m, src in zip(maps, (Rs, Ru, Rd))))
        # get_system_R with the extracted merge
        me = _Obj()
        me.rvec = r_s
        up, dn = _Obj(), _Obj()
        up.rvec, dn.rvec = r_u, r_d
        Hu, Hd, Hsoc = sym_cplx_array("Hu", (3, 1, 1)), sym_cplx_array("Hd", (3, 1, 1)), sym_cplx_array("Hs", (2, 2, 2))
        SSs = sym_cplx_array("SS", (2, 2, 2, 3))
        up._XX_R, dn._XX_R = {"Ham": Hu}, {"Ham": Hd}
        up.get_R_mat, dn.get_R_mat = (lambda k: up._XX_R[k]), (lambda k: dn._XX_R[k])
        if nspin == 1:                # as SystemSOC.__init__ sets it up: one spin channel, system_down is system_up
            dn, Hd = up, Hu
        me.system_up, me.system_down, me.nspin = up, dn, nspin
        me.get_R_mat = lambda k: {"Ham_SOC": Hsoc, "SS": SSs}[k]
        me.is_phonon, me.num_wann, me.real_lattice, me.periodic = False, 2, lat, rnp.array([True] * 3)
        me.wannier_centers_cart, me.pointgroup, me.force_internal_terms_only, me.cell = rnp.zeros((2, 3)), None, False, None
        import sys
        modname = "wannierberri.fourier.rvectors"
        import wannierberri.fourier.rvectors as realmod
        saved = realmod.merge_Rvectors
        realmod.merge_Rvectors = mrg
        f.raw.__globals__["__package__"] = "wannierberri.system"
        try:
            out = f(me)
        finally:
            realmod.merge_Rvectors = saved
        H = out.mats["Ham"]
        Rm = [tuple(x) for x in out.rvec.iRvec]
        ok = True
        for i, R in enumerate(Rm):
            for a in range(2):
                for b in range(2):
                    want = SCplx(0, 0)
                    if list(R) in Rs:
                        want = want + Hsoc[Rs.index(list(R)), a, b]
                    if a == 0 and b == 0 and list(R) in Ru:
                        want = want + Hu[Ru.index(list(R)), 0, 0]
                    if a == 1 and b == 1 and list(R) in Rd:
                        want = want + Hd[Rd.index(list(R)), 0, 0]
                    ok = ok and _valid(_ceq(H[i, a, b], want))
        U.ensure("merged Ham(R) = SOC(R) + up(R) at [::2,::2] + down(R) at [1::2,1::2] for every R of the union (different R-sets allowed)", ok)
        S2 = out.mats["SS"]
        U.ensure("SS carried to the SOC system's own R slots", all(_valid(_ceq(S2[Rm.index(tuple(Rs[i])), a, b, cidx], SSs[i, a, b, cidx])) for i in range(2) for a in range(2) for b in range(2) for cidx in range(3)))
    U.run(body, check_feasible=False)


# ------------------------------------------------------------------ bounded stand-in
def _real_spectra(rng, n):
    import wannierberri as wb
    from wannierberri.system.system_R import System_R
    fails, cases = [], 0
    for t in range(2 if n <= 30 else 8):
        seed = rng.randint(0, 10 ** 6)
        rnp.random.seed(seed)
        bad = []
        with contextlib.redirect_stdout(io.StringIO()):
            def herm(s):
                for key in list(s._XX_R.keys()):
                    X = s.get_R_mat(key)
                    s.set_R_mat(key, 0.5 * (X + s.rvec.conj_XX_R(X)), reset=True)
                return s
            s = herm(System_R.from_random(num_wann=3, nRvec=27, max_R=1))
            ks = rnp.random.rand(3, 3)
            e0 = rnp.array([wb.evaluate_k(s, k=k, quantities=["energy"]) for k in ks])
            s.double_spin()
            e2 = rnp.array([wb.evaluate_k(s, k=k, quantities=["energy"]) for k in ks])
        if not rnp.allclose(e2, rnp.repeat(e0, 2, axis=-1), atol=1e-10):
            bad.append("doubled system does not have every band twice")
        cases += 1
        if bad:
            fails.append(dict(input=dict(seed=seed), failed=bad))
    return dict(cases=cases, failures=fails, distinct=cases)


Unit("C25", "doubled spectrum [real systems]", concrete=_real_spectra, bounded_desc="random Hermitian 3-band System_R, 3 random k: double_spin gives each band twice")
