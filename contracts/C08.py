"""C08  Declared time-reversal and inversion parities match computed values.

Spec (from the property): for every k-resolved formula F used by the calculators,  F(-k) = T_TR[F(k)]  in a time-reversal
symmetric model and  F(-k) = T_Inv[F(k)]  in an inversion-symmetric model, T being the transformation the formula declares.

What contracts can decide here, and how:
 (A) bookkeeping, real text, per shape / exhaustive over the tables:
     get_transform_TR / get_transform_Inv: every k-derivative flips the parity; Hamiltonian even/even, spin / curvature-like /
     orbital-like matrices odd under TR and even under inversion; gauge-dependent matrices (D, AA, BB, CCab) have no parity;
     unknown names are refused.  Data_K.covariant hands every matrix its table entry (generalised derivative: one more
     derivative; velocity odd/odd).  Transform.__call__ / TransformProduct on symbolic tensors: permutation, conjugation, sign,
     product of signs.  Tabulator / DynamicCalculator forward the formula's (or their own) declared transformations to the
     result.  Declared parities of the formula classes = (-1)^(number of k-derivatives) times the parity of the base quantity.
 (B) the statement itself -- values at -k against values at k -- needs the eigen-decomposition at two k-points and a symmetric
     model: outside what the engine can generate VCs for.  Bounded stand-in, labelled as such: the installed Data_K_R and the
     real tabulators / dynamic calculators on random time-reversal symmetric models (real H(R), A(R)) and random inversion-
     symmetric models (even orbitals on the inversion centre: H(-R) = H(R), A(-R) = -A(R)) at random k and -k.
     Covered formulas: energy, velocity, inverse mass, third derivative, Berry curvature (internal / external / both), its first and
     second derivatives, optical conductivity, JDOS, shift current, injection current.  Spin and orbital-moment formulas need SS / BB / CC
     matrices of a symmetric model and are covered by (A) only.
"""
import abc
import contextlib
import io
import itertools
import types
import warnings

import numpy as rnp
import z3

from pyvc.core import ctx, sreal, SNum, SCplx, land, lift
from pyvc.unit import unit, Unit
from pyvc.npshim import Shim, sym_cplx_array, sym_real_array

F_DK = "wannierberri/data_K/data_K.py"
F_PS = "wannierberri/symmetry/point_symmetry.py"
F_TAB = "wannierberri/calculators/tabulate.py"
F_COV = "wannierberri/formula/covariant.py"
F_ELEM = "wannierberri/formula/elementary.py"
F_DYN = "wannierberri/calculators/dynamic.py"


def _valid(c):
    s = z3.Solver()
    s.add(z3.Not(c.t))
    return s.check() == z3.unsat


ODD_TR = ['CC', 'FF', 'OO', 'GG', 'SS', 'rotAA', 'rotAAab', 'CCab_antisym']
CERTAIN = {"Ham": (1, 1), "SS": (-1, 1), "OO": (-1, 1), "CC": (-1, 1), "rotAA": (-1, 1)}        # (TR, inversion) factor at derivative order 0
GAUGE_DEP = ['D', 'AA', 'BB', 'CCab']


def _tables_unit(prop="C08"):
    return unit(prop, "parity tables get_transform_TR / get_transform_Inv and Data_K.covariant wiring", scope="shape:all table names, derivative orders 0..4", expect_min=5)(_tables)


def _tables(U):
    ident, odd = types.SimpleNamespace(factor=1, name="ident"), types.SimpleNamespace(factor=-1, name="odd")
    g = dict(transform_ident=ident, transform_odd=odd)
    tr = U.fn(F_DK, "get_transform_TR", globs=g, model=False, rewrite_comps=False)
    inv = U.fn(F_DK, "get_transform_Inv", globs=g, model=False, rewrite_comps=False)
    U.siblings(F_DK, [tr, inv], globs=g)
    made = []

    class M:
        def __init__(self, kind, *a, **kw):
            self.kind, self.a, self.kw = kind, a, kw
            made.append(self)
    formula = types.SimpleNamespace(Matrix_ln=lambda *a, **kw: M("Matrix_ln", *a, **kw), Matrix_GenDer_ln=lambda *a, **kw: M("Matrix_GenDer_ln", *a, **kw))
    cov = U.fn(F_DK, "Data_K.covariant", globs=dict(formula=formula, get_transform_TR=tr, get_transform_Inv=inv), model=False, rewrite_comps=False)

    def body():
        names = ["Ham"] + ODD_TR
        ok = all(tr(nm, d + 1).factor == -tr(nm, d).factor and inv(nm, d + 1).factor == -inv(nm, d).factor for nm in names for d in range(4))
        U.ensure("every k-derivative flips the time-reversal and the inversion parity", ok)
        U.ensure("order 0: Hamiltonian even/even; spin, curvature-like and orbital-like matrices odd under time reversal, even under inversion",
                 all((tr(nm, 0).factor, inv(nm, 0).factor) == v for nm, v in CERTAIN.items()))
        U.ensure("the remaining table entries share the parity class of the curvature-like matrices (as declared: TR odd, inversion even at order 0)",
                 all((tr(nm, 0).factor, inv(nm, 0).factor) == (-1, 1) for nm in ODD_TR))
        U.ensure("gauge-dependent matrices (D, AA, BB, CCab) have no declared parity", all(tr(nm, d) is None and inv(nm, d) is None for nm in GAUGE_DEP for d in range(3)))
        bad = []
        for f_ in (tr, inv):
            try:
                f_("no-such-matrix", 0)
                bad.append("accepted")
            except ValueError:
                pass
        U.ensure("unknown names are refused", not bad)
        # covariant(): the matrix of (name, commader) carries the table entry of (name, commader)
        me = types.SimpleNamespace(_covariant_quantities={})
        me.Xbar = lambda name, der=0: ("Xbar", name, der)
        me.Dcov = "DCOV"
        me.V_covariant = "VCOV"
        me.covariant = lambda *a, **k: cov(me, *a, **k)
        okc = True
        for nm in ("Ham", "SS", "OO"):
            for d in range(3):
                m = cov(me, nm, commader=d)
                okc = okc and m.kind == "Matrix_ln" and m.a == (("Xbar", nm, d),) and m.kw["transformTR"].factor == tr(nm, d).factor and m.kw["transformInv"].factor == inv(nm, d).factor
        U.ensure("covariant(name, commader=d): the d-th comma derivative of Xbar(name) with the table's parities for (name, d)", okc)
        m = cov(me, "SS", gender=1)
        U.ensure("covariant(name, gender=1): generalised derivative of covariant(name) built from (name, 0), (name, commader 1) and D, parities of derivative order 1",
                 m.kind == "Matrix_GenDer_ln" and m.a[0].a == (("Xbar", "SS", 0),) and m.a[1].a == (("Xbar", "SS", 1),) and m.a[2] == "DCOV"
                 and m.kw["transformTR"].factor == tr("SS", 1).factor and m.kw["transformInv"].factor == inv("SS", 1).factor)
        U.ensure("covariant('Ham', gender=1) is the velocity (V_covariant); results are memoised", cov(me, "Ham", gender=1) == "VCOV" and cov(me, "SS", gender=1) is m)
    U.run(body, check_feasible=False)


_tables_unit()


def _transform_unit(prop="C08"):
    return unit(prop, "Transform.__call__ / TransformProduct on symbolic tensors", scope="shape:2x3x3 complex tensors; all pre-defined transforms", expect_min=3)(_transform)


def _transform(U):
    g = dict(np=Shim())
    T = U.klass(F_PS, "Transform", globs=g, rewrite_comps=False)
    g["Transform"] = T
    TP = U.klass(F_PS, "TransformProduct", globs=dict(np=rnp, Transform=T), rewrite_comps=False, bases=(T,))

    def body():
        X = sym_cplx_array("x", (2, 3, 3))
        cases = [("ident", T(), lambda i, a, b: X[i, a, b]), ("odd", T(factor=-1), lambda i, a, b: -X[i, a, b]),
                 ("trans", T(transpose_axes=(1, 0)), lambda i, a, b: X[i, b, a]), ("odd conj", T(factor=-1, conj=True), lambda i, a, b: -X[i, a, b].conj()),
                 ("swap", T(swap_axes=(1, 2)), lambda i, a, b: X[i, b, a])]
        ok = True
        for nm, t, want in cases:
            Y = t(X.copy())
            for i in range(2):
                for a in range(3):
                    for b in range(3):
                        w, y = SCplx.of(want(i, a, b)), SCplx.of(Y[i, a, b])
                        ok = ok and _valid(land(w.re == y.re, w.im == y.im))
        U.ensure("ident / odd / transposing / conjugating / swapping transforms act as declared on every element (leading axes untouched)", ok)
        X3 = sym_cplx_array("y", (2, 3, 3, 3))
        Y = T(factor=-1, transpose_axes=(0, 2, 1))(X3.copy())
        U.ensure("transpose_axes=(0,2,1) with factor -1 (injection current): Y[..,a,b,c] = -X[..,a,c,b]",
                 all(_valid(land(SCplx.of(Y[i, a, b, c]).re == -SCplx.of(X3[i, a, c, b]).re, SCplx.of(Y[i, a, b, c]).im == -SCplx.of(X3[i, a, c, b]).im))
                     for i in range(2) for a in range(3) for b in range(3) for c in range(3)))
        p = TP([T(factor=-1), T(factor=-1), T(factor=-1)])
        q = TP([T(factor=-1), T()])
        bad = []
        try:
            TP([T(conj=True), T()])
            bad.append("mixed conj accepted")
        except ValueError:
            pass
        U.ensure("product of transforms: signs multiply, mixed conjugation refused", p.factor == -1 and q.factor == -1 and TP([T(), T()]).factor == 1 and not p.conj and not bad
                 and TP([T(), T(factor=-1)]).factor == -1 and TP([T(factor=-1), T(factor=-1)]).factor == 1 and TP([T(), T(factor=-1), T(factor=-1)]).factor == 1
                 and TP([T(conj=True), T(factor=-1, conj=True)]).conj)
    U.run(body, check_feasible=False)


_transform_unit()


# the parity every formula class must declare: base quantity (TR, Inv) and the number of k-derivatives it carries
EXPECTED = {
    "Omega": (-1, 1, 0), "DerOmega": (-1, 1, 1), "Der2Omega": (-1, 1, 2), "Der3E": (1, 1, 3), "Der2Spin": (-1, 1, 2),
    "Morb_H": (-1, 1, 0), "Morb_Hpm": (-1, 1, 0), "DerMorb_H": (-1, 1, 1), "DerMorb": (-1, 1, 1), "Der2Morb_H": (-1, 1, 2), "Der2Morb": (-1, 1, 2),
    "SpinOmega": (1, 1, 0),          # spin (odd) times curvature (odd) under time reversal
    "QuantumMetric_ab": (1, 1, 0), "DerQuantumMetric_ab_d": (1, 1, 1),
    "SpinVelocity": (-1, 1, 1),      # spin (TR-odd, inversion-even) times one k-derivative (velocity)
}
EXPECTED_ELEM = {"Eavln": (1, 1, 0), "InvMass": (1, 1, 2), "DerWln": (1, 1, 3)}


@unit("C08", "declared parities of the formula classes = parity of the base quantity x (-1)^(number of k-derivatives)", scope="shape:18 formula classes", expect_min=2)
def _declared(U):
    import ast
    from pyvc.extract import read_source, find_def
    src, _ = read_source(F_COV)
    tree = ast.parse(src)

    def body():
        bad, seen = [], 0
        src_e, _ = read_source(F_ELEM)
        tree_e = ast.parse(src_e)
        for cls, (ptr, pinv, nder) in list(EXPECTED.items()) + list(EXPECTED_ELEM.items()):
            node, _c = find_def(tree_e if cls in EXPECTED_ELEM else tree, cls)
            init = [n for n in node.body if isinstance(n, ast.FunctionDef) and n.name == "__init__"][0]
            got = {}
            for st in ast.walk(init):
                if isinstance(st, ast.Assign) and len(st.targets) == 1 and ast.unparse(st.targets[0]) in ("self.transformTR", "self.transformInv"):
                    got[ast.unparse(st.targets[0])] = ast.unparse(st.value)
            want = {"self.transformTR": "transform_odd" if ptr * (-1) ** nder == -1 else "transform_ident",
                    "self.transformInv": "transform_odd" if pinv * (-1) ** nder == -1 else "transform_ident"}
            seen += 1
            if got != want:
                bad.append((cls, got, want))
        U.ensure("every listed formula class assigns exactly the expected pair of transformations in its constructor", not bad)
        U.ensure("18 classes inspected", seen == 18)
        return bad
    U.run(body, check_feasible=False)
    U.functions.extend(dict(qualname=F_COV + "::" + c + ".__init__", file=F_COV, lines=[0, 0], sha256="constructor assignments read from the AST", dropped=[], rewritten=[]) for c in EXPECTED)
    U.assumption("physics of the base quantities: Berry curvature, spin and orbital moment are odd under time reversal and even under inversion; energy is even under both")


@unit("C08", "Tabulator.__call__ forwards the formula's declared transformations to the result", scope="shape:2 k-points, 3 bands", expect_min=1)
def _tab(U):
    made = []

    class KBR:
        def __init__(self, data, **kw):
            made.append((data, kw))
    call = U.fn(F_TAB, "Tabulator.__call__", globs=dict(np=rnp, KBandResult=KBR), model=False, rewrite_comps=False)

    def body():
        class F:
            ndim = 1
            transformTR, transformInv = "TR-of-formula", "INV-of-formula"

            def __init__(self, data_K, **kw):
                pass

            def trace(self, ik, inn, out):
                return rnp.array([ik + 1.0, len(inn), len(out)]) * len(inn)
        me = types.SimpleNamespace(Formula=F, kwargs_formula={}, ibands=None, degen_thresh=1e-4, degen_Kramers=False, constant_factor=2.0)
        data = types.SimpleNamespace(nk=2, num_wann=3)
        data.get_bands_in_range_groups = lambda *a, **k: [{(0, 1): 0.0, (1, 3): 1.0}, {(0, 3): 0.5}]
        call(me, data)
        d, kw = made[0]
        U.ensure("KBandResult(values, transformTR=formula.transformTR, transformInv=formula.transformInv); group traces divided by the group size",
                 kw == {"transformTR": "TR-of-formula", "transformInv": "INV-of-formula"} and d.shape == (2, 3, 3)
                 and rnp.allclose(d[0, 0], [2.0, 2.0, 4.0]) and rnp.allclose(d[0, 1], [2.0, 4.0, 2.0]) and rnp.allclose(d[1, 2], [4.0, 6.0, 0.0]))
    U.run(body, check_feasible=False)


# ------------------------------------------------------------------ formula level: the real formula code on symbolic ingredients at k and -k
F_FORM = "wannierberri/formula/formula.py"
F_UT = "wannierberri/utility.py"
NB = 3
ENERG = [0.0, 1.5, 4.0]          # generic, non-degenerate, exactly representable band energies (same at k and -k)

# how the Hamiltonian-gauge matrices of a symmetric model at -k follow from those at k (gauge U(-k) = conj U(k) resp. U(-k) = P U(k)):
#   time reversal :  X(-k) = eps  * conj(X(k)),  eps = table parity (x (-1) per k-derivative); position-like AA, BB: eps = +1 at order 0
#   inversion     :  X(-k) = eta  *      X(k) ,  eta = table parity (x (-1) per k-derivative); position-like AA, BB: eta = -1 at order 0
POSITION_LIKE = {"AA": (1, -1), "BB": (1, -1)}


def assemble(U, relpath, names, registry, g):
    import ast
    from pyvc.extract import read_source, class_bases
    src, _ = read_source(relpath)
    tree = ast.parse(src)
    for nm in names:
        bases = tuple(registry[b] for b in class_bases(tree, nm) if b in registry)
        gl = dict(g)
        gl.update(registry)
        registry[nm] = U.klass(relpath, nm, globs=gl, rewrite_comps=False, bases=bases)
        # classes defined earlier must see the ones defined later too (module scope)
    for c in registry.values():
        for v in c.__dict__.values():
            fr = getattr(v, "fget", None) or getattr(v, "func", None) or getattr(v, "__func__", None) or v
            if hasattr(fr, "__globals__"):
                for k_, c_ in registry.items():
                    fr.__globals__.setdefault(k_, c_)
    return registry


def formula_world(U):
    U.assume_ensures = False
    NP = Shim()
    ce = U.fn(F_UT, "cached_einsum", globs=dict(np=NP, EINSUM_PATH_CACHE={}), model=False, rewrite_comps=False)
    T = U.klass(F_PS, "Transform", globs=dict(np=NP), rewrite_comps=False)
    TP = U.klass(F_PS, "TransformProduct", globs=dict(np=rnp, Transform=T), rewrite_comps=False, bases=(T,))
    TI, TO = T(), T(factor=-1)
    g = dict(np=NP, abc=abc, cached_einsum=ce, alpha_A=rnp.array([1, 2, 0]), beta_A=rnp.array([2, 0, 1]), transform_ident=TI, transform_odd=TO, TransformProduct=TP)
    reg = {}
    assemble(U, F_FORM, ["Formula", "Formula_ln", "Matrix_ln", "Matrix_GenDer_ln"], reg, g)
    assemble(U, F_ELEM, ["Eavln", "DEinv_ln", "InvMass", "DerWln", "Dcov", "DerDcov"], reg, g)
    assemble(U, F_COV, ["Omega", "DerOmega", "Der3E", "Hamiltonian", "Velocity", "Spin", "DerSpin", "Morb_H", "Morb_Hpm", "morb", "SpinVelocity"], reg, g)
    tr = U.fn(F_DK, "get_transform_TR", globs=dict(transform_ident=TI, transform_odd=TO), model=False, rewrite_comps=False)
    inv = U.fn(F_DK, "get_transform_Inv", globs=dict(transform_ident=TI, transform_odd=TO), model=False, rewrite_comps=False)
    U.siblings(F_DK, [tr, inv], globs=dict(transform_ident=TI, transform_odd=TO))
    fns = types.SimpleNamespace(Matrix_ln=reg["Matrix_ln"], Matrix_GenDer_ln=reg["Matrix_GenDer_ln"], covariant=types.SimpleNamespace(Dcov=reg["Dcov"]))
    DK = U.klass(F_DK, "Data_K", globs=dict(np=NP, formula=fns, get_transform_TR=tr, get_transform_Inv=inv, transform_ident=TI, transform_odd=TO, cached_einsum=ce),
                 rewrite_comps=False, only=("covariant", "V_covariant", "Dcov", "dEig_inv", "D_H"))
    return reg, DK, tr, inv, TI, TO


def _ingredients():
    """symbolic Hamiltonian-gauge matrices at k, Hermitian where the quantity is (all but the gauge-dependent ones)"""
    X = {}

    def herm(name, tail):
        A = rnp.empty((1, NB, NB) + tail, dtype=object)
        for t in rnp.ndindex(*tail) if tail else [()]:
            tg = "_".join(map(str, t))
            for a in range(NB):
                A[(0, a, a) + t] = SCplx(sreal("%s%s_%d" % (name, tg, a)), 0)
                for b in range(a + 1, NB):
                    v = SCplx(sreal("%s%s_%d_%d.re" % (name, tg, a, b)), sreal("%s%s_%d_%d.im" % (name, tg, a, b)))
                    A[(0, a, b) + t] = v
                    A[(0, b, a) + t] = v.conj()
        return A
    for name, der in (("Ham", 1), ("Ham", 2), ("Ham", 3), ("AA", 0), ("AA", 1), ("SS", 0), ("SS", 1), ("rotAA", 0), ("rotAA", 1), ("CC", 0)):
        base = {"Ham": (), "AA": (3,), "SS": (3,), "rotAA": (3,), "CC": (3,)}[name]
        X[(name, der)] = herm("%s%d" % (name, der), base + (3,) * der)
    X[("BB", 0)] = sym_cplx_array("BB0", (1, NB, NB, 3))          # not Hermitian
    return X


def _mk_data(DK, X, sign_of, conj):
    d = DK.__new__(DK)
    d._covariant_quantities, d._bar_quantities = {}, {}
    d.force_internal_terms_only = False
    d.E_K = rnp.array([ENERG])
    Y = {}
    for key, A in X.items():
        sg = sign_of(*key)
        B = rnp.empty(A.shape, dtype=object)
        for idx in rnp.ndindex(*A.shape):
            v = SCplx.of(A[idx])
            B[idx] = (v.conj() if conj else v) * sg
        Y[key] = B
    d.Xbar = lambda name, der=0: Y[(name, der)].copy()
    return d


FORMULAS = [("Velocity", {}), ("InvMass", {}), ("Der3E", {}), ("Omega", {"external_terms": False}), ("Omega", {}), ("DerOmega", {"external_terms": False}), ("DerOmega", {}),
            ("Spin", {}), ("DerSpin", {}), ("Morb_H", {"external_terms": False}), ("Morb_H", {}), ("morb", {}),
            ("SpinVelocity", {"spin_current_type": "simple", "external_terms": False}), ("SpinVelocity", {"spin_current_type": "simple"})]


def _formula_unit(sym, tiers=("quick", "thorough")):
    @unit("C08", "formula level (%s): trace at -k = declared transformation of the trace at k, real formula code on symbolic matrices" % sym,
          scope="shape:3 bands with generic energies, band groups [0] and [1,2]; 14 formula variants", expect_min=12, tiers=tiers, timeout_ms=60000,
          replay=lambda mv, ob: _replay_par(mv, ob), replay_once=True)
    def _f(U):
        reg, DK, tr, inv, TI, TO = formula_world(U)

        def body():
            X = _ingredients()

            def sg_tr(name, der):
                if name in POSITION_LIKE:
                    return POSITION_LIKE[name][0] * (-1) ** der
                return tr(name, der).factor

            def sg_inv(name, der):
                if name in POSITION_LIKE:
                    return POSITION_LIKE[name][1] * (-1) ** der
                return inv(name, der).factor
            dk = _mk_data(DK, X, lambda n_, d_: 1, False)
            dm = _mk_data(DK, X, sg_tr if sym == "time reversal" else sg_inv, sym == "time reversal")
            for cls, kw in FORMULAS:
                args = (dk,) if cls in ("Velocity", "InvMass", "Spin", "DerSpin") and not kw else (dk,)
                fk = reg[cls](dk, **kw)
                fm = reg[cls](dm, **kw)
                T = fk.transformTR if sym == "time reversal" else fk.transformInv
                cl = []
                nz = False
                for inn, out in ((rnp.array([0]), rnp.array([1, 2])), (rnp.array([1, 2]), rnp.array([0]))):
                    tk, tm = fk.trace(0, inn, out), fm.trace(0, inn, out)
                    tk, tm = rnp.asarray(tk), rnp.asarray(tm)
                    if tk.shape != tm.shape:
                        cl.append(lift(0) == 1)
                        continue
                    want = rnp.empty(tk.shape, dtype=object)
                    for idx in rnp.ndindex(*tk.shape):
                        want[idx] = SCplx.of(tk[idx]).re          # the trace is a real quantity (ndarray.real is the identity on object arrays)
                    want = T(want) if tk.ndim else rnp.asarray(T(want.reshape(1))).reshape(())
                    for idx in rnp.ndindex(*tk.shape):
                        cl.append(lift(SCplx.of(tm[idx]).re) == lift(want[idx]))
                    if not nz:
                        sv = z3.Solver()
                        sv.set("timeout", 5000)
                        sv.add(z3.Or(*[lift(SCplx.of(tk[idx]).re).t != 0 for idx in rnp.ndindex(*tk.shape)]))
                        nz = sv.check() != z3.unsat
                if not nz:
                    cl.append(lift(0) == 1)          # an identically vanishing trace would make the comparison vacuous
                label = "%s%s" % (cls, " (%s)" % ", ".join("%s=%s" % kv for kv in kw.items()) if kw else "")
                U.ensure("%s: value at -k = declared %s transformation (factor %+d) of the value at k" % (label, sym, T.factor), land(*cl))
        U.run(body, check_feasible=False)
        U.assumption("symmetric model, gauge U(-k) = conj U(k) (time reversal) resp. U(-k) = P U(k) (inversion): Hamiltonian-gauge matrices at -k are "
                     "+-conj resp. +- those at k with the sign of the parity table; position-like matrices AA, BB: +1 (TR, with conjugation) and -1 (inversion) at order 0")
        U.external("np.linalg.eigh is not involved: band energies and Hamiltonian-gauge matrices are the symbolic inputs")


_formula_unit("time reversal")
_formula_unit("inversion")


def _replay_par(mv, ob):
    import random
    r = _real_parities(random.Random(2), 10)
    return dict(reproduced=bool(r["failures"]), input="installed tabulators / dynamic / static calculators at +-k of random symmetric models", failed=r["failures"][:3])


# ------------------------------------------------------------------ bounded stand-in: values at k and -k
# ------------------------------------------------------------------ SDCT Fermi-surface term II: declaration against the parities of its ingredients
F_SDCT = "wannierberri/formula/sdct.py"


@unit("C08", "Formula_SDCT_surf_II: the declared time-reversal / inversion behaviour follows from the parities of its ingredients", expect_min=2, scope="shape:2 k-points, 2 bands; symbolic band velocities and magnetic-dipole matrices")
def _sdct_surf_II(U):
    import wannierberri.symmetry.point_symmetry as psm
    NP = Shim()
    g = dict(np=NP, transform_odd=psm.transform_odd, transform_odd_trans_102=psm.transform_odd_trans_102)

    class Formula:                     # contract of formula.Formula.__init__ as far as these classes use it
        def __init__(self, data_K, **kw):
            self.external_terms, self.key_OO = True, "OO"
    Base = U.klass(F_SDCT, "Formula_SDCT", globs=dict(g, Formula=Formula), bases=(Formula,), rewrite_comps=False)
    S2 = U.klass(F_SDCT, "Formula_SDCT_surf_II", globs=dict(g, Formula_SDCT=Base), bases=(Base,), rewrite_comps=False)

    def body():
        sym = bool(ctx().choose(2, "symmetric part"))
        nk, nb = 2, 2
        V = sym_real_array("v", (nk, nb, 3))
        B = sym_cplx_array("B", (nk, nb, nb, 3, 3))

        def mk(sv, sb):
            return types.SimpleNamespace(nk=nk, num_wann=nb, delE_K=V * sv, get_Bln=lambda **kw: B * sb)
        at_k = S2(mk(1, 1), sym=sym)
        for what, sv, sb in (("time reversal", -1, -1), ("inversion", -1, 1)):
            # ingredients at -k of a symmetric system: band velocity odd under both; the magnetic-dipole (orbital + spin) matrix is an axial,
            # time-odd quantity: odd under time reversal, even under inversion
            at_mk = S2(mk(sv, sb), sym=sym)
            T = at_k.transformTR if what == "time reversal" else at_k.transformInv
            ok = True
            for ik in range(nk):
                for n in range(nb):
                    want = T(rnp.array(at_k.trace_ln(ik, [n], None), dtype=object).copy())
                    got = at_mk.trace_ln(ik, [n], None)
                    for idx in rnp.ndindex(3, 3, 3):
                        d_ = SCplx.of(got[idx]) - SCplx.of(want[idx])
                        ok = ok and _is_zero(d_.re) and _is_zero(d_.im)
            U.ensure("%s part, %s: value(-k) built from the transformed ingredients = declared transformation of value(k) [sdct-surf-II-%s-%s]" % ("symmetric" if sym else "antisymmetric", what, "sym" if sym else "asym", "TR" if what == "time reversal" else "Inv"), ok)
    U.run(body, check_feasible=False)
    U.external("parities of the ingredients: band velocity odd under time reversal and inversion; magnetic-dipole matrix (get_Bln with orb / spin terms) odd under time reversal, even under inversion")


def _is_zero(x):
    s_ = z3.Solver()
    s_.add(lift(x).t != 0)
    return s_.check() == z3.unsat


def symmetric_model(kind, nw, seed, orbital=False):
    """random Hermitian tight-binding model with Hamiltonian and position matrices:
       TR : real matrices, X(-R) = X(R)^T (real Wannier functions), arbitrary centres
       Inv: even orbitals on the inversion centre: H(-R) = H(R) Hermitian, A(-R) = -A(R) anti-Hermitian
       orbital=True adds BB(R) = <0|H (r-R)|R> and CC_a(R) = i eps_abc <0|r_b H (r-R)_c|R> with the constraints the symmetry puts on them:
       general: CC(-R) = CC(R)^dagger, BB(-R) free;  TR (real functions): BB real, CC imaginary;  Inv (even functions): BB(-R) = -BB(R), CC(-R) = CC(R)"""
    from wannierberri.system.system_R import System_R
    from wannierberri.fourier.rvectors import Rvectors
    rs = rnp.random.RandomState(seed)
    latt = rnp.array([[1.0, 0.2, 0.0], [0.1, 1.3, 0.0], [0.0, 0.3, 1.7]])
    Rs = [(0, 0, 0)]
    for R in itertools.product((-1, 0, 1), repeat=3):
        if R > (0, 0, 0):
            Rs += [R, tuple(-x for x in R)]
    Rs = rnp.array(Rs)
    idx = {tuple(r): i for i, r in enumerate(Rs.tolist())}
    H = rnp.zeros((len(Rs), nw, nw), complex)
    A = rnp.zeros((len(Rs), nw, nw, 3), complex)
    for R, i in idx.items():
        j = idx[tuple(-x for x in R)]
        if j < i:
            continue
        if kind == "TR":
            h, a = rs.randn(nw, nw), rs.randn(nw, nw, 3)
            if i == j:
                h, a = 0.5 * (h + h.T), 0.5 * (a + a.swapaxes(0, 1))
            H[i], H[j], A[i], A[j] = h, h.T, a, a.swapaxes(0, 1)
        else:
            h = rs.randn(nw, nw) + 1j * rs.randn(nw, nw)
            h = 0.5 * (h + h.conj().T)
            a = rs.randn(nw, nw, 3) + 1j * rs.randn(nw, nw, 3)
            a = 0.5 * (a - a.swapaxes(0, 1).conj())
            if i == j:
                a = 0 * a
            H[i], H[j], A[i], A[j] = h, h, a, -a
    cen = rs.rand(nw, 3) if kind == "TR" else rnp.zeros((nw, 3))
    for n_ in range(nw):
        A[idx[(0, 0, 0)], n_, n_] = cen[n_].dot(latt)
    s = System_R(periodic=(True, True, True), name="model")
    s.set_real_lattice(latt)
    s.num_wann = nw
    s.wannier_centers_cart = cen.dot(latt)
    s.rvec = Rvectors(lattice=latt, iRvec=Rs, shifts_left_red=cen)
    s.set_R_mat("Ham", H)
    s.set_R_mat("AA", A)
    if orbital:
        B = rnp.zeros((len(Rs), nw, nw, 3), complex)
        C = rnp.zeros((len(Rs), nw, nw, 3), complex)
        for R, i in idx.items():
            j = idx[tuple(-x for x in R)]
            if kind == "TR":
                B[i] = rs.randn(nw, nw, 3)
                if j >= i:
                    c = 1j * rs.randn(nw, nw, 3)
                    if i == j:
                        c = 0.5 * (c + c.swapaxes(0, 1).conj())
                    C[i], C[j] = c, c.swapaxes(0, 1).conj()
            elif j >= i:
                b = rs.randn(nw, nw, 3) + 1j * rs.randn(nw, nw, 3)
                c = rs.randn(nw, nw, 3) + 1j * rs.randn(nw, nw, 3)
                c = 0.5 * (c + c.swapaxes(0, 1).conj())
                if i == j:
                    b = 0 * b
                B[i], B[j], C[i], C[j] = b, -b, c, c
        s.set_R_mat("BB", B)
        s.set_R_mat("CC", C)
    s.do_at_end_of_init()
    return s


def _calculators():
    from wannierberri.calculators import tabulate, dynamic
    Ef, om = rnp.array([-0.3, 0.4]), rnp.array([0.5, 1.5, 2.5])
    kw = dict(Efermi=Ef, omega=om, smr_fixed_width=0.2, kBT=0.05)
    return {
        "Energy": tabulate.Energy(), "Velocity": tabulate.Velocity(), "InvMass": tabulate.InvMass(), "Der3E": tabulate.Der3E(),
        "BerryCurvature": tabulate.BerryCurvature(), "BerryCurvature (internal)": tabulate.BerryCurvature(kwargs_formula={"external_terms": False}),
        "BerryCurvature (external)": tabulate.BerryCurvature(kwargs_formula={"internal_terms": False}),
        "DerBerryCurvature": tabulate.DerBerryCurvature(), "Der2BerryCurvature": tabulate.Der2BerryCurvature(),
        "JDOS": dynamic.JDOS(**kw), "OpticalConductivity": dynamic.OpticalConductivity(**kw), "ShiftCurrent": dynamic.ShiftCurrent(sc_eta=0.1, **kw),
        "InjectionCurrent": dynamic.InjectionCurrent(**kw),
    } | _sdct_calculators(dict(kw, kBT=0.5)) | _static_calculators()        # a warm Fermi surface: the surface terms are not exponentially small at a random k


def _sdct_calculators(kw):
    """the terms of the spatially dispersive conductivity tensor that need no more than Hamiltonian, position and BB / CC matrices (sea_I also needs FF: skipped)"""
    try:
        from wannierberri.calculators import sdct
    except ImportError:
        return {}
    return {"sdct." + nm: getattr(sdct, nm)(**kw) for nm in ("SDCT_sym_sea_II", "SDCT_asym_sea_II", "SDCT_sym_surf_I", "SDCT_asym_surf_I", "SDCT_sym_surf_II", "SDCT_asym_surf_II") if hasattr(sdct, nm)}


STATIC = ["AHC", "AHC_test", "Ohmic_FermiSea", "Ohmic_FermiSurf", "Hall_classic_FermiSurf", "Hall_classic_FermiSea", "BerryDipole_FermiSurf", "BerryDipole_FermiSea",
          "BerryDipole_FermiSea_test", "NLDrude_FermiSea", "NLDrude_FermiSurf", "NLDrude_Fermider2", "OmegaOmega", "QuantumMetric_FermiSea"]


def _static_calculators():
    """static calculators whose formulas need only the Hamiltonian and position matrices (single-k value = the k-resolved integrand)"""
    from wannierberri.calculators import static
    Ef = rnp.array([-0.3, 0.4, 2.5])
    out = {}
    for nm in STATIC:
        cls = getattr(static, nm, None)
        if cls is not None:
            out["static." + nm] = cls(Efermi=Ef, tetra=False)
    return out


def _real_parities(rng, n):
    import wannierberri as wb
    from wannierberri.data_K import Data_K_R
    fails, cases, skipped = [], 0, set()
    with contextlib.redirect_stdout(io.StringIO()), warnings.catch_warnings():
        warnings.simplefilter("ignore")
        calcs = _calculators()
        for t in range(2 if n <= 30 else 6):
            for kind in ("TR", "Inv"):
                seed = rng.randint(1, 10 ** 6)
                s = symmetric_model(kind, 3, seed, orbital=True)
                grid = wb.grid.Grid(s, NK=1, NKFFT=1, use_symmetry=False)
                k = rnp.array([rng.uniform(-0.5, 0.5) for _ in range(3)])
                dp, dm = Data_K_R(s, grid=grid, dK=k), Data_K_R(s, grid=grid, dK=-k)
                for nm, c in calcs.items():
                    try:
                        rp, rm = c(dp), c(dm)
                    except ValueError as e:
                        if "are not set in the system" in str(e):          # the calculator needs matrices these models do not carry
                            skipped.add(nm)
                            continue
                        raise
                    T = rp.transformTR if kind == "TR" else rp.transformInv
                    want = T(rnp.array(rp.data).copy())
                    got = rnp.array(rm.data)
                    sc = max(1e-4, float(abs(want).max()))          # symmetry-forbidden tensors are rounding noise (< 1e-12 here): absolute floor 1e-11
                    cases += 1
                    if got.shape != want.shape or float(abs(got - want).max()) > 1e-7 * sc:
                        fails.append(dict(input=dict(tag="%s/%s" % (nm, kind), model=kind, seed=seed, k=k.tolist(), calculator=nm), clause="value(-k) = declared %s transformation of value(k)" % kind,
                                          declared=dict(factor=T.factor, conj=T.conj, transpose_axes=T.transpose_axes), err=float(abs(got - want).max()), scale=sc))
    return dict(cases=cases, failures=fails, distinct=cases, skipped=sorted(skipped))


Unit("C08", "values at -k against the declared transformation of the values at k [real code, symmetric random models]", concrete=_real_parities,
     bounded_desc="installed Data_K_R + 9 tabulators (energy ... second derivative of the Berry curvature, internal / external variants) + JDOS, optical conductivity, shift current, injection current, six terms of the spatially dispersive conductivity + 14 static calculators (AHC, Ohmic, classical Hall, Berry dipole, non-linear Drude, quantum metric ...) "
                  "at a random k and -k of 2 (quick) / 6 (thorough) random 3-band time-reversal symmetric and inversion-symmetric models (Hamiltonian, position, BB and CC matrices with the constraints of the symmetry)")
