"""C12  Parallel evaluation gives the same results as serial evaluation.

Under contract:
  run_grid.py::process   the real text, executed for EVERY behaviour of ray.wait allowed by its documented contract
                         ("returns at most num_returns of the refs that are ready, in input order; a ready ref stays ready;
                         which ready refs are returned is unspecified; with a timeout fewer may be returned"), for n = 1..3
                         remote K-points (quick) / n = 4 (thorough), both progress-step settings, all three storage modes,
                         symbolic per-K results.  Postcondition: every K-point's result is set exactly once, the returned sum is
                         the serial sum, the count is n -- and the serial branch gives the same.
  result/tabresult.py::TABresult.self_to_path   path re-ordering: see C29.
The schedule space is enumerated exhaustively (per-shape proof: complete for the stated n and number of free wait rounds;
after the free rounds every ref is ready and ray.wait returns the first num_returns refs, its documented behaviour).
"""
import itertools
import sys
import types

import numpy as rnp
import z3
from pyvc.core import (ctx, lift, land, implies, sreal, SNum, conc, Undecided)
from pyvc.unit import unit, Unit

F = "wannierberri/run_grid.py"


class Vec:
    """abstract per-K result times weight: a symbolic real; None is the neutral element exactly as for the result classes"""

    def __init__(self, t):
        self.t = t

    def __add__(self, o):
        if o is None:
            return self
        return Vec(self.t + o.t)

    def __radd__(self, o):
        if o is None or (isinstance(o, int) and o == 0):
            return self
        return Vec(o.t + self.t)


class KP:
    def __init__(self, i, evaluated=False):
        self.i = i
        self.was_evaluated_flag = evaluated
        self.nset = 0
        self.log = []

    def set_result(self, res):
        self.nset += 1
        self.res = res
        self.was_evaluated_flag = True
        self.log.append("set")

    def get_result_factor(self):
        return self.res

    def dump_result(self):
        self.log.append("dump")

    def clear_result(self):
        self.log.append("clear")


class Ref:
    def __init__(self, i):
        self.i = i


def _mk_unit(n, free_rounds, parallel, tiers):
    name = "process[%s,n=%d%s]" % ("parallel" if parallel else "serial", n, ",free wait rounds=%d" % free_rounds if parallel else "")

    def prove(U):
        state = {}

        class Remote:
            def remote(self, dK, **kw):
                return Ref(dK.i)

            def __call__(self, dK, **kw):
                return Vec(sreal("rf%d" % dK.i))

        fake = types.ModuleType("ray")

        def wait(refs, num_returns=1, timeout=None):
            ids = [r.i for r in refs]
            state["calls"] += 1
            k = min(num_returns, len(refs))
            if state["calls"] <= free_rounds:
                # ANY set of at most k refs (each of them is ready now and stays ready); with the timeout possibly fewer
                subsets = [s for r in range(0, k + 1) for s in itertools.combinations(range(len(refs)), r)]
                # refs never seen ready may be not ready; refs returned once are ready forever -- both are covered by "any subset"
                ch = ctx().choose(len(subsets), "wait")
                sel = subsets[ch]
                state["ready"] |= set(sel)
            else:
                sel = tuple(range(k))         # everything is ready: the first num_returns refs, in input order
            state["trace"].append(list(sel))
            return [refs[j] for j in sel], [refs[j] for j in range(len(refs)) if j not in sel]

        fake.wait = wait
        fake.get = lambda r: ([Vec(sreal("rf%d" % x.i)) for x in r] if isinstance(r, list) else Vec(sreal("rf%d" % r.i)))
        ncpu_choices = (1, 2)
        f = U.fn(F, "process", globs=dict(np=rnp, time=lambda: 0.0, print=lambda *a, **k: None, print_progress=lambda **k: 0,
                                          get_ray_cpus_count=lambda: state["ncpu"]), model=False)

        def body():
            state.update(calls=0, ready=set(), trace=[])
            state["ncpu"] = ncpu_choices[ctx().choose(2, "ncpu")]
            mode = ctx().choose(3, "storage")          # memory / dump / discard
            dump, store = (False, True) if mode == 0 else (True, True) if mode == 1 else (False, False)
            npre = ctx().choose(2, "already evaluated prefix")
            K_list = [KP(100 + j, evaluated=True) for j in range(npre)] + [KP(i) for i in range(n)]
            old = sys.modules.get("ray")
            sys.modules["ray"] = fake
            try:
                count, total = f(Remote(), K_list, parallel, dump, {}, store, progress_step_time=5, progress_step_percent=34)
            finally:
                if old is None:
                    sys.modules.pop("ray", None)
                else:
                    sys.modules["ray"] = old
            new = K_list[npre:]
            tr = str(state["trace"])
            U.ensure("every new K-point gets its result set exactly once", all(k.nset == 1 for k in new))
            U.ensure("every new K-point stores ITS OWN result", lambda: land(*[k.res.t == sreal("rf%d" % k.i) for k in new if k.nset >= 1]))
            U.ensure("already evaluated K-points are not touched", all(k.nset == 0 for k in K_list[:npre]))
            U.ensure("count == number of new K-points", count == n)
            want = 0
            for k in new:
                want = want + sreal("rf%d" % k.i)
            U.ensure("returned sum == sum over the new K-points of result*weight (the serial value)",
                     lambda: (total.t == want) if n > 0 else total is None)
            U.ensure("storage mode honoured", all(k.log == (["set", "dump"] if dump else ["set"] if store else ["set", "clear"]) for k in new))
            ctx().ghost["trace"] = tr
            return count
        U.run(body, max_paths=200000, check_feasible=False)
        U.external("ray.wait(refs, num_returns, timeout): returns at most num_returns ready refs in input order and the rest; readiness is monotone; WHICH ready refs is unspecified (ray documentation)")
        U.external("ray.get returns the value computed by the remote function for that ref")

    def replay(mv, ob):
        return _replay_schedule()
    Unit("C12", name, prove=prove, replay=replay, scope="shape:n=%d remotes, %d free ray.wait rounds" % (n, free_rounds), tiers=tiers,
         expect_min=5, timeout_ms=5000, replay_once=True)


def _replay_schedule():
    """replay on the REAL process() (imported, not extracted) with a fake ray whose wait() follows a fixed adversarial but
    contract-conforming schedule: 6 remotes, 2 CPUs, the last ref becomes ready first"""
    import importlib
    rg = importlib.import_module("wannierberri.run_grid")
    ready_at = [2, 2, 2, 2, 3, 1]
    st = dict(t=0)
    fake = types.ModuleType("ray")

    def wait(refs, num_returns=1, timeout=None):
        st["t"] += 1
        ready = [r for r in refs if ready_at[r.i] <= st["t"]]
        return ready[:num_returns], [r for r in refs if r not in ready[:num_returns]]
    fake.wait = wait
    fake.get = lambda r: ([Num(10 ** x.i) for x in r] if isinstance(r, list) else Num(10 ** r.i))

    class Num:
        def __init__(self, v): self.v = v
        def __add__(self, o): return self if o is None else Num(self.v + o.v)
        __radd__ = __add__

    class Rem:
        def remote(self, dK, **kw): return Ref(dK.i)
    Ks = [KP(i) for i in range(6)]
    old = sys.modules.get("ray")
    sys.modules["ray"] = fake
    oldcpu = rg.get_ray_cpus_count
    rg.get_ray_cpus_count = lambda: 2
    import io, contextlib
    try:
        with contextlib.redirect_stdout(io.StringIO()):
            count, total = rg.process(Rem(), Ks, True, False, {}, True)
    finally:
        rg.get_ray_cpus_count = oldcpu
        if old is None:
            sys.modules.pop("ray", None)
        else:
            sys.modules["ray"] = old
    ok = total.v == 111111 and all(k.nset == 1 for k in Ks)
    return dict(reproduced=not ok, input=dict(remotes=6, cpus=2, ready_at_wait_call=ready_at, results="10**i"),
                clause="sum == 111111 and every result set once", got=total.v, nset=[k.nset for k in Ks])


_mk_unit(1, 2, True, ("quick", "thorough"))
_mk_unit(2, 3, True, ("quick", "thorough"))
_mk_unit(3, 3, True, ("quick", "thorough"))
_mk_unit(3, 4, True, ("thorough",))
_mk_unit(4, 3, True, ("thorough",))
_mk_unit(3, 0, False, ("quick", "thorough"))


def _real_schedule(rng, n):
    r = _replay_schedule()
    return dict(cases=1, failures=[r] if r["reproduced"] else [], distinct=1)


Unit("C12", "process[real function, adversarial schedule]", concrete=_real_schedule,
     bounded_desc="the imported (not extracted) run_grid.process with a fake ray: 6 remotes, 2 CPUs, last ref ready first")


# ------------------------------------------------------------------ path re-ordering of tabulated results
FT = "wannierberri/result/tabresult.py"
FKB = "wannierberri/result/kbandresult.py"
FP = "wannierberri/parallel.py"


def _path_unit(n, prop="C12"):
    @unit(prop, "TABresult.self_to_path[%d points]" % n, scope="shape:path of %d points, every collection order%s" % (n, "" if n <= 5 else " (sampled)"), expect_min=3)
    def _p(U):
        import random as _r
        made = []

        class KR:
            def __init__(self, data=None, **kw):
                self.data = data
                self.kw = kw
                made.append(self)
        to_path = U.fn(FKB, "K__Result.to_path", globs=dict(np=rnp), model=False)
        f = U.fn(FT, "TABresult.self_to_path", globs=dict(np=rnp), model=False)
        base = rnp.array([[0.1 * j, 0.05 * j * j % 1, (0.37 * j) % 1] for j in range(n)])
        base[n // 2] = [0.0, 0.5, 0.999999]          # a point close to the cell boundary
        perms = list(itertools.permutations(range(n))) if n <= 5 else None

        def body():
            if perms is not None:
                perm = perms[ctx().choose(len(perms), "collection order")]
            else:
                rs = _r.Random(ctx().choose(40, "sampled order"))
                perm = list(range(n))
                rs.shuffle(perm)
            shift = rnp.array([[(j % 3) - 1, 0, (j % 2)] for j in range(n)], dtype=float)      # results come back with k mod lattice vectors
            me = types.SimpleNamespace()
            me.kpoints = (base + shift)[list(perm)]
            vals = [sreal("val_of_path_point_%d" % j) for j in range(n)]        # value belonging to path point j
            res = KR(data=rnp.array([[vals[j]] for j in perm], dtype=object), transformTR="TR", transformInv="INV", rank=0, other_properties={})
            res.transformTR, res.transformInv, res.rank, res.other_properties = "TR", "INV", 0, {}
            res.to_path = lambda m: to_path(res, m)
            me.results = {"q": res}
            path = types.SimpleNamespace(get_kpoints=lambda: base.copy())
            f(me, path)
            U.ensure("k-points of the result are the path's k-points, in path order", me.kpoints.shape == base.shape and rnp.allclose(me.kpoints, base))
            out = me.results["q"].data
            U.ensure("row j carries the value computed for path point j (each point's own values)",
                     lambda: land(*[lift(out[j][0]) == vals[j] for j in range(n)]) if len(out) == n else False)
            U.ensure("transformations / rank carried over", me.results["q"].kw.get("transformTR") == "TR" and me.results["q"].kw.get("rank") == 0)
        U.run(body, check_feasible=False, max_paths=100000)


for _n in (1, 2, 3, 4, 5):
    _path_unit(_n)
_path_unit(9)


@unit("C12", "get_ray_runtime_env", scope="shape:user runtime_env variants", expect_min=1)
def _renv(U):
    f = U.fn(FP, "get_ray_runtime_env", globs=dict(os=__import__("os"), __file__="/some/checkout/wannierberri/parallel.py"), model=False)
    pkg = "/some/checkout/wannierberri"

    def body():
        bad = []
        variants = [None, {}, {"env_vars": {"A": "1"}}, {"py_modules": []}, {"py_modules": ["/x/mod"]}, {"py_modules": ["/x/mod", pkg], "pip": ["z"]}, {"py_modules": (pkg,)}]
        for env in variants:
            import copy
            before = copy.deepcopy(env)
            out = f(runtime_env=env, use_current_checkout=True)
            user = list((env or {}).get("py_modules", []))
            if out.get("py_modules", None) is None or list(out["py_modules"]).count(pkg) != 1 or [m for m in out["py_modules"] if m != pkg] != [m for m in user if m != pkg]:
                bad.append(("workers do not get the driver's checkout exactly once (user modules kept)", env, out))
            if any(out.get(k) != v for k, v in (env or {}).items() if k != "py_modules"):
                bad.append(("other entries lost", env, out))
            if env != before:
                bad.append(("caller's dictionary modified", before, env))
            out2 = f(runtime_env=env, use_current_checkout=False)
            if (out2 or {}) != (before or {}):
                bad.append(("use_current_checkout=False must return the user's environment unchanged", env, out2))
        U.ensure("the worker environment ships the driver's package directory whatever runtime_env the user passes", not bad)
        if bad:
            ctx().ghost["bad"] = str(bad[:2])
    U.run(body, check_feasible=False)


@unit("C12", "ray_init / ray_init_cluster: ray.init receives the worker environment that get_ray_runtime_env computed", scope="shape:user runtime_env given / absent; use_current_checkout on / off; stub ray", expect_min=2)
def _ray_init(U):
    import sys
    import types as _t
    calls = []
    fake = _t.ModuleType("ray")
    fake.is_initialized = lambda: False
    fake.init = lambda **kw: calls.append(kw)

    def genv(runtime_env, use_current_checkout=True):          # contract of get_ray_runtime_env (unit above): the user's entries plus the checkout
        if not use_current_checkout:
            return runtime_env
        return dict(runtime_env or {}, py_modules=list((runtime_env or {}).get("py_modules", [])) + ["<driver checkout>"])
    g = dict(get_ray_runtime_env=genv, get_ray_cpus_count=lambda: 1, print=lambda *a, **k: None, warnings=__import__("warnings"), os=_t.SimpleNamespace(environ={"ip_head": "1.2.3.4:5", "redis_password": "pw"}))
    f = U.fn(FP, "ray_init", globs=g, model=False)
    fc = U.fn(FP, "ray_init_cluster", globs=g, model=False)

    def body():
        saved = sys.modules.get("ray")
        sys.modules["ray"] = fake
        try:
            ok = True
            for user in (None, {"env_vars": {"OMP_NUM_THREADS": "1"}}, {"py_modules": ["/x/mod"]}):
                for co in (True, False):
                    del calls[:]
                    kw = {} if user is None else {"runtime_env": dict(user)}
                    f(use_current_checkout=co, num_cpus=3, **kw)
                    want = genv(user, co)
                    ok = ok and len(calls) == 1 and calls[0].get("num_cpus") == 3 and calls[0].get("runtime_env") == want
            U.ensure("ray_init: ray.init gets the computed environment (the user's entries AND the driver's checkout), also when the user passed a runtime_env; other options passed through", ok)
            ok = True
            for user in (None, {"env_vars": {"A": "1"}}):
                del calls[:]
                fc(num_cpus=5, use_current_checkout=True, **({} if user is None else {"runtime_env": dict(user)}))
                ok = ok and len(calls) == 1 and calls[0].get("runtime_env") == genv(user, True) and calls[0].get("num_cpus") == 5 and calls[0].get("address") == "auto"
            U.ensure("ray_init_cluster: the same, with the cluster address options", ok)
        finally:
            if saved is None:
                sys.modules.pop("ray", None)
            else:
                sys.modules["ray"] = saved
    U.run(body, check_feasible=False)
