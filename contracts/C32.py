"""C32  Tight-binding imports reproduce the source model.

Source of truth: the source libraries' own Bloch Hamiltonians.  Their conventions are external contracts, taken from their
documentation and validated against the installed libraries by the bounded stand-in:
  PythTB   set_hop(t, i, j, R): amplitude t = <i, 0| H |j, R>, the Hermitian conjugate is implied; set_onsite: <i,0|H|i,0>.
           H_ij(k) = eps_i delta_ij + sum_hops t e^{2 pi i k.(R + r_j - r_i)} + h.c.   (orbital positions r enter as a k-dependent
           unitary diag(e^{2 pi i k.r_i}), so the band energies are those of  sum_hops t e^{2 pi i k.R} + h.c.)
  TBmodels model.hop[R] (one of each +-R pair, half of the R = 0 block):  H(k) = sum_R hop[R] e^{2 pi i k.R} + h.c.
Contract of the import (get_system_tb_py, real text): for EVERY k
  sum_R Ham_R[R] ph(k.R)  =  the position-free Bloch Hamiltonian above,
the R list contains 0, is closed under R -> -R and has no duplicates, Ham_R[-R] = Ham_R[R]^dagger, the centres are the orbital
positions up to lattice vectors (the property speaks of band energies only; which periodic image is taken is the code's choice), non-periodic directions are padded.  Hence equal band energies at every k.
Tier S: stub models with SYMBOLIC amplitudes / on-site energies (every hop a distinct symbol, repeated hops, hops inside the home cell,
orbitals outside the cell, 2D and 3D, spinless and spinful PythTB, TBmodels), symbolic k.
Bounded stand-in: real PythTB / TBmodels random models and the bundled Haldane models, energies from the libraries' own solvers.
"""
import contextlib
import io
import itertools
import types
import warnings
from fractions import Fraction

import numpy as rnp
import z3

from pyvc.core import ctx, sreal, SNum, SCplx, land, lift
from pyvc.unit import unit, Unit
from pyvc.npshim import Shim, sym_cplx_array, sym_real_array
from pyvc.phase import Ph, PhSum, phsum_eq, fourier_spec

F = "wannierberri/system/system_tb_py.py"


def _valid(c):
    s = z3.Solver()
    s.add(z3.Not(c.t))
    return s.check() == z3.unsat


def _fn(U):
    import packaging.version as version_mod
    from wannierberri.fourier.rvectors import Rvectors
    from wannierberri.system.needed_data import NeededData
    NP = Shim(float_object=False)
    f = U.fn(F, "get_system_tb_py", globs=dict(np=NP, Rvectors=Rvectors, NeededData=NeededData, version=version_mod, cprint=lambda *a, **k: None, print=lambda *a, **k: None),
             model=False, rewrite_comps=False)
    f.raw.__globals__["__package__"] = "wannierberri.system"
    f.raw.__globals__["__name__"] = "wannierberri.system.system_tb_py"
    return f


def _kforms():
    return [{"k%d" % j: Fraction(1)} for j in range(3)]


def _check_system(U, label, system, nw, dim, lat, pos, spec_terms, onsite):
    """spec_terms: list of (R (len dim), i, j, value) meaning  value * ph(k.R) at [i, j]  (already including the h.c. partners)"""
    Rs = rnp.array(system.rvec.iRvec)
    H = system.get_R_mat("Ham")
    setR = {tuple(int(x) for x in r) for r in Rs}
    U.ensure("%s: the R list contains 0, is closed under R -> -R, has no duplicates and no component along non-periodic directions" % label,
             (0, 0, 0) in setR and len(setR) == len(Rs) and all(tuple(-x for x in r) in setR for r in setR) and all(r[d] == 0 for r in setR for d in range(dim, 3)))
    dpos = system.wannier_centers_red[:, :dim] - rnp.array(pos)
    U.ensure("%s: lattice block, periodic flags; centres = orbital positions up to lattice vectors (padded with zeros) and equal to the R-vector shifts" % label,
             rnp.allclose(system.real_lattice[:dim, :dim], lat) and rnp.allclose(system.real_lattice[dim:, dim:], rnp.eye(3 - dim)) and list(system.periodic) == [True] * dim + [False] * (3 - dim)
             and rnp.allclose(dpos, rnp.round(dpos), atol=1e-12) and rnp.allclose(system.wannier_centers_red[:, dim:], 0)
             and rnp.allclose(rnp.array(system.rvec.shifts_left_red, dtype=float), system.wannier_centers_red))
    idx = {tuple(int(x) for x in r): i for i, r in enumerate(Rs)}
    herm = all(_valid(land(SCplx.of(H[idx[R], a, b]).re == SCplx.of(H[idx[tuple(-x for x in R)], b, a]).re, SCplx.of(H[idx[R], a, b]).im == -SCplx.of(H[idx[tuple(-x for x in R)], b, a]).im))
               for R in idx for a in range(nw) for b in range(nw))
    U.ensure("%s: Ham_R[-R] = Ham_R[R]^dagger" % label, herm)
    kf = _kforms()
    cl = []
    for a in range(nw):
        for b in range(nw):
            got = fourier_spec([H[iR, a, b] for iR in range(len(Rs))], Rs, kf)
            want = PhSum({})
            for (R, i, j, v) in spec_terms:
                if (i, j) == (a, b):
                    form = {}
                    for d in range(dim):
                        if R[d]:
                            form["k%d" % d] = Fraction(int(R[d]))
                    want = want + PhSum.of(Ph(form)) * v
            if a == b:
                want = want + PhSum.of(onsite[a]) if not isinstance(onsite[a], dict) else want
            cl.append(phsum_eq(got, want))
    U.ensure("%s: sum_R Ham_R[R] ph(k.R) = the source model's position-free Bloch Hamiltonian, for every k" % label, land(*cl))


@unit("C32", "PythTB import, spinless: every hop and on-site energy lands where PythTB's convention puts it", scope="shape:2D 2-orbital and 3D 3-orbital stub models, 5-6 hops incl. repeated, home-cell and long ones; symbolic amplitudes and k", expect_min=6)
def _ptb(U):
    f = _fn(U)

    def body():
        case = ctx().choose(2, "model")
        if case == 0:
            dim, norb = 2, 2
            lat = rnp.array([[1.0, 0.0], [0.5, 0.8660254037844386]])
            pos = rnp.array([[1 / 3, 1 / 3], [2 / 3 + 1, 2 / 3 - 2]])          # second orbital given outside the home cell
            hops = [(0, 1, None), (1, 0, [1, 0]), (1, 0, [0, 1]), (0, 0, [1, 0]), (1, 1, [1, -1]), (0, 0, [1, 0])]      # the last one repeats a hop: amplitudes add
        else:
            dim, norb = 3, 3
            lat = rnp.array([[1.0, 0.0, 0.0], [0.2, 1.1, 0.0], [0.0, 0.3, 1.4]])
            pos = rnp.array([[0.0, 0.0, 0.0], [0.25, 0.5, 0.75], [0.5, 0.5, 0.0]])
            hops = [(0, 1, [0, 0, 0]), (2, 0, [1, -1, 2]), (1, 1, [0, 0, 1]), (0, 2, [-2, 0, 0]), (2, 1, [0, 3, 0])]
        amps = [SCplx(sreal("t%d.re" % n), sreal("t%d.im" % n)) for n in range(len(hops))]
        eps = [sreal("eps%d" % i) for i in range(norb)]
        hoplist = []
        for (i, j, R), t in zip(hops, amps):
            d = {"amplitude": t, "from_orbital": i, "to_orbital": j}
            if R is not None:
                d["lattice_vector"] = list(R)
            hoplist.append(d)
        model = types.SimpleNamespace(lat_vecs=lat, norb=norb, hoppings=hoplist, _nspin=1, _site_energies=eps, get_orb_vecs=lambda cartesian=False: pos.copy())
        with warnings.catch_warnings():
            warnings.simplefilter("ignore")
            system = f(model, "pythtb")
        terms = []
        for (i, j, R), t in zip(hops, amps):
            R = [0] * dim if R is None else list(R)
            terms.append((R, i, j, t))
            terms.append(([-x for x in R], j, i, t.conj()))
        U.ensure("number of Wannier functions = number of orbitals, spinless", system.num_wann == norb and system.spinor is False)
        _check_system(U, "PythTB %dD" % dim, system, norb, dim, lat, pos, terms, [SCplx(e, 0) for e in eps])
    U.run(body, check_feasible=False)
    U.external("PythTB: hop t for (i, j, R) is <i,0|H|j,R> with the Hermitian conjugate implied; H_ij(k) = sum t ph(k.(R + r_j - r_i)) + h.c. + on-site (documented convention; validated by the stand-in)")


@unit("C32", "PythTB import, spinful: 2x2 hopping and on-site blocks", scope="shape:2D 2-orbital spinful stub model, 3 hops; symbolic 2x2 blocks and k", expect_min=5)
def _ptb_spin(U):
    f = _fn(U)

    def body():
        dim, norb = 2, 2
        lat = rnp.array([[1.0, 0.0], [0.0, 1.3]])
        pos = rnp.array([[0.0, 0.0], [0.5, 0.25]])
        hops = [(0, 1, [0, 0]), (1, 1, [1, 0]), (0, 1, [-1, 2])]
        amps = [sym_cplx_array("t%d" % n, (2, 2)) for n in range(len(hops))]
        eps = []
        for i in range(norb):
            e = rnp.empty((2, 2), dtype=object)
            e[0, 0], e[1, 1] = SCplx(sreal("e%d_uu" % i), 0), SCplx(sreal("e%d_dd" % i), 0)
            v = SCplx(sreal("e%d_ud.re" % i), sreal("e%d_ud.im" % i))
            e[0, 1], e[1, 0] = v, v.conj()
            eps.append(e)
        hoplist = [{"amplitude": t, "from_orbital": i, "to_orbital": j, "lattice_vector": list(R)} for (i, j, R), t in zip(hops, amps)]
        model = types.SimpleNamespace(lat_vecs=lat, norb=norb, hoppings=hoplist, _nspin=2, _site_energies=eps, get_orb_vecs=lambda cartesian=False: pos.copy())
        with warnings.catch_warnings():
            warnings.simplefilter("ignore")
            system = f(model, "pythtb")
        nw = 2 * norb
        terms = []
        for (i, j, R), t in zip(hops, amps):
            for s1 in range(2):
                for s2 in range(2):
                    terms.append((list(R), 2 * i + s1, 2 * j + s2, t[s1, s2]))
                    terms.append(([-x for x in R], 2 * j + s2, 2 * i + s1, t[s1, s2].conj()))
        for i in range(norb):
            for s1 in range(2):
                for s2 in range(2):
                    if s1 != s2:
                        terms.append(([0, 0], 2 * i + s1, 2 * i + s2, eps[i][s1, s2]))
        U.ensure("two Wannier functions per orbital (spin up, spin down interlaced), spinor flag set", system.num_wann == nw and system.spinor is True)
        _check_system(U, "PythTB spinful", system, nw, dim, lat, rnp.repeat(pos, 2, axis=0), terms, [eps[a // 2][a % 2, a % 2] for a in range(nw)])
    U.run(body, check_feasible=False)


@unit("C32", "TBmodels import: H(k) = sum_R hop[R] ph(k.R) + h.c.", scope="shape:2D 2-orbital stub model with hop blocks at R = 0, (1,0), (1,-2); symbolic blocks and k", expect_min=5)
def _tbm(U):
    f = _fn(U)

    def body():
        dim, size = 2, 2
        lat = rnp.array([[1.0, 0.0], [0.5, 0.8660254037844386]])
        pos = rnp.array([[1 / 3, 1 / 3], [2 / 3, 2 / 3]])
        Rlist = [(0, 0), (1, 0), (1, -2)]
        blocks = {R: sym_cplx_array("h%d" % n, (size, size)) for n, R in enumerate(Rlist)}
        model = types.SimpleNamespace(uc=lat, size=size, pos=pos, hop=blocks)
        with warnings.catch_warnings():
            warnings.simplefilter("ignore")
            system = f(model, "tbmodels")
        terms = []
        for R, h in blocks.items():
            for a in range(size):
                for b in range(size):
                    terms.append((list(R), a, b, h[a, b]))
                    terms.append(([-x for x in R], b, a, h[a, b].conj()))
        U.ensure("number of Wannier functions = model size, spinless", system.num_wann == size and system.spinor is False)
        _check_system(U, "TBmodels", system, size, dim, lat, pos, terms, [{} for _ in range(size)])
        try:
            f(model, "tbmodels", spin=True)
            ok = False
        except ValueError:
            ok = True
        U.ensure("spin matrices cannot be requested from a TBmodels model", ok)
    U.run(body, check_feasible=False)
    U.external("TBmodels: model.hop[R] holds one block of each +-R pair (half of the R = 0 block); H(k) = sum_R hop[R] ph(k.R) + h.c. (documented convention; validated by the stand-in)")


@unit("C32", "bundled Haldane builders: the PythTB and the TBmodels version issue the same model for the same parameters", scope="shape:both PythTB API generations; symbolic delta, hop1, hop2; three values of phi", expect_min=4)
def _haldane_builders(U):
    import sys
    import packaging.version as version_mod
    FM = "wannierberri/models.py"
    NP = Shim(float_object=False)

    class Rec:
        def __init__(self, **kw):
            self.kw, self.onsite, self.hops = kw, None, []

        def set_onsite(self, e):
            self.onsite = list(e)

        def set_hop(self, amp, i, j, R):
            self.hops.append((SCplx.of(amp), int(i), int(j), tuple(int(x) for x in R)))
        add_hop = set_hop

    def body():
        gen = ctx().choose(2, "pythtb-generation")
        iphi = ctx().choose(3, "phi")
        phi = [rnp.pi / 2, 0.7, -2.3][iphi]
        ptb = types.ModuleType("pythtb")
        ptb.__version__ = ["1.8.0", "2.0.0"][gen]
        ptb.tb_model = lambda dk, dr, lat, orb: Rec(dim=(dk, dr), lat=lat, pos=orb)
        ptb.Lattice = lambda lat_vecs, orb_vecs, periodic_dirs: dict(lat=lat_vecs, pos=orb_vecs, per=list(periodic_dirs))
        ptb.TBModel = lambda lattice: Rec(dim=(len(lattice["per"]), len(lattice["lat"])), lat=lattice["lat"], pos=lattice["pos"])
        tbm = types.ModuleType("tbmodels")

        def Model(on_site, uc, dim, occ, pos):
            m = Rec(dim=(dim, len(uc)), lat=uc, pos=pos)
            m.onsite = list(on_site)
            return m
        tbm.Model = Model
        g = dict(np=NP, version=version_mod, NEW_PYTHTB_VERSION=version_mod.parse("2.0.0"))
        f_ptb = U.fn(FM, "Haldane_ptb", globs=g, model=False, rewrite_comps=False)
        f_tbm = U.fn(FM, "Haldane_tbm", globs=g, model=False, rewrite_comps=False)
        delta, hop1, hop2 = sreal("delta"), sreal("hop1"), sreal("hop2")
        saved = {k: sys.modules.get(k) for k in ("pythtb", "tbmodels")}
        sys.modules["pythtb"], sys.modules["tbmodels"] = ptb, tbm
        try:
            a = f_ptb(delta=delta, hop1=hop1, hop2=hop2, phi=phi)
            b = f_tbm(delta=delta, hop1=hop1, hop2=hop2, phi=phi)
        finally:
            for k, v in saved.items():
                if v is None:
                    sys.modules.pop(k, None)
                else:
                    sys.modules[k] = v
        U.ensure("same dimensions, lattice and orbital positions", a.kw["dim"] == b.kw["dim"] == (2, 2) and rnp.allclose(a.kw["lat"], b.kw["lat"], atol=1e-14) and rnp.allclose(a.kw["pos"], b.kw["pos"], atol=1e-14))
        U.ensure("same on-site energies (-delta, +delta): every parameter is used", len(a.onsite) == len(b.onsite) == 2 and _valid(land(*[lift(x) == lift(y) for x, y in zip(a.onsite, b.onsite)]))
                 and _valid(land(lift(a.onsite[0]) == -delta, lift(a.onsite[1]) == delta)))

        def table(m):
            t = {}
            for amp, i, j, R in m.hops:
                # both libraries: hop t for (i, j, R) with the Hermitian conjugate implied -> canonical orientation, amplitudes of repeated hops add
                key, v = (i, j, R), amp
                if (j, i, tuple(-x for x in R)) < key:
                    key, v = (j, i, tuple(-x for x in R)), amp.conj()
                t[key] = t[key] + v if key in t else v
            return t
        ta, tb = table(a), table(b)
        U.ensure("same hoppings (amplitude, orbitals, lattice vector; up to the implied Hermitian conjugate)", set(ta) == set(tb) and len(ta) == 9
                 and _valid(land(*[land(ta[k].re == tb[k].re, ta[k].im == tb[k].im) for k in ta])))
        c, s_ = float(rnp.cos(phi)), float(rnp.sin(phi))
        nn = [k for k in ta if k[0] != k[1]]
        U.ensure("nearest-neighbour amplitude hop1 on three bonds, second-neighbour amplitude hop2 e^{+-i phi} on six",
                 len(nn) == 3 and _valid(land(*[land(ta[k].re == hop1, ta[k].im == 0) for k in nn]))
                 and _valid(land(*[land((ta[k].re - hop2 * c) * (ta[k].re - hop2 * c) <= 1e-24 * hop2 * hop2 + 0, lor_abs(ta[k].im, hop2 * s_)) for k in ta if k[0] == k[1]])))
    U.run(body, check_feasible=False)
    U.external("PythTB set_hop / TBmodels add_hop: same argument convention (amplitude, i, j, R) = <i,0|H|j,R> with the Hermitian conjugate added by the library (documented; validated by the stand-in comparing the two real models)")


def lor_abs(x, y):
    """|x| = |y| up to rounding of the float constant:  (x - y)^2 <= eps y^2  or  (x + y)^2 <= eps y^2"""
    from pyvc.core import lor
    return lor((x - y) * (x - y) <= 1e-24 * y * y, (x + y) * (x + y) <= 1e-24 * y * y)


# ------------------------------------------------------------------ bounded stand-in: the installed libraries
def _real_models(rng, n):
    import pythtb
    import tbmodels
    import wannierberri as wb
    from wannierberri import models
    from wannierberri.data_K import Data_K_R
    fails, cases = [], 0

    def energies(system, k):
        grid = wb.grid.Grid(system, NK=1, NKFFT=1, use_symmetry=False)
        return rnp.sort(rnp.array(Data_K_R(system, grid=grid, dK=rnp.array(list(k) + [0.0] * (3 - len(k)))).E_K[0]))
    with contextlib.redirect_stdout(io.StringIO()), warnings.catch_warnings():
        warnings.simplefilter("ignore")
        for t in range(3 if n <= 30 else 10):
            rs = rnp.random.RandomState(rng.randint(0, 10 ** 6))
            dim = 2 if t % 2 == 0 else 3
            norb = rs.randint(2, 4)
            lat = rnp.eye(dim) + 0.3 * rs.rand(dim, dim)
            pos = rs.rand(norb, dim) * 2 - 0.5
            hops = []
            for _ in range(rs.randint(3, 7)):
                i, j = rs.randint(0, norb, 2)
                R = [int(x) for x in rs.randint(-2, 3, dim)]
                if i == j and not any(R):
                    continue
                hops.append((complex(rs.randn(), rs.randn()), int(i), int(j), R))
            eps = rs.randn(norb)
            # PythTB
            lattice = pythtb.Lattice(lat_vecs=lat.tolist(), orb_vecs=pos.tolist(), periodic_dirs=list(range(dim)))
            m = pythtb.TBModel(lattice)
            m.set_onsite(list(eps))
            seen = set()
            for (amp, i, j, R) in hops:
                key = (i, j, tuple(R))
                if key in seen or (j, i, tuple(-x for x in R)) in seen:
                    continue
                seen.add(key)
                m.set_hop(amp, i, j, R)
            s_ptb = wb.system.System_R.from_pythtb(m)
            # TBmodels, same model
            tm = tbmodels.Model(on_site=list(eps), uc=lat, dim=dim, occ=1, pos=(pos % 1).tolist())
            for key in seen:
                amp = [h for h in hops if (h[1], h[2], tuple(h[3])) == key][0][0]
                tm.add_hop(amp, key[0], key[1], list(key[2]))
            s_tbm = wb.system.System_R.from_tbmodels(tm)
            for kk in range(3):
                k = rs.rand(dim)
                e_src = rnp.sort(rnp.array(m.solve_ham(k_pts=[list(k)])).reshape(-1))
                e_tbm = rnp.sort(rnp.array(tm.eigenval(list(k))))
                bad = []
                if not rnp.allclose(energies(s_ptb, k), e_src, atol=1e-9):
                    bad.append("PythTB import: energies differ from PythTB's own by %.2e" % abs(energies(s_ptb, k) - e_src).max())
                if not rnp.allclose(energies(s_tbm, k), e_tbm, atol=1e-9):
                    bad.append("TBmodels import: energies differ from TBmodels' own by %.2e" % abs(energies(s_tbm, k) - e_tbm).max())
                if not rnp.allclose(e_src, e_tbm, atol=1e-9):
                    bad.append("harness: the PythTB and TBmodels versions of the random model differ (not a finding about the import)")
                cases += 1
                if bad:
                    fails.append(dict(input=dict(case=t, dim=dim, norb=int(norb), k=k.tolist()), clause="same band energies as the source model", failed=bad))
        # the bundled example models
        for kw in (dict(delta=0.2, hop1=-1.0, hop2=0.15, phi=rnp.pi / 2), dict(delta=0.2, hop1=-0.8, hop2=0.3, phi=0.7), dict(delta=0.5, hop1=-1.0, hop2=0.15, phi=rnp.pi / 2),
                   dict(delta=-0.35, hop1=0.6, hop2=0.2, phi=-1.1)):
            a = wb.system.System_R.from_pythtb(models.Haldane_ptb(**kw))
            b = wb.system.System_R.from_tbmodels(models.Haldane_tbm(**kw))
            bad = []
            for kk in range(3):
                k = rnp.array([0.13 + 0.2 * kk, 0.41 - 0.1 * kk])
                if not rnp.allclose(energies(a, k), energies(b, k), atol=1e-9):
                    bad.append("Haldane_ptb and Haldane_tbm systems differ at k=%s by %.2e" % (k.tolist(), abs(energies(a, k) - energies(b, k)).max()))
            cases += 1
            if bad:
                fails.append(dict(input=dict(model="Haldane", **{k_: float(v) for k_, v in kw.items()}), clause="PythTB and TBmodels versions of the bundled model give the same system", failed=bad[:2]))
    return dict(cases=cases, failures=fails, distinct=cases)


Unit("C32", "imports against the libraries' own solvers [real PythTB / TBmodels]", concrete=_real_models,
     bounded_desc="3 (quick) / 10 (thorough) random 2D / 3D models with 2-3 orbitals built in BOTH libraries (orbitals outside the home cell, complex hoppings): energies of the imported systems vs TBModel.solve_ham / Model.eigenval at random k; "
                  "bundled Haldane models of both builders with four parameter sets (two values of every parameter)")
