"""C05  Results are invariant under relabelling or rotating the Wannier basis.

Spec (from the property).  Let p be a permutation of the Wannier functions and W a k-independent unitary mixing only Wannier
functions that share a centre.
  (P1) System_R.reorder(p) (with Rvectors.reorder) turns every real-space matrix into X'[R,a,b,..] = X[R,p(a),p(b),..], the
       centres and BOTH sets of R-vector shifts into tau'[a] = tau[p(a)], and drops every cache that depends on them.
  (P2) consequently every interpolated matrix and every k-derivative transforms as  M'(k)[a,b,..] = M(k)[p(a),p(b),..]  --
       verified through the real R_to_k chain of C02 (derivative factors i(R + tau_b - tau_a) included).
  (P3) for X' = W^dagger X W with W block-unitary over co-centred Wannier functions, M'(k) = W^dagger M(k) W for the matrices
       and their k-derivatives (the derivative factors do not see W because tau is constant inside a block).
A relabelling / co-centred rotation is therefore a k-independent unitary change of the Wannier gauge of H(k) and of all
matrices and derivatives; that band energies and all gauge-covariant formulas are invariant under such a change is the
gauge-covariance contract of C04 (assumed here).  Bounded stand-in: the installed run() / evaluate_k on relabelled and rotated
random Hermitian systems.

Tier S (per shape): real text on numpy object arrays -- all 6 permutations of 3 Wannier functions, symbolic matrices (Ham,
vector-valued AA), symbolic centres and shifts, symbolic K-point shift.
"""
import contextlib
import copy
import io
import itertools
import types
import warnings
from fractions import Fraction

import numpy as rnp
import z3

from pyvc.core import ctx, sreal, SNum, SCplx, land, lift
from pyvc.unit import unit, Unit
from pyvc.npshim import Shim, sym_cplx_array, sym_real_array
from pyvc.phase import PhSum, phsum_eq
from contracts.C02 import build as build_fft, LATT

F_SR = "wannierberri/system/system_R.py"
F_RV = "wannierberri/fourier/rvectors.py"
RS = rnp.array([[0, 0, 0], [1, 0, 0], [-1, 0, 0], [0, 1, -1], [2, 1, 0]])
NW = 3


def _valid(c):
    s = z3.Solver()
    s.add(z3.Not(c.t))
    return s.check() == z3.unsat


def _same(a, b):
    a, b = SCplx.of(a), SCplx.of(b)
    return _valid(land(a.re == b.re, a.im == b.im))


def _reorder_unit(perms, tag, tiers, prop="C05"):
    @unit(prop, "System_R.reorder + Rvectors.reorder: matrices, centres, both shift sets and caches [%s]" % tag,
          scope="shape:3 Wannier functions, permutations %s; 5 R-vectors; Ham, vector-valued AA and three more matrices" % (perms,), expect_min=5, tiers=tiers)
    def _reorder(U):
        return _reorder_body(U, perms)


def _reorder_body(U, perms):
    NP, FFT, RV0, g = build_fft(U)
    RV = RV0
    reorder = U.fn(F_SR, "System_R.reorder", globs=dict(np=NP), model=False, rewrite_comps=False)

    def body():
        p = list(perms[ctx().choose(len(perms), "permutation")])
        separate_right = bool(ctx().choose(2, "separate right shifts"))
        tau = sym_real_array("tau", (NW, 3))
        taur = sym_real_array("taur", (NW, 3)) if separate_right else None
        me = types.SimpleNamespace()
        me.num_wann = NW
        me.rvec = RV(lattice=LATT, shifts_left_red=tau.copy(), shifts_right_red=None if taur is None else taur.copy(), iRvec=RS)
        H = sym_cplx_array("H", (len(RS), NW, NW))
        A = sym_cplx_array("A", (len(RS), NW, NW, 3))
        # EVERY real-space matrix of the system is relabelled, whatever its name (also names no list in the code mentions)
        O = sym_cplx_array("O", (len(RS), NW, NW, 3))
        Z = sym_cplx_array("Z", (len(RS), NW, NW))
        me._XX_R = {"Ham": H.copy(), "AA": A.copy(), "OO": O.copy(), "SHA": O.copy() * 2, "my_own_matrix": Z.copy()}
        me.wannier_centers_cart = sym_real_array("wcc", (NW, 3))
        wcc0 = me.wannier_centers_cart.copy()
        me.wannier_names = rnp.array(["s", "px", "py"])
        cleared = []
        me.clear_cached_wcc = lambda: cleared.append("wcc")
        me.clear_cached_R = lambda: (cleared.append("R"), me.rvec.clear_cached())
        # fill the caches BEFORE the reordering: stale caches must not survive
        before = me.rvec.cRvec_shifted.copy()
        dK = rnp.array([sreal("dK0"), sreal("dK1"), sreal("dK2")], dtype=object)
        me.rvec.set_fft_R_to_k(NK=(2, 1, 1), num_wann=NW, fftlib="numpy", dK=dK)
        ref = {key: me.rvec.R_to_k(me.rvec.apply_expdK(X.copy()), der=1, hermitian=False) for key, X in (("Ham", H), ("AA", A))}
        reorder(me, p)
        ok = all(_same(me._XX_R["Ham"][(iR, a, b)], H[iR, p[a], p[b]]) for iR in range(len(RS)) for a in range(NW) for b in range(NW))
        ok = ok and all(_same(me._XX_R["AA"][(iR, a, b, c)], A[iR, p[a], p[b], c]) for iR in range(len(RS)) for a in range(NW) for b in range(NW) for c in range(3))
        ok = ok and set(me._XX_R) == {"Ham", "AA", "OO", "SHA", "my_own_matrix"}
        ok = ok and all(_same(me._XX_R["OO"][(iR, a, b, c)], O[iR, p[a], p[b], c]) and _same(me._XX_R["SHA"][(iR, a, b, c)], O[iR, p[a], p[b], c] * 2)
                        for iR in range(len(RS)) for a in range(NW) for b in range(NW) for c in range(3))
        ok = ok and all(_same(me._XX_R["my_own_matrix"][(iR, a, b)], Z[iR, p[a], p[b]]) for iR in range(len(RS)) for a in range(NW) for b in range(NW))
        U.ensure("(P1) X'[R,a,b,..] = X[R,p(a),p(b),..] for every matrix, every R and every trailing index", ok)
        U.ensure("(P1) centres and Wannier names are permuted the same way", all(me.wannier_centers_cart[a, j] is wcc0[p[a], j] for a in range(NW) for j in range(3))
                 and list(me.wannier_names) == [["s", "px", "py"][i] for i in p])
        right = taur if taur is not None else tau
        U.ensure("(P1) left AND right R-vector shifts are permuted the same way", all(me.rvec.shifts_left_red[a, j] is tau[p[a], j] and me.rvec.shifts_right_red[a, j] is right[p[a], j]
                                                                                     for a in range(NW) for j in range(3)))
        U.ensure("(P1) centre- and R-dependent caches are dropped", "wcc" in cleared and "R" in cleared)
        after = me.rvec.cRvec_shifted
        U.ensure("(P1) R + tau_b - tau_a is recomputed with the new order (no stale cache)",
                 all(_valid(lift(after[iR, a, b, j]) == lift(before[iR, p[a], p[b], j])) for iR in range(len(RS)) for a in range(NW) for b in range(NW) for j in range(3)))
        # (P2) through the real transform chain
        me.rvec.set_fft_R_to_k(NK=(2, 1, 1), num_wann=NW, fftlib="numpy", dK=dK)
        for key in ("Ham", "AA"):
            new = me.rvec.R_to_k(me.rvec.apply_expdK(me._XX_R[key].copy()), der=1, hermitian=False)
            cl = []
            for idx in rnp.ndindex(*new.shape):
                ik, a, b = idx[:3]
                cl.append(phsum_eq(new[idx], ref[key][(ik, p[a], p[b]) + idx[3:]]))
            U.ensure("(P2) %s: first k-derivative of the relabelled system = relabelled derivative of the original, at every k-point" % key, land(*cl))
    U.run(body, check_feasible=False)


_reorder_unit([(1, 2, 0), (0, 2, 1), (2, 1, 0)], "a 3-cycle and two transpositions", ("quick", "thorough"))
_reorder_unit([(0, 1, 2), (2, 0, 1), (1, 0, 2)], "identity, the other 3-cycle, the third transposition", ("thorough",))


def _W():
    """block unitary over the co-centred Wannier functions 0 and 1 (exact entries), Wannier function 2 alone"""
    W = rnp.zeros((NW, NW), dtype=object)
    f = Fraction
    W[0, 0], W[0, 1] = SCplx(f(3, 5), 0), SCplx(0, f(4, 5))
    W[1, 0], W[1, 1] = SCplx(0, f(4, 5)), SCplx(f(3, 5), 0)
    W[2, 2] = SCplx(0, 1)
    for idx in rnp.ndindex(NW, NW):
        if isinstance(W[idx], int):
            W[idx] = SCplx(0, 0)
    return W


@unit("C05", "co-centred rotation: matrices and k-derivatives transform as W^dagger M(k) W", scope="shape:3 Wannier functions (two sharing a centre), 5 R-vectors, derivative orders 0-2, symbolic data / centres / dK", expect_min=3)
def _rot(U):
    NP, FFT, RV, g = build_fft(U)

    def body():
        der = ctx().choose(3, "derivative order")
        t0 = sym_real_array("t", (2, 3))
        tau = rnp.array([t0[0], t0[0], t0[1]], dtype=object)          # Wannier functions 0 and 1 share their centre
        W = _W()
        Wd = rnp.array([[W[b, a].conj() for b in range(NW)] for a in range(NW)], dtype=object)
        unit_ok = all(_same(sum((Wd[a, c] * W[c, b] for c in range(NW)), SCplx(0, 0)), 1 if a == b else 0) for a in range(NW) for b in range(NW))
        U.ensure("W is unitary and mixes only the co-centred pair", unit_ok)
        X = sym_cplx_array("X", (len(RS), NW, NW))
        Xp = rnp.empty(X.shape, dtype=object)
        for iR in range(len(RS)):
            for a in range(NW):
                for b in range(NW):
                    acc = SCplx(0, 0)
                    for a2 in range(NW):
                        for b2 in range(NW):
                            acc = acc + Wd[a, a2] * X[iR, a2, b2] * W[b2, b]
                    Xp[iR, a, b] = acc
        dK = rnp.array([sreal("dK0"), sreal("dK1"), sreal("dK2")], dtype=object)
        outs = []
        for M in (X, Xp):
            rv = RV(lattice=LATT, shifts_left_red=tau.copy(), iRvec=RS)
            rv.set_fft_R_to_k(NK=(2, 1, 1), num_wann=NW, fftlib="numpy", dK=dK)
            outs.append(rv.R_to_k(rv.apply_expdK(M.copy()), der=der, hermitian=False))
        o, op = outs
        cl = []
        for idx in rnp.ndindex(*op.shape):
            ik, a, b = idx[:3]
            want = PhSum({})
            for a2 in range(NW):
                for b2 in range(NW):
                    want = want + PhSum.of(o[(ik, a2, b2) + idx[3:]]) * (Wd[a, a2] * W[b2, b])
            cl.append(phsum_eq(op[idx], want))
        U.ensure("(P3) derivative order %d: M'(k) = W^dagger M(k) W at every k-point and Cartesian index" % der, land(*cl))
    U.run(body, check_feasible=False)
    U.external("gauge covariance of the formulas / invariance of band energies under a k-independent unitary change of the Wannier gauge (C04)")


# ------------------------------------------------------------------ bounded stand-in: installed code
def _hermitian_system(nw, seed, cocentred=True):
    import wannierberri as wb
    rnp.random.seed(seed)
    s = wb.system.System_R.from_random(num_wann=nw, nRvec=27, max_R=1, berry=True)
    if cocentred:
        s.wannier_centers_cart[1] = s.wannier_centers_cart[0]
        s.clear_cached_wcc()
        from wannierberri.fourier.rvectors import Rvectors
        s.rvec = Rvectors(lattice=s.real_lattice, iRvec=s.rvec.iRvec, shifts_left_red=s.wannier_centers_red)
    for key in list(s._XX_R.keys()):
        X = s.get_R_mat(key)
        s.set_R_mat(key, 0.5 * (X + s.rvec.conj_XX_R(X)), reset=True)
    return s


def _real_invariance(rng, n):
    import wannierberri as wb
    from wannierberri.evaluate_k import evaluate_k
    from scipy.stats import unitary_group
    fails, cases = [], 0
    for t in range(2 if n <= 30 else 6):
        seed = rng.randint(1, 10 ** 6)
        nw = 3
        with contextlib.redirect_stdout(io.StringIO()), warnings.catch_warnings():
            warnings.simplefilter("ignore")
            s0 = _hermitian_system(nw, seed)
            perm = list(range(nw))
            rng.shuffle(perm)
            s1 = copy.deepcopy(s0)
            s1.reorder(perm)
            # rotation among the co-centred Wannier functions 0 and 1
            W = rnp.eye(nw, dtype=complex)
            W[:2, :2] = unitary_group.rvs(2, random_state=seed % (2 ** 31))
            s2 = copy.deepcopy(s0)
            for key in list(s2._XX_R.keys()):
                X = s2.get_R_mat(key)
                s2.set_R_mat(key, rnp.einsum("ba,rbc...,cd->rad...", W.conj(), X, W), reset=True)
            k = [rng.uniform(0, 1) for _ in range(3)]
            grid = wb.grid.Grid(s0, NK=[3, 2, 2], NKFFT=[1, 1, 1], use_symmetry=False)
            Ef = rnp.linspace(-1, 2, 4)
            mk = lambda: {"dos": wb.calculators.static.CumDOS(Efermi=Ef, tetra=False), "ahc": wb.calculators.static.AHC(Efermi=Ef, tetra=False)}
            base = wb.run(s0, grid=grid, calculators=mk(), adpt_num_iter=0, use_irred_kpt=False, symmetrize=False, print_Kpoints=False)
            e0 = evaluate_k(s0, k=k, quantities=["energy", "berry_curvature"], return_single_as_dict=True)
            bad = []
            for nm, s_ in (("relabelled", s1), ("rotated among co-centred", s2)):
                r = wb.run(s_, grid=grid, calculators=mk(), adpt_num_iter=0, use_irred_kpt=False, symmetrize=False, print_Kpoints=False)
                for key in ("dos", "ahc"):
                    a, b = r.results[key].data, base.results[key].data
                    if abs(a - b).max() > 1e-8 * max(1.0, abs(b).max()):
                        bad.append("%s: integrated %s differs by %.2e" % (nm, key, abs(a - b).max()))
                e = evaluate_k(s_, k=k, quantities=["energy", "berry_curvature"], return_single_as_dict=True)
                for q in e:
                    if abs(e[q] - e0[q]).max() > 1e-8 * max(1.0, abs(e0[q]).max()):
                        bad.append("%s: band-resolved %s differs by %.2e" % (nm, q, abs(e[q] - e0[q]).max()))
        cases += 1
        if bad:
            fails.append(dict(input=dict(seed=seed, permutation=perm), clause="invariance of integrated and band-resolved output", failed=bad[:4]))
    return dict(cases=cases, failures=fails, distinct=cases)


Unit("C05", "relabelled and rotated systems give the same output [real code]", concrete=_real_invariance,
     bounded_desc="installed run() (CumDOS, AHC on a 3x2x2 grid) and evaluate_k (energies, Berry curvature at a random k) on 2 (quick) / 6 (thorough) random Hermitian 3-band systems: a random relabelling and a random U(2) rotation of two co-centred Wannier functions")



# the eigenvector matrix every rotated / relabelled quantity goes through, with the random-gauge option (the degenerate columns are mixed, the
# Wannier rows are not): C04's unit, registered here as well -- relabelling and co-centred rotations must commute with that option too
from contracts.C04 import _uu_unit as _c04_uu      # noqa: E402
_c04_uu(True, prop="C05")
