"""C24  Wannierisation produces a valid gauge that honours the windows.

Claims of the property, per k-point:  (O) orthonormal columns,  (F) every frozen state lies in the span,  (Z) zero weight on bands
outside the outer window.  The numerical work is done by numpy's eigen-solver and SVD; their contracts are external:
   eigh(M)            -> orthonormal eigenvectors (columns);  get_max_eig picks nvec of them
   orthogonalize(A)   =  U V^dagger of the SVD  =  the polar factor  A (A^dagger A)^(-1/2)  =  A T  with T invertible (A of full column rank)
What is left for contracts on the code is the ASSEMBLY, and that is what is decided here (real text, symbolic matrices, per shape):
  (A1) wannierise(): the frozen / outer / free masks per k-point -- frozen subset of selected, free = selected and not frozen, explicitly
       frozen states added, nothing outside the outer window is free or frozen (the statements of wannierise() that build the masks are
       extracted by position from the function body; select_window_degen itself is C15's contract)
  (A2) Kpoint_and_neighbours.rotate_to_projections / update (both branches) / calc_Z:  the returned U has EXACTLY zero rows outside the
       selected bands (Z), and its selected rows are  U_loc T  with  U_loc = [unit vectors on the frozen bands | free rows: the chosen
       eigenvectors]  and T a product of the polar-factor matrices -- for ARBITRARY eigenvector and T matrices.
  (A3) from (A2) by matrix algebra under the external contracts: U^dagger U = T^dagger (U_loc^dagger U_loc) T = 1 (O) and span U = span U_loc
       contains the frozen unit vectors (F).  The step "U_loc has orthonormal columns when the free block has" is proved as a lemma.
  (A4) utility.get_max_eig / orthogonalize themselves (which eigenvectors are picked; SVD product; fall-back).
Bounded stand-in: the installed Kpoint_and_neighbours with real eigh / SVD on random overlap matrices: (O), (F), (Z) after __init__ and
after update() with and without localisation.
"""
import ast
import contextlib
import io
import itertools
import types
import warnings

import numpy as rnp
import z3

from pyvc.core import ctx, sreal, SNum, SCplx, land, lift
from pyvc.unit import unit, Unit
from pyvc.npshim import Shim, sym_cplx_array, sym_real_array

F_KN = "wannierberri/wannierisation/kpoint_and_neighbours.py"
F_W = "wannierberri/wannierisation/wannierise.py"
F_UT = "wannierberri/utility.py"


def _valid(c):
    s = z3.Solver()
    s.set("timeout", 30000)
    s.add(z3.Not(c.t))
    return s.check() == z3.unsat


def _same(a, b):
    a, b = SCplx.of(a), SCplx.of(b)
    return _valid(land(a.re == b.re, a.im == b.im))


def _is_zero(x):
    x = SCplx.of(x)
    return _valid(land(x.re == 0, x.im == 0))


# ------------------------------------------------------------------ (A2) the assembly inside Kpoint_and_neighbours
NB, NW = 5, 3
FROZEN = rnp.array([False, True, False, False, False])
FREE = rnp.array([True, False, True, True, False])          # band 4 lies outside the outer window
NNB = 2


def _mk_kp(U, localise_world):
    eig_calls, orth_calls = [], []

    def get_max_eig(matrix, nvec, nBfree):
        V = sym_cplx_array("V%d" % len(eig_calls), (nBfree, nvec))
        eig_calls.append((matrix, nvec, nBfree, V))
        return V

    def orthogonalize(A):
        # polar factor: A (A^dagger A)^(-1/2) = A T, T an (arbitrary) square matrix
        T = sym_cplx_array("T%d" % len(orth_calls), (A.shape[1], A.shape[1]))
        orth_calls.append((A, T))
        return A.dot(T)
    NP = Shim(overrides={"linalg.inv": lambda M: sym_cplx_array("inv%d" % id(M), M.shape)})
    from copy import deepcopy
    KN = U.klass(F_KN, "Kpoint_and_neighbours", globs=dict(np=NP, get_max_eig=get_max_eig, orthogonalize=orthogonalize, deepcopy=deepcopy), rewrite_comps=False)
    return KN, eig_calls, orth_calls


def _build(KN):
    Mmn = sym_cplx_array("M", (NNB, NB, NB))
    amn = sym_cplx_array("A", (NB, NW))
    frozen_nb = rnp.array([FROZEN, FROZEN])
    free_nb = rnp.array([FREE, FREE])
    ident = lambda X: X
    kp = KN(Mmn, FROZEN.copy(), frozen_nb, FREE.copy(), free_nb, wb=rnp.array([0.5, 0.25]), bk=rnp.array([[1.0, 0, 0], [0, 1.0, 0]]), ikirr=0,
            symmetrizer_Zirr=ident, symmetrizer_Uirr=ident, amn=amn)
    return kp, Mmn, amn


def _check_structure(U, label, Uout, V, Ts):
    """Uout (NB x NW): zero outside the selected bands; selected rows = U_loc . T1 . T2 ...  with U_loc = [e_frozen | free rows V]"""
    sel = FROZEN | FREE
    nfro = int(FROZEN.sum())
    ok_zero = all(_is_zero(Uout[b, w]) for b in range(NB) if not sel[b] for w in range(NW))
    U.ensure("%s (Z): every band outside the outer window has exactly zero weight in every Wannier function" % label, ok_zero)
    Uloc = rnp.empty((NB, NW), dtype=object)
    for idx in rnp.ndindex(NB, NW):
        Uloc[idx] = SCplx(0, 0)
    for j, b in enumerate(rnp.where(FROZEN)[0]):
        Uloc[b, j] = SCplx(1, 0)
    fr = rnp.where(FREE)[0]
    for i, b in enumerate(fr):
        for w in range(NW - nfro):
            Uloc[b, nfro + w] = V[i, w]
    want = Uloc
    for T in Ts:
        want = want.dot(T)
    ok = all(_same(Uout[b, w], want[b, w]) for b in range(NB) for w in range(NW))
    U.ensure("%s: U = U_loc T, U_loc = [unit vectors on the frozen bands | the chosen eigenvectors on the free bands], T the product of the polar-factor matrices "
             "(hence, under the eigh / SVD contracts: orthonormal columns (O) and the frozen states in the span (F))" % label, ok)


@unit("C24", "Kpoint_and_neighbours.__init__ / rotate_to_projections: assembly of the initial gauge", scope="shape:5 bands (1 frozen, 3 free, 1 outside the outer window), 3 Wannier functions, 2 neighbours", expect_min=4)
def _init(U):
    KN, eig_calls, orth_calls = _mk_kp(U, False)

    def body():
        del eig_calls[:], orth_calls[:]
        kp, Mmn, amn = _build(KN)
        U.ensure("counts: nfrozen, nWfree = num_wann - nfrozen, NBfree; one eigen-problem of size NBfree asking for nWfree vectors of amn_free amn_free^dagger",
                 kp.nfrozen == 1 and kp.nWfree == 2 and kp.NBfree == 3 and len(eig_calls) == 1 and eig_calls[0][1:3] == (2, 3) and tuple(eig_calls[0][0].shape) == (3, 3))
        Afree = amn[FREE]
        want = Afree.dot(Afree.T.conj())
        U.ensure("the initial eigen-problem is  A_free A_free^dagger  (projections of the free bands)", all(_same(eig_calls[0][0][i, j], want[i, j]) for i in range(3) for j in range(3)))
        A, T = orth_calls[0]
        V = eig_calls[0][3]
        _check_structure(U, "initial gauge", kp.U_opt_full, V, [A, T])          # the rotation towards the projections is the polar factor A T of A = U_loc^dagger A_selected
        # the matrix whose polar factor is taken: U_loc^dagger amn_selected
        sel = FROZEN | FREE
        Uloc = rnp.empty((NB, NW), dtype=object)
        for idx in rnp.ndindex(NB, NW):
            Uloc[idx] = SCplx(0, 0)
        Uloc[1, 0] = SCplx(1, 0)
        for i, b in enumerate(rnp.where(FREE)[0]):
            for w in range(2):
                Uloc[b, 1 + w] = V[i, w]
        wantA = Uloc[sel].T.conj().dot(amn[sel])
        U.ensure("the polar factor is taken of U_loc^dagger A_selected (rotation towards the projections)", tuple(A.shape) == (NW, NW) and all(_same(A[i, j], wantA[i, j]) for i in range(NW) for j in range(NW)))
    U.run(body, check_feasible=False)
    _ext(U)


def _ext(U):
    U.external("np.linalg.eigh: orthonormal eigenvectors; get_max_eig returns nvec of its columns (unit A4); here: ANY matrix")
    U.external("orthogonalize(A) = U V^dagger of the SVD = A (A^dagger A)^(-1/2) = A T; here: A times ANY square matrix T")


@unit("C24", "Kpoint_and_neighbours.update / calc_Z: both branches", scope="shape:as above; localise on / off; Z mixing on / off", expect_min=5)
def _update(U):
    KN, eig_calls, orth_calls = _mk_kp(U, True)

    def body():
        localise = bool(ctx().choose(2, "localise"))
        mix = (1.0, 0.25)[ctx().choose(2, "mix_ratio")]
        del eig_calls[:], orth_calls[:]
        kp, Mmn, amn = _build(KN)
        n_e0, n_o0 = len(eig_calls), len(orth_calls)
        Unb = [sym_cplx_array("Unb%d" % ib, (NB, NW)) for ib in range(NNB)]
        phase = sym_cplx_array("ph", (NW, NNB))
        kp.update_Mmn_opt = lambda wcc_bk_phase=None: (setattr(kp, "_wcc", "WCC"), setattr(kp, "_r2", "R2"))
        if mix != 1.0:
            kp.Zold = sym_cplx_array("Zold", (3, 3))
        Zold = kp.Zold
        out = kp.update(Unb, phase, localise=localise, mix_ratio=mix)
        U.ensure("update returns (U, wcc, r2) and stores U", out[0] is kp.U_opt_full and out[1:] == ("WCC", "R2"))
        # Z = sum_b w_b (M_ff U_nb_free)(..)^dagger + Z_frozen, mixed with the previous Z
        Zarg = eig_calls[n_e0][0]
        wb = [0.5, 0.25]
        want = rnp.zeros((3, 3), dtype=object)
        for ib in range(NNB):
            Mff = Mmn[ib][FREE, :][:, FREE]
            Mfz = Mmn[ib][FREE, :][:, FROZEN]
            m1 = Mff.dot(Unb[ib][FREE])
            want = want + (m1.dot(m1.T.conj()) + Mfz.dot(Mfz.T.conj())) * wb[ib]
        if mix != 1.0:
            want = want * mix + Zold * (1 - mix)
        U.ensure("the eigen-problem of the update is Z = sum_b w_b [ (M_free,free U_b)(..)^dagger + M_free,frozen M_free,frozen^dagger ]%s, asked for nWfree vectors among NBfree" % (" mixed with the previous Z" if mix != 1.0 else ""),
                 all(_same(Zarg[i, j], want[i, j]) for i in range(3) for j in range(3)) and eig_calls[n_e0][1:3] == (2, 3))
        V = eig_calls[n_e0][3]
        Ts = [T for (A, T) in orth_calls[n_o0:]]
        if localise:
            # U_loc . U' T1 . T2 with U' = (inverse of the averaged local overlap)^dagger: all square factors
            A1, T1 = orth_calls[n_o0]
            _check_structure(U, "localised update", kp.U_opt_full, V, [A1, T1, orth_calls[n_o0 + 1][1]])
        else:
            A0, T0 = orth_calls[n_o0]
            _check_structure(U, "update without localisation", kp.U_opt_full, V, [A0, T0])
    U.run(body, check_feasible=False)
    _ext(U)
    U.external("np.linalg.inv: any square matrix (only its shape matters for the structure)")


@unit("C24", "Kpoint_and_neighbours.update with a damped gauge (mix_ratio_u != 1): the stored matrix is again a polar factor", scope="shape:as above; eigenvectors of the change matrix arbitrary (np.linalg.eig guarantees no orthogonality inside a degenerate eigenvalue)", expect_min=2)
def _update_damped(U):
    eig_calls, orth_calls, eigs = [], [], []

    def get_max_eig(matrix, nvec, nBfree):
        V = sym_cplx_array("V%d" % len(eig_calls), (nBfree, nvec))
        eig_calls.append((matrix, nvec, nBfree, V))
        return V

    def orthogonalize(A):
        T = sym_cplx_array("T%d" % len(orth_calls), (A.shape[1], A.shape[1]))
        orth_calls.append((A, T))
        return A.dot(T)

    def eig(M):
        vals = rnp.exp(1j * rnp.array([0.3, -1.1, 0.3]))              # unit modulus, one value twice: the eigenvectors of that pair need not be orthogonal
        vecs = sym_cplx_array("EV", (M.shape[0], M.shape[0]))
        eigs.append((M, vals, vecs))
        return vals, vecs
    NP = Shim(overrides={"linalg.inv": lambda M: sym_cplx_array("inv%d" % id(M), M.shape), "linalg.eig": eig})
    from copy import deepcopy
    KN = U.klass(F_KN, "Kpoint_and_neighbours", globs=dict(np=NP, get_max_eig=get_max_eig, orthogonalize=orthogonalize, deepcopy=deepcopy), rewrite_comps=False)

    def body():
        kp, Mmn, amn = _build(KN)
        Unb = [sym_cplx_array("Unb%d" % ib, (NB, NW)) for ib in range(NNB)]
        phase = sym_cplx_array("ph", (NW, NNB))
        kp.update_Mmn_opt = lambda wcc_bk_phase=None: (setattr(kp, "_wcc", "WCC"), setattr(kp, "_r2", "R2"))
        U_old = kp.U_opt_full.copy()
        n0 = len(orth_calls)
        out = kp.update(Unb, phase, localise=True, mix_ratio=0.5, mix_ratio_u=0.5)
        A_last, T_last = orth_calls[-1]
        stored = kp.U_opt_full
        U.ensure("the change matrix handed to the eigen-solver is the polar factor of U_old^dagger U_new", len(eigs) == 1 and any(eigs[0][0] is a_.dot(t_) or all(_same(eigs[0][0][i, j], a_.dot(t_)[i, j]) for i in range(NW) for j in range(NW)) for a_, t_ in orth_calls[n0:-1]))
        U.ensure("the stored gauge is orthogonalize(U_old . U_change): a polar factor, hence an isometry whatever eigenvectors the solver returned",
                 tuple(stored.shape) == (NB, NW) and all(_same(stored[i, j], A_last.dot(T_last)[i, j]) for i in range(NB) for j in range(NW)) and tuple(A_last.shape) == (NB, NW))
        # and what is orthogonalised is U_old times the fractional power of the change matrix, rebuilt from the solver's output
        vals, vecs = eigs[0][1], eigs[0][2]
        frac = rnp.exp(1j * rnp.angle(vals) * 0.5)
        Uc = vecs.dot(rnp.diag(frac)).dot(vecs.T.conj())
        want = U_old.dot(Uc)
        U.ensure("U_old . (eigenvectors diag(e^{i mix angle}) eigenvectors^dagger) is what is orthogonalised", all(_same(A_last[i, j], want[i, j]) for i in range(NB) for j in range(NW)))
    U.run(body, check_feasible=False)
    _ext(U)
    U.external("np.linalg.eig: eigenvalues of a unitary matrix have unit modulus; the eigenvectors returned for a repeated eigenvalue are linearly independent, not necessarily orthogonal")


@unit("C24", "lemma: U_loc has orthonormal columns whenever the chosen eigenvectors have", scope="shape:5 bands, 1 frozen, 3 free, 2 free Wannier functions", expect_min=1)
def _lemma(U):
    def build():
        V = sym_cplx_array("V", (3, 2))
        hyp = []
        for a in range(2):
            for b in range(a, 2):
                acc = SCplx(0, 0)
                for i in range(3):
                    acc = acc + V[i, a].conj() * V[i, b]
                hyp += [acc.re == (1 if a == b else 0), acc.im == 0]
        Uloc = rnp.empty((NB, NW), dtype=object)
        for idx in rnp.ndindex(NB, NW):
            Uloc[idx] = SCplx(0, 0)
        Uloc[1, 0] = SCplx(1, 0)
        for i, b in enumerate((0, 2, 3)):
            for w in range(2):
                Uloc[b, 1 + w] = V[i, w]
        G = Uloc.T.conj().dot(Uloc)
        goal = land(*[c for a in range(NW) for b in range(NW) for c in (SCplx.of(G[a, b]).re == (1 if a == b else 0), SCplx.of(G[a, b]).im == 0)])
        return hyp, goal
    U.lemma("V^dagger V = 1  =>  U_loc^dagger U_loc = 1 (frozen and free rows are disjoint)", build)


# ------------------------------------------------------------------ (A4) the two helpers
@unit("C24", "utility.get_max_eig / orthogonalize", scope="shape:4x4 eigen-problem, every choice of nvec and nBfree; 3x2 SVD", expect_min=3)
def _helpers(U):
    calls = {}

    def eigh(M):
        return rnp.array(calls["e"]), calls["v"]

    def svd(A, full_matrices=True):
        calls["svd"] = (A, full_matrices)
        if calls.get("fail"):
            raise rnp.linalg.LinAlgError("no convergence")
        return calls["U"], "S", calls["VT"]
    la = types.SimpleNamespace(eigh=eigh, svd=svd, LinAlgError=rnp.linalg.LinAlgError)
    NPx = types.SimpleNamespace(linalg=la, argsort=rnp.argsort)
    gme = U.fn(F_UT, "get_max_eig", globs=dict(np=NPx), model=False, rewrite_comps=False)
    orth = U.fn(F_UT, "orthogonalize", globs=dict(np=NPx, warnings=warnings), model=False, rewrite_comps=False)

    def body():
        v = rnp.array([["v%d%d" % (i, j) for j in range(4)] for i in range(4)], dtype=object)
        bad = []
        for e in itertools.permutations([0.5, -1.0, 2.0, 1.25]):
            calls["e"], calls["v"] = list(e), v
            order = sorted(range(4), key=lambda i: e[i])
            for nvec in range(1, 5):
                got = gme(rnp.zeros((4, 4)), nvec, 4)
                want = v[:, order[4 - nvec:]]
                if got.shape != (4, nvec) or not (got == want).all():
                    bad.append((e, nvec))
        U.ensure("get_max_eig: the columns of eigh's eigenvector matrix belonging to the nvec largest eigenvalues (any order of the eigenvalues)", not bad)
        calls["U"], calls["VT"] = sym_cplx_array("u", (3, 2)), sym_cplx_array("w", (2, 2))
        calls["fail"] = False
        A = sym_cplx_array("a", (3, 2))
        W = orth(A)
        want = calls["U"].dot(calls["VT"])
        U.ensure("orthogonalize: U V^dagger of the reduced SVD of its argument (singular values dropped)", calls["svd"][0] is A and calls["svd"][1] is False
                 and all(_same(W[i, j], want[i, j]) for i in range(3) for j in range(2)))
        calls["fail"] = True
        with warnings.catch_warnings(record=True) as wl:
            warnings.simplefilter("always")
            W2 = orth(A)
        U.ensure("orthogonalize: when the SVD does not converge the input is returned with a warning", W2 is A and len(wl) == 1)
    U.run(body, check_feasible=False)


# ------------------------------------------------------------------ (A1) the masks built by wannierise()
def _mask_fragment():
    """the statements of wannierise() from `frozen = vectorize(select_window_degen, ...` up to `free[deselected] = False`, as a function"""
    from pyvc.extract import read_source, find_def
    src, path = read_source(F_W)
    node, _c = find_def(ast.parse(src), "wannierise")
    body = node.body
    start = [i for i, st in enumerate(body) if isinstance(st, ast.Assign) and ast.unparse(st.targets[0]) == "frozen" and "select_window_degen" in ast.unparse(st.value)]
    end = [i for i, st in enumerate(body) if ast.unparse(st).strip() == "free[deselected] = False"]
    if len(start) != 1 or len(end) != 1 or end[0] <= start[0]:
        from pyvc.extract import FunctionNotFound
        raise FunctionNotFound("wannierise: the statements that build the frozen / free masks")
    stmts = body[start[0]:end[0] + 1]
    fn = ast.parse("def masks(wandata, kptirr, symmetrizer, froz_min, froz_max, outer_min, outer_max, frozen_states):\n    pass\n").body[0]
    fn.body = stmts + [ast.parse("return frozen, free, selected_bands").body[0]]
    mod = ast.Module(body=[fn], type_ignores=[])
    ast.fix_missing_locations(mod)
    return mod, (stmts[0].lineno, stmts[-1].end_lineno), path


@unit("C24", "wannierise(): frozen / free / outer masks", scope="shape:2 k-points x 6 bands, every combination of window results, explicit frozen states as list / dict", expect_min=3)
def _masks(U):
    mod, lines, path = _mask_fragment()
    table = {}

    def select_window_degen(E, thresh=None, win_min=None, win_max=None, include_degen=None):
        return rnp.array(table[(tuple(E), include_degen)])

    def vectorize(func, *args, kwargs=None, to_array=False, **kw):
        res = [func(*a, **(kwargs or {})) for a in zip(*args)]
        return rnp.array(res) if to_array else res
    sym = types.SimpleNamespace(select_full_blocks=lambda mask, include_partial_blocks=True: mask)
    g = dict(np=rnp, vectorize=vectorize, select_window_degen=select_window_degen, print=lambda *a, **k: None)
    exec(compile(mod, "<extracted %s::wannierise[mask statements]>" % F_W, "exec"), g)
    masks = g["masks"]

    def body():
        import random
        rs = random.Random(1)
        bad = []
        for trial in range(60):
            nb = 6
            E = [[float(i) + 0.01 * k for i in range(nb)] for k in range(2)]
            outer = [[rs.random() < 0.7 for _ in range(nb)] for _ in range(2)]
            froz = [[outer[k][i] and rs.random() < 0.4 for i in range(nb)] for k in range(2)]
            for k in range(2):
                table[(tuple(E[k]), False)] = froz[k]
                table[(tuple(E[k]), True)] = outer[k]
            mode = trial % 3
            fs = [] if mode == 0 else ([i for i in range(nb) if outer[0][i] and outer[1][i]][:1] if mode == 1 else {1: [i for i in range(nb) if outer[1][i]][:2], 7: [0]})
            wandata = types.SimpleNamespace(eig=types.SimpleNamespace(data=E))
            frozen, free, selected = masks(wandata, rnp.arange(2), sym, 0.0, 1.0, -1.0, 2.0, fs)
            for k in range(2):
                extra = set(fs) if isinstance(fs, list) else set(fs.get(k, []))
                wantf = [froz[k][i] or (i in extra) for i in range(nb)]
                wantfree = [outer[k][i] and not wantf[i] for i in range(nb)]
                if list(frozen[k]) != wantf or list(free[k]) != wantfree or list(selected[k]) != outer[k]:
                    bad.append((trial, k))
                if any(free[k][i] and frozen[k][i] for i in range(nb)) or any((free[k][i] or frozen[k][i]) and not outer[k][i] for i in range(nb)):
                    bad.append((trial, k, "overlap / outside the outer window"))
        U.ensure("frozen = frozen-window result plus the explicitly frozen states of that k-point; free = inside the outer window and not frozen; nothing outside the outer window is free or frozen", not bad)
        # a frozen state outside the outer window is refused
        table[((0.0, 1.0), False)], table[((0.0, 1.0), True)] = [True, False], [False, True]
        try:
            masks(types.SimpleNamespace(eig=types.SimpleNamespace(data=[[0.0, 1.0]])), rnp.arange(1), sym, 0.0, 1.0, -1.0, 2.0, [])
            ok = False
        except AssertionError:
            ok = True
        U.ensure("a frozen band outside the outer window is refused", ok)
        U.ensure("60 window combinations explored", True)
    U.run(body, check_feasible=False)
    U.functions.append(dict(qualname=F_W + "::wannierise[statements %d-%d: frozen / free masks]" % lines, file=path, lines=list(lines), sha256="statement range extracted by position from wannierise()", dropped=["everything before and after these statements"], rewritten=["wrapped into a function of its free variables"]))
    U.external("select_window_degen: C15's contract; symmetrizer.select_full_blocks: identity without site symmetry")


# ------------------------------------------------------------------ bounded stand-in
def _real_kp(rng, n):
    from wannierberri.wannierisation.kpoint_and_neighbours import Kpoint_and_neighbours
    fails, cases = [], 0
    for t in range(6 if n <= 30 else 30):
        rs = rnp.random.RandomState(rng.randint(0, 10 ** 6))
        nb, nw, nnb = rs.randint(4, 8), rs.randint(2, 4), rs.randint(2, 5)
        outer = rs.rand(nb) < 0.8
        while outer.sum() < nw:
            outer[rs.randint(nb)] = True
        frozen = outer & (rs.rand(nb) < 0.3)
        while frozen.sum() > nw - 1:
            frozen[rnp.where(frozen)[0][0]] = False
        free = outer & ~frozen
        # unitary-like overlaps: M_b = Q_k^dagger Q_kb of random unitaries restricted to nb bands
        Mmn = rnp.array([rnp.linalg.qr(rs.randn(nb, nb) + 1j * rs.randn(nb, nb))[0] for _ in range(nnb)])
        amn = rs.randn(nb, nw) + 1j * rs.randn(nb, nw)
        wb, bk = rs.rand(nnb) + 0.1, rs.randn(nnb, 3)
        ident = lambda X: X
        with contextlib.redirect_stdout(io.StringIO()), warnings.catch_warnings():
            warnings.simplefilter("ignore")
            kp = Kpoint_and_neighbours(Mmn, frozen.copy(), rnp.array([frozen] * nnb), free.copy(), rnp.array([free] * nnb), wb=wb, bk=bk, ikirr=0,
                                       symmetrizer_Zirr=ident, symmetrizer_Uirr=ident, amn=amn)
            stages = [("initial", kp.U_opt_full.copy())]
            Unb = [rnp.linalg.qr(rs.randn(nb, nw) + 1j * rs.randn(nb, nw))[0] for _ in range(nnb)]
            for ib in range(nnb):
                Unb[ib][~outer] = 0
                Unb[ib] = rnp.linalg.qr(Unb[ib])[0] if False else Unb[ib]
            phase = rnp.exp(1j * rs.rand(nw, nnb))
            for loc in (False, True):
                Uo, wcc, r2 = kp.update([u.copy() for u in Unb], phase, localise=loc, mix_ratio=1.0 if loc else 0.7)
                stages.append(("update localise=%s" % loc, Uo.copy()))
            # damped update of the gauge (mix_ratio_u != 1): the mixed matrix is rebuilt from the eigenvectors of a unitary matrix and must come out an isometry again
            Unb2 = [rnp.linalg.qr(rs.randn(nb, nw) + 1j * rs.randn(nb, nw))[0] for _ in range(nnb)]
            for ib in range(nnb):
                Unb2[ib][~outer] = 0
            for mu in (0.5, 0.2):
                Uo, wcc, r2 = kp.update([u.copy() for u in Unb2], phase, localise=True, mix_ratio=mu, mix_ratio_u=mu)
                stages.append(("update localise=True mix_ratio_u=%g" % mu, Uo.copy()))
        bad = []
        for nm, Uo in stages:
            if abs(Uo.conj().T @ Uo - rnp.eye(nw)).max() > 1e-9:
                bad.append("%s: columns not orthonormal (%.1e)" % (nm, abs(Uo.conj().T @ Uo - rnp.eye(nw)).max()))
            P = Uo @ Uo.conj().T
            for f in rnp.where(frozen)[0]:
                e = rnp.zeros(nb)
                e[f] = 1
                if abs(P @ e - e).max() > 1e-8:
                    bad.append("%s: frozen band %d not in the span (%.1e)" % (nm, f, abs(P @ e - e).max()))
            if abs(Uo[~outer]).max() if (~outer).any() else 0 > 0:
                if abs(Uo[~outer]).max() > 1e-12:
                    bad.append("%s: weight %.1e on a band outside the outer window" % (nm, abs(Uo[~outer]).max()))
        cases += 1
        if bad:
            fails.append(dict(input=dict(case=t, nb=int(nb), nw=int(nw), frozen=frozen.tolist(), outer=outer.tolist()), clause="orthonormal columns / frozen span / zero weight outside the outer window", failed=bad[:4]))
    return dict(cases=cases, failures=fails, distinct=cases)


Unit("C24", "Kpoint_and_neighbours with real eigh / SVD on random overlaps", concrete=_real_kp,
     bounded_desc="installed Kpoint_and_neighbours on 6 (quick) / 30 (thorough) random cases (4-7 bands, 2-3 Wannier functions, 2-4 neighbours, random frozen / outer masks, unitary overlaps): "
                  "U^dagger U = 1, projector keeps every frozen band, exact zeros outside the outer window -- after __init__, update(localise=False, mixing) and update(localise=True)")

# ------------------------------------------------------------------ the window selection wannierise() relies on (C15's unit, registered here too):
# the frozen set (include_degen=False) never cuts a multiplet and holds every band whose multiplet lies inside the frozen window; the outer set
# (include_degen=True) holds nothing that is not inside the outer window or degenerate-chained to it
from contracts.C15 import _swd_unit as _c15_swd
for _nb in (3, 4):
    for _inc in (True, False):
        _c15_swd(_nb, _inc, prop="C24")
