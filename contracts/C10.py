"""C10  Adaptive refinement keeps the reported integral consistent.

Under contract: run_grid.py::run (the refinement loop, real text) composed with run_grid.py::process (real text, serial branch),
executed for EVERY refinement history of a stated small size with SYMBOLIC per-K results:
  initial list of 2-3 K-points with dyadic weights; 1-3 refinement iterations; at each iteration every choice of the refined point
  (steered through the points' `max` values), a refinement into 2 children, and every merge pattern allowed by the contract of
  exclude_equiv_points proved in C06 (no merge / a new child absorbed by an old evaluated point / by its sibling / by a dead point);
  storage modes memory, dump_results, allow_restart; with and without symmetry reduction.
Postcondition checked at EVERY savedata call (the returned and saved result) and on return:
      result_all == sum_i factor_i * result_i   over the current K-point list
(all weight changes in these histories are either 0 or far above the 1e-8 cut-off of the bookkeeping, so the equality is exact),
plus: every K-point is evaluated exactly once, points keep their indices, the weights written for a restart are the current ones.
Externals by contract: KpointBZ.divide / exclude_equiv_points (C06), grid.get_K_list, pickle/np.save (value round trip).
Bounded stand-in: real run() on a random model with a hooked savedata comparing with the recomputed weighted sum.
"""
import contextlib
import io
import os
import types
from collections.abc import Iterable
from fractions import Fraction

import numpy as rnp
import z3
from pyvc.core import ctx, sreal, land, lift, SNum
from pyvc.unit import unit, Unit

F = "wannierberri/run_grid.py"


class Res:
    """abstract result: a symbolic real (vector-space element); None is neutral as for the real result classes"""
    results = {}

    def __init__(self, t, hook=None):
        self.t = lift(t)
        self.hook = hook

    def __add__(self, o):
        if o is None or (isinstance(o, int) and o == 0):
            return self
        return Res(self.t + o.t, self.hook or o.hook)
    __radd__ = __add__

    def __mul__(self, c):
        return Res(self.t * float(c), self.hook)
    __rmul__ = __mul__

    @property
    def max(self):
        return rnp.array([1.0])

    def savedata(self, **kw):
        if self.hook:
            self.hook(self, kw)


class KP:
    def __init__(self, name, factor, world):
        self.name, self.factor, self.world = name, factor, world
        self.result = None
        self.was_evaluated_flag = False
        self.nset = 0
        self.dumped = self.cleared = False
        self.storage = None
        self.maxval = 0.0
        self.Kp_fullBZ = name

    def set_storage_path(self, p):
        self.storage = p

    def set_result(self, r):
        self.result, self.was_evaluated_flag = r, True
        self.nset += 1

    def get_result(self):
        if self.result is None and not self.dumped:
            raise RuntimeError("result not retrievable")
        return self.saved if self.result is None else self.result

    def get_result_factor(self):
        return self.get_result() * self.factor

    def dump_result(self):
        self.saved, self.result, self.dumped = self.result, None, True

    def clear_result(self):
        self.result, self.cleared = None, True

    def set_factor(self, f):
        self.factor = f

    @property
    def max(self):
        assert self.was_evaluated_flag
        return rnp.array([self.maxval * (1 if self.factor else 0) + (1e-3 if self.factor else 0)])

    def divide(self, ndiv=None, periodic=None, use_symmetry=True):
        # contract of divide (C06): children carry factor/n each, the parent keeps 0
        kids = [KP("%s.%d" % (self.name, j), self.factor / 2, self.world) for j in range(2)]
        self.factor = 0.0
        self.world["divided"].append(self.name)
        return kids


def _mk_unit(n0, niter, storage, sym, tiers, prop="C10", klist_part=10):
    @unit(prop, "run[%d initial points,%d refinement iterations,%s,%s]" % (n0, niter, storage, ("symmetry" if sym else "no symmetry") + (",Klist_part=%d" % klist_part if klist_part != 10 else "")),
          scope="shape:%d initial K-points, %d iterations, all refinement/merge histories, Klist_part=%d" % (n0, niter, klist_part), expect_min=4, tiers=tiers)
    def _r(U):
        world = {}

        class Path:
            pass

        class Grid:
            str_short = "stub grid"
            div = rnp.array([2, 1, 1])

            def get_K_list(self, use_symmetry=True, k_batch=None):
                return world["K0"]

        class GridTetra:
            pass

        def exclude(K_list, new_points=None):
            # contract of exclude_equiv_points (C06): some NEW points are absorbed by an equivalent earlier point and deleted;
            # total weight conserved; old points keep their index.  Which ones: every pattern is explored.
            n = len(K_list)
            first_new = n - new_points
            new = list(range(first_new, n))
            patterns = [None]
            for c in new:
                for tgt in range(0, c):
                    patterns.append((c, tgt))
            if new_points:
                patterns += [("all", tgt) for tgt in range(first_new)]          # EVERY new point absorbed by an earlier one: nothing is left to evaluate in this iteration
            pat = patterns[ctx().choose(len(patterns), "merge pattern")]
            world["merges"].append(pat)
            if pat is not None and pat[0] == "all":
                for c in reversed(new):
                    K_list[pat[1]].factor = K_list[pat[1]].factor + K_list[c].factor
                    del K_list[c]
            elif pat is not None:
                c, tgt = pat
                K_list[tgt].factor = K_list[tgt].factor + K_list[c].factor
                del K_list[c]
        written = []
        proc = U.fn(F, "process", globs=dict(np=rnp, time=lambda: 0.0, print=lambda *a, **k: None, print_progress=lambda **k: 0, get_ray_cpus_count=lambda: 1), model=False)
        fakeos = types.SimpleNamespace(path=os.path, makedirs=lambda p, **k: None)
        f = U.fn(F, "run", globs=dict(np=rnp, os=fakeos, time=lambda: 0.0, print=lambda *a, **k: None, cprint=lambda *a, **k: None, pickle=types.SimpleNamespace(dump=lambda o, fw: world["pickled"].append(len(o)), load=None),
                                      open=lambda p, m="r": types.SimpleNamespace(close=lambda: None), glob=None, Iterable=Iterable,
                                      check_ray_initialized=lambda: False, get_data_k_class_from_system=lambda s: "DK", print_calculators=lambda c: None,
                                      Path=Path, Grid=Grid, GridTetra=GridTetra, TABresult=type("TAB", (), {}), ResultDict=None, remove_dir=lambda p: None,
                                      write_factors=lambda file_Klist_path, factors, iter: written.append((iter, [float(x) for x in factors])),
                                      read_factors=None, exclude_equiv_points=exclude, process=proc,
                                      get_Kpoint_storage_path=lambda file_Klist_path, ik: "kp%d" % ik), model=False)

        def body():
            del written[:]
            world.update(divided=[], merges=[], pickled=[], saves=[])
            w0 = {2: [0.5, 0.5], 3: [0.5, 0.25, 0.25], 4: [0.75, 0.25 - 3 * 2.0 ** -24, 2.0 ** -23, 2.0 ** -24]}[n0]       # 4: dyadic weights (exact in floats) far below 1e-6 but above the 1e-8 cut-off
            world["K0"] = [KP("K%d" % i, w0[i], world) for i in range(n0)]
            K_all = world["K0"]

            def hook(res, kw):
                # the invariant, at the moment the result is saved
                tot = 0
                for K in K_all:
                    if K.was_evaluated_flag:
                        tot = tot + sreal("res_" + K.name) * K.factor        # ghost: the result computed for this K-point
                    else:
                        world["saves"].append(("unevaluated point at save time", K.name))
                world["saves"].append((kw.get("i_iter"), res.t, tot, [(K.name, K.factor) for K in K_all]))

            counter = [0]

            def paralfunc_results(K):
                counter[0] += 1
                return Res(sreal("res_" + K.name), hook)
            # steer which point is refined: the point with the largest `max` among those alive
            orig_process = proc

            def steer():
                alive = [K for K in K_all if K.factor]
                pick = alive[ctx().choose(len(alive), "refined point")]
                for K in K_all:
                    K.maxval = 10.0 / K.factor if K is pick else 0.0
            symm_calls = []
            system = types.SimpleNamespace(periodic=rnp.array([True] * 3), pointgroup=types.SimpleNamespace(symmetrize=lambda r: (symm_calls.append(r), r)[1]))

            class Calc:
                allow_grid = True
                allow_path = False
                comment = ""
            dump = storage == "dump"
            allow = storage in ("dump", "restart")
            # run() builds its own paralfunc; its body (data_k_class, ResultDict, symmetrize) is replaced through the calculators/
            # data_k_class hooks: data_k_class(...) returns the K-point, the single calculator returns that point's symbolic result
            g = f.raw.__globals__
            g["ResultDict"] = lambda d: list(d.values())[0]
            calculators = {"c": lambda data: paralfunc_results(data)}
            calc = Calc()
            calc.__call__ = None
            cdict = {"c": type("C", (Calc,), {"__call__": lambda self, data: paralfunc_results(data)})()}
            # steering happens when the K-points are asked for `max`: wrap via the list object
            class KL(list):
                pass
            old_exclude = g["exclude_equiv_points"]
            steer_state = {"done": -1}
            realKP_max = KP.max

            def max_prop(self):
                it = len(world["saves"])
                if steer_state["done"] != it:
                    steer_state["done"] = it
                    steer()
                return realKP_max.fget(self)
            KP.max = property(max_prop)
            try:
                out = f(system, Grid(), cdict, adpt_num_iter=niter, use_irred_kpt=sym, symmetrize=False, parallel=False,
                        allow_restart=(allow and not dump), dump_results=dump,        # dump_results alone implies the restart files adpt_mesh=2, adpt_fac=1, file_Klist_path="/klist", Klist_part=klist_part,
                        data_k_class=lambda system, dK=None, grid=None, Kpoint=None, **kw: Kpoint)
            finally:
                KP.max = realKP_max
            saves = [s_ for s_ in world["saves"] if len(s_) == 4]
            U.ensure("no K-point is unevaluated when a result is saved", not [s_ for s_ in world["saves"] if len(s_) == 2])
            U.ensure("a result is saved after every iteration (%d saves)" % (niter + 1), [s_[0] for s_ in saves] == list(range(niter + 1)))
            for it, got, want, facs in saves:
                U.ensure("iteration %d: saved result == sum_i factor_i * result_i over the current K-point list" % it, lambda got=got, want=want: lift(got) == lift(want))
            tot = 0
            for K in K_all:
                tot = tot + sreal("res_" + K.name) * K.factor
            U.ensure("returned result == sum_i factor_i * result_i", lambda: out.t == lift(tot))
            U.ensure("every K-point was evaluated exactly once", all(K.nset == 1 for K in K_all) and counter[0] == len(K_all))
            U.ensure("irreducible K-points force the per-K symmetrisation (also when symmetrize=False is passed); without them and without symmetrize nothing is symmetrised",
                     len(symm_calls) == (len(K_all) if sym else 0))
            U.ensure("total weight stays 1", abs(sum(K.factor for K in K_all) - 1.0) < 1e-12)
            if allow:
                U.ensure("restart weights are written after every iteration and equal the current weights at that time",
                         [w[0] for w in written] == list(range(niter + 1)) and all(w[1] == [fc for _, fc in s_[3]][:len(w[1])] and len(w[1]) == len(s_[3]) for w, s_ in zip(written, saves)))
                U.ensure("the K-point list is appended to the restart file piecewise without gaps", sum(world["pickled"]) == len(K_all))
            if dump:
                U.ensure("dump_results: every result is dumped", all(K.dumped for K in K_all))
        U.run(body, check_feasible=False, max_paths=200000)
        U.external("KpointBZ.divide: children carry weight/n, parent weight 0 (C06); exclude_equiv_points: a new point absorbed by an earlier equivalent point and deleted, weights conserved, old indices kept (C06)")


# the callee contract run() relies on (children carry weight/n and NO result, the parent weight 0), discharged on divide itself (unit shared with C06)
from contracts.C06 import _divide_unit as _c06_divide
_c06_divide((3, 3, 3), (True, True, True), prop="C10")
_c06_divide((2, 2, 1), (True, True, False), prop="C10")

_mk_unit(2, 1, "memory", True, ("quick", "thorough"))
_mk_unit(2, 2, "memory", True, ("quick", "thorough"))
_mk_unit(2, 2, "restart", True, ("quick", "thorough"))
_mk_unit(2, 2, "dump", True, ("quick", "thorough"))
_mk_unit(3, 2, "memory", False, ("quick", "thorough"))
_mk_unit(2, 3, "restart", True, ("thorough",))
_mk_unit(3, 3, "memory", True, ("thorough",))
_mk_unit(2, 0, "memory", True, ("quick", "thorough"))
_mk_unit(2, 0, "dump", True, ("quick", "thorough"))
_mk_unit(4, 2, "memory", True, ("quick", "thorough"))


def _mk_restart_unit(n0, niter1, back, prop="C10", legs=1):
    """phase 1: a run with allow_restart (every history); phase 2: run(restart=True) from the iteration `back` steps before the last stored
    one, one more refinement iteration -- the state is rebuilt from what phase 1 wrote (pickled K-point chunks, per-iteration weights)"""
    @unit(prop, "run+restart[%d points,%d iterations, restart %d before last%s]" % (n0, niter1, back, ", then a second restart" if legs == 2 else ""),
          scope="shape:%d initial K-points, %d+1 iterations, all histories, restart from iteration last-%d" % (n0, niter1, back), expect_min=3)
    def _r(U):
        import copy
        world = {}

        class Path:
            pass

        class Grid:
            str_short = "stub grid"
            div = rnp.array([2, 1, 1])

            def get_K_list(self, use_symmetry=True, k_batch=None):
                return world["K0"]

        class GridTetra:
            pass

        def exclude(K_list, new_points=None):
            n = len(K_list)
            first_new = n - new_points
            patterns = [None] + [(c, tgt) for c in range(first_new, n) for tgt in range(0, c)]
            if world.get("phase") == 2:        # after a restart: three representative merge patterns (none / into the oldest point / into the sibling)
                patterns = [patterns[0]] + ([patterns[1], patterns[-1]] if len(patterns) > 1 else [])
            pat = patterns[ctx().choose(len(patterns), "merge pattern")] if world.get("phase") != 3 else patterns[-1]
            if pat is not None:
                c, tgt = pat
                K_list[tgt].factor = K_list[tgt].factor + K_list[c].factor
                del K_list[c]
        written = {}
        chunks = []
        proc = U.fn(F, "process", globs=dict(np=rnp, time=lambda: 0.0, print=lambda *a, **k: None, print_progress=lambda **k: 0, get_ray_cpus_count=lambda: 1), model=False)
        fakeos = types.SimpleNamespace(path=os.path, makedirs=lambda p, **k: None)
        loads = []

        def pload(fr):
            if not loads:
                raise EOFError()
            return loads.pop(0)

        def rfac(file_Klist_path, iter):
            last = max(written)
            it = iter if iter >= 0 else last + iter + 1
            return it, rnp.array(written[it])
        g = dict(np=rnp, os=fakeos, time=lambda: 0.0, print=lambda *a, **k: None, cprint=lambda *a, **k: None,
                 pickle=types.SimpleNamespace(dump=lambda o, fw: chunks.append([copy.copy(k) for k in o]), load=pload),
                 open=lambda p, m="r": _FH(), glob=None, Iterable=Iterable, check_ray_initialized=lambda: False,
                 get_data_k_class_from_system=lambda s_: "DK", print_calculators=lambda c: None, Path=Path, Grid=Grid, GridTetra=GridTetra,
                 TABresult=type("TAB", (), {}), ResultDict=lambda d: list(d.values())[0], remove_dir=lambda p: None,
                 write_factors=lambda file_Klist_path, factors, iter: written.__setitem__(iter, [float(x) for x in factors]),
                 read_factors=rfac, exclude_equiv_points=exclude, process=proc, get_Kpoint_storage_path=lambda file_Klist_path, ik: "kp%d" % ik)
        f = U.fn(F, "run", globs=g, model=False)

        def body():
            written.clear()
            del chunks[:]
            del loads[:]
            world.update(divided=[], merges=[], pickled=[], saves=[], phase=1)
            w0 = {2: [0.5, 0.5], 3: [0.5, 0.25, 0.25]}[n0]
            world["K0"] = [KP("K%d" % i, w0[i], world) for i in range(n0)]
            saves = []
            current = {"K": world["K0"]}

            def hook(res, kw):
                tot = 0
                for K in current["K"]:
                    tot = tot + sreal("res_" + K.name) * K.factor
                saves.append((world["phase"], kw.get("i_iter"), res.t, tot))
            steer_state = {"done": None}
            realKP_max = KP.max

            def steer(Ks):
                alive = [K for K in Ks if K.factor]
                pick = alive[ctx().choose(len(alive), "refined point")] if world["phase"] != 3 else alive[-1]
                for K in Ks:
                    K.maxval = 10.0 / K.factor if K is pick else 0.0

            def max_prop(self):
                key = (world["phase"], len(saves), len(current["K"]))
                if steer_state["done"] != key:
                    steer_state["done"] = key
                    steer(current["K"])
                return realKP_max.fget(self)
            system = types.SimpleNamespace(periodic=rnp.array([True] * 3), pointgroup=types.SimpleNamespace(symmetrize=lambda r: r))

            class C:
                allow_grid, allow_path, comment = True, False, ""

                def __call__(self, data):
                    return Res(sreal("res_" + data.name), hook)
            orig_divide = KP.divide
            cnt = [0]

            def divide(self, ndiv=None, periodic=None, use_symmetry=True):
                cnt[0] += 1
                kids = [KP("%s.p%d_%d_%d" % (self.name, world["phase"], cnt[0], j), self.factor / 2, world) for j in range(2)]
                self.factor = 0.0
                return kids
            KP.max = property(max_prop)
            KP.divide = divide
            try:
                f(system, Grid(), {"c": C()}, adpt_num_iter=niter1, use_irred_kpt=True, symmetrize=False, parallel=False, allow_restart=True,
                  adpt_mesh=2, adpt_fac=1, file_Klist_path="/klist", data_k_class=lambda system, dK=None, grid=None, Kpoint=None, **kw: Kpoint)
                # ---- phase 2: restart
                world["phase"] = 2
                loads.extend([[copy.copy(k) for k in ch] for ch in chunks])
                loaded = [k for ch in loads for k in ch]
                current["K"] = loaded
                nsaves1 = len(saves)
                r_iter = max(written) - back

                class KL(list):
                    pass
                # run() builds K_list itself from pickle.load; keep a handle on it through process()
                def proc2(*a, **k):
                    current["K"] = k["K_list"]
                    return proc(*a, **k)
                f.raw.__globals__["process"] = proc2
                try:
                    out = f(system, Grid(), {"c": C()}, adpt_num_iter=1, use_irred_kpt=True, symmetrize=False, parallel=False, allow_restart=True,
                            restart=True, restart_iteration=(-1 - back), adpt_mesh=2, adpt_fac=1, file_Klist_path="/klist",
                            data_k_class=lambda system, dK=None, grid=None, Kpoint=None, **kw: Kpoint)
                finally:
                    f.raw.__globals__["process"] = proc
                # the stream on disk must hold every K-point created so far, once, in list order (append-only pickle)
                names_disk = [k.name for ch in chunks for k in ch]
                world["disk_ok"] = names_disk == [k.name for k in current["K"]]
                world["written_keys"] = sorted(written)
                world["expect_keys"] = list(range(0, r_iter + 2))
                world["last_written_ok"] = written.get(r_iter + 1) == [k.factor for k in current["K"]]
                if legs == 2:
                    world["phase"] = 3
                    del loads[:]
                    loads.extend([[copy.copy(k) for k in ch] for ch in chunks])
                    f.raw.__globals__["process"] = proc2
                    try:
                        out = f(system, Grid(), {"c": C()}, adpt_num_iter=1, use_irred_kpt=True, symmetrize=False, parallel=False, allow_restart=True,
                                restart=True, restart_iteration=-1, adpt_mesh=2, adpt_fac=1, file_Klist_path="/klist",
                                data_k_class=lambda system, dK=None, grid=None, Kpoint=None, **kw: Kpoint)
                    finally:
                        f.raw.__globals__["process"] = proc
            finally:
                KP.max = realKP_max
                KP.divide = orig_divide
            Kfin = current["K"]
            U.ensure("the K-point file holds every K-point created so far exactly once, in list order", world["disk_ok"])
            U.ensure("weights are written under the GLOBAL iteration number (restart iteration + local iteration), one file per iteration",
                     [k for k in world["written_keys"] if k <= max(world["expect_keys"])] == world["expect_keys"] and world["last_written_ok"])
            for ph, it, got, want in saves:
                U.ensure("phase %d, iteration %s: saved result == sum_i factor_i * result_i" % (ph, it), lambda got=got, want=want: lift(got) == lift(want))
            tot = 0
            for K in Kfin:
                tot = tot + sreal("res_" + K.name) * K.factor
            U.ensure("after the restart: returned result == sum_i factor_i * result_i over the rebuilt + refined K-point list", lambda: out.t == lift(tot))
            U.ensure("total weight of the rebuilt list is 1 (points created after the restart iteration carry weight 0)", abs(sum(K.factor for K in Kfin) - 1.0) < 1e-12)
            U.ensure("at least one result is saved after the restart", len(saves) > nsaves1)
        U.run(body, check_feasible=False, max_paths=300000)
        U.external("pickle round trip of K-point chunks; read_factors returns the weights written for the requested iteration (C11)")


class _FH:
    def close(self): pass
    def __enter__(self): return self
    def __exit__(self, *a): return False


_mk_restart_unit(2, 1, 0)
_mk_restart_unit(2, 2, 1)
_mk_restart_unit(2, 2, 2)


def _real_run(rng, n):
    import importlib
    import shutil
    import tempfile
    import wannierberri as wb
    from wannierberri.system.system_R import System_R
    from wannierberri.result import ResultDict
    rg = importlib.import_module("wannierberri.run_grid")
    fails, cases = [], 0
    for storage in (("memory", "dump") if n <= 30 else ("memory", "dump", "restart", "memory")):
        rnp.random.seed(rng.randint(0, 10 ** 6))
        d = tempfile.mkdtemp(prefix="verif_c10_")
        seen = []
        orig = ResultDict.savedata
        cur = {}

        def hooked(self, *a, **k):
            seen.append(self)
            return orig(self, *a, **k)
        try:
            with contextlib.redirect_stdout(io.StringIO()):
                system = System_R.from_random(num_wann=3, nRvec=27, max_R=1, berry=True)
                Ef = rnp.linspace(-1, 1, 5)
                calcs = {"dos": wb.calculators.static.DOS(Efermi=Ef, tetra=False), "ahc": wb.calculators.static.AHC(Efermi=Ef)}
                klists = []
                real_excl = rg.exclude_equiv_points
                ResultDict.savedata = hooked
                # capture the K-point list object through process()
                real_proc = rg.process

                def proc(*a, **k):
                    klists.append(k.get("K_list", a[1] if len(a) > 1 else None))
                    return real_proc(*a, **k)
                rg.process = proc
                bad = []

                def check(self, *a, **k):
                    K_list = klists[-1]
                    tot = None
                    for K in K_list:
                        r = K.get_result() * K.factor
                        tot = r if tot is None else tot + r
                    for key in ("dos", "ahc"):
                        x, y = self.results[key].data, tot.results[key].data
                        if not rnp.allclose(x, y, rtol=1e-7, atol=1e-9 * (1 + abs(y).max())):
                            bad.append("%s after iteration %s: max diff %.2e" % (key, k.get("i_iter"), abs(x - y).max()))
                    return orig(self, *a, **k)
                ResultDict.savedata = check
                wb.run(system, wb.Grid(system, NK=4, NKFFT=2), calcs, parallel=False, fout_name=os.path.join(d, "res"), file_Klist_path=os.path.join(d, "kl"),
                       adpt_num_iter=3, adpt_fac=2, use_irred_kpt=True, symmetrize=True, allow_restart=(storage == "restart"), dump_results=(storage == "dump"))
        finally:
            ResultDict.savedata = orig
            rg.process = real_proc
            shutil.rmtree(d, ignore_errors=True)
        cases += 1
        if bad:
            fails.append(dict(input=dict(storage=storage), clause="saved result == sum factor*result", failed=bad[:3]))
    return dict(cases=cases, failures=fails, distinct=cases)


Unit("C10", "run() saved result == weighted sum [real run]", concrete=_real_run,
     bounded_desc="random 3-band System_R, 4x4x4 grid, 3 refinement iterations with 2 refined points each, memory / dump_results (/ allow_restart) storage; rtol 1e-7")


class _PickRes:
    """a picklable result object"""

    def __init__(self, v, mx):
        self.v, self.max = v, mx

    def __mul__(self, f):
        return ("scaled", self.v, f)


# ------------------------------------------------------------------ the K-point object's own storage contract (what the KP stand-in above assumes)
@unit("C10", "KpointBZ result storage: set / get / dump / clear / factor", scope="shape:one K-point, every storage history", expect_min=6)
def _kp_storage(U):
    import pickle
    import tempfile
    import shutil
    FKP = "wannierberri/grid/Kpoint.py"
    KB = U.klass(FKP, "KpointBZ", globs=dict(np=rnp, pickle=pickle, SYMMETRY_PRECISION=1e-6), rewrite_comps=False)

    Res = _PickRes

    def body():
        tmp = tempfile.mkdtemp(prefix="verif_c10_")
        try:
            K = KB(K=rnp.array([0.25, 0.0, 0.5]), dK=rnp.array([0.5, 1.0, 0.5]), NKFFT=rnp.array([2, 1, 1]), factor=0.125, pointgroup=None)
            try:
                K.get_result()
                U.ensure("get_result before any evaluation is refused", False)
            except (RuntimeError, AttributeError):
                # observation: a never-evaluated, never-cleared K-point has no `res_cleared_flag` (assigned only in clear_result), so the
                # refusal is an AttributeError instead of the intended RuntimeError -- an error either way
                U.ensure("get_result before any evaluation is refused", True)
            r = Res("payload", rnp.array([3.0, 7.0]))
            K.set_result(r)
            U.ensure("set_result stores the result, marks the point evaluated and remembers the result's max", K.get_result() is r and K.was_evaluated_flag and rnp.array_equal(K._max, [3.0, 7.0]))
            U.ensure("max = result.max * factor; get_result_factor = result * factor", rnp.allclose(K.max, [0.375, 0.875]) and K.get_result_factor() == ("scaled", "payload", 0.125))
            K.set_factor(0.5)
            K.add_factor(0.25)
            U.ensure("set_factor / add_factor change only the weight", K.factor == 0.75 and K.get_result() is r and K.get_result_factor() == ("scaled", "payload", 0.75))
            how = ctx().choose(3, "storage history")
            if how == 0:                                  # dump: the result leaves memory and comes back from the file
                K.set_storage_path(__import__("os").path.join(tmp, "k.pickle"))
                K.dump_result()
                back = K.get_result()
                U.ensure("dump_result: memory released, the same result is returned from the file (also after a second dump)",
                         K.result is None and K.res_dumped_flag and back.v == "payload" and rnp.array_equal(back.max, [3.0, 7.0]) and (K.dump_result() is None) and K.get_result().v == "payload")
                U.ensure("max and the evaluated flag survive the dump", rnp.allclose(K.max, [2.25, 5.25]) and K.was_evaluated_flag)
            elif how == 1:                                # clear without dump: the result is gone and asking for it is an error, the max survives
                K.clear_result()
                try:
                    K.get_result()
                    ok = False
                except RuntimeError:
                    ok = True
                U.ensure("clear_result without a dump: the result cannot be retrieved (error, not a stale value); max survives", ok and K.result is None and rnp.allclose(K.max, [2.25, 5.25]))
            else:                                         # a second evaluation replaces the first
                r2 = Res("second", rnp.array([1.0, 1.0]))
                K.set_result(r2)
                U.ensure("a second set_result replaces result and max", K.get_result() is r2 and rnp.allclose(K.max, [0.75, 0.75]))
            U.ensure("Kp_fullBZ = K / NKFFT", rnp.allclose(K.Kp_fullBZ, [0.125, 0.0, 0.5]))
        finally:
            shutil.rmtree(tmp, ignore_errors=True)
    U.run(body, check_feasible=False)
    U.external("pickle.dump / pickle.load: value round trip of the result object")
