"""C15  Degenerate multiplets are never split.

Under contract:
  grid/tetrahedron.py::get_borders          unbounded (any number of bands): blocks partition [0,n), a position is a border
                                            iff the gap below it exceeds the threshold (and it is even with Kramers)
  utility.py::find_degen                    unbounded, same statement
  utility.py::select_window_degen           per shape NB = 1..6, all real energies/thresholds/windows, both include_degen
  grid/tetrahedron.py::get_bands_in_range   per shape NB = 1..4: every returned block is a get_borders block that meets the window
"""
import itertools
from fractions import Fraction

import z3
from pyvc.core import (ctx, lift, ite, land, lor, implies, forall, sreal, sint, sbool, fresh_int, lnot, SNum, SBool, conc)
from pyvc.arr import sym_array, SArr
from pyvc.unit import unit, Unit
from pyvc.npmodel import np as NP

FT = "wannierberri/grid/tetrahedron.py"
FU = "wannierberri/utility.py"


def _borders_unit(relpath, qual, kramers, has_kramers_arg):
    name = "%s[%s]" % (qual, "Kramers" if kramers else "plain")

    def prove(U):
        f = U.fn(relpath, qual, globs=dict(np=NP))

        def body():
            n = sint("n")
            thr = sreal("thr")
            A = sym_array("A", (n,), "real")
            ctx().assume(n >= 1)
            if kramers:
                ctx().assume(n % 2 == 0)        # precondition taken from the call sites: Kramers pairs => even band count
            res = f(A, thr, degen_Kramers=True) if kramers else f(A, thr)
            L = res.sym_len()
            gap = lambda x: A.get((x,)) - A.get((x - 1,))
            blk = lambda p: res.sym_at(p)
            U.ensure("at least one block", L >= 1)
            U.ensure("first block starts at 0", lambda: blk(0)[0] == 0)
            U.ensure("last block ends at n", lambda: blk(L - 1)[1] == n)
            U.ensure("blocks are non-empty and contiguous (disjoint, covering)",
                     forall(lambda p: implies(land(p >= 0, p < L), land(blk(p)[0] < blk(p)[1],
                                                                         implies(p + 1 < L, blk(p)[1] == blk(p + 1)[0]))), name="contig"))
            U.ensure("internal gaps are at most the threshold" + (" (at even positions)" if kramers else ""),
                     forall(lambda p, x: implies(land(p >= 0, p < L, blk(p)[0] < x, x < blk(p)[1]),
                                                 lor(gap(x) <= thr, x % 2 == 1) if kramers else gap(x) <= thr),
                            sorts=("int", "int"), name="internal"))
            U.ensure("block boundaries have a gap above the threshold" + (" and are even" if kramers else ""),
                     forall(lambda p: implies(land(p >= 1, p < L), land(gap(blk(p)[0]) > thr, blk(p)[0] % 2 == 0) if kramers
                                              else gap(blk(p)[0]) > thr), name="boundary"))
            return res
        U.run(body)
        U.external("np.where(mask)[0]: ascending indices where the mask is true; zip(b, b[1:]): consecutive pairs")
        if kramers:
            U.assumption("get_borders(degen_Kramers=True) is called with an even number of bands (with an odd number the last border n is filtered out)")

    def concrete(rng, ncases):
        import numpy as np
        import importlib
        mod = importlib.import_module(relpath[:-3].replace("/", "."))
        fn = getattr(mod, qual)
        fails = []
        for t in range(ncases):
            n = rng.randint(1, 9)
            if kramers:
                n = 2 * rng.randint(1, 4)
            # energies on a dyadic grid (exact in floats) so that gaps EQUAL to the threshold occur
            A = np.sort(np.array([rng.choice([0.0, 0.0625, 0.125, 0.25, 1.0]) + rng.randint(0, 2) for _ in range(n)]))
            thr = rng.choice([0.0625, 0.125, 0.03125, -1, 0.75])
            res, err = None, None
            try:
                res = fn(A, thr, degen_Kramers=True) if kramers else fn(A, thr)
                ok = res[0][0] == 0 and res[-1][1] == n and all(a[1] == b[0] for a, b in zip(res, res[1:])) and all(a[0] < a[1] for a in res)
                for (b1, b2) in res:
                    for x in range(b1 + 1, b2):
                        ok &= bool(A[x] - A[x - 1] <= thr) or (kramers and x % 2 == 1)
                for (b1, b2) in res[1:]:
                    ok &= bool(A[b1] - A[b1 - 1] > thr) and (not kramers or b1 % 2 == 0)
            except Exception as e:
                ok, err = False, "%s: %s" % (type(e).__name__, e)
            if not ok:
                fails.append(dict(input=dict(A=A.tolist(), thr=thr, kramers=kramers), got=None if res is None else [list(map(int, r)) for r in res], error=err))
        return dict(cases=ncases, failures=fails, distinct=ncases)
    Unit("C15", name, prove=prove, concrete=concrete, array_mode="uf", expect_min=5,
         bounded_desc="random sorted energies with clustered values, n <= 9")


_borders_unit(FT, "get_borders", False, True)
_borders_unit(FT, "get_borders", True, True)
_borders_unit(FU, "find_degen", False, False)


# ------------------------------------------------------------------ select_window_degen, per shape
def _swd_post(E, thr, wmin, wmax, include, res, NB, getE=lambda E, i: E[i], getR=lambda r, i: r[i]):
    """the property's clauses, polymorphic (concrete floats or symbolic); returns list of (name, truth value)"""
    out = []
    e = [getE(E, i) for i in range(NB)]
    r = [getR(res, i) for i in range(NB)]
    inwin = [land(e[i] <= wmax, e[i] >= wmin) for i in range(NB)]
    # never separates bands closer than the threshold
    out.append(("no multiplet split", land(*[implies(e[i + 1] - e[i] < thr, r[i] == r[i + 1]) for i in range(NB - 1)]) if NB > 1 else True))
    if include:
        out.append(("include_degen: every band inside the window is selected", land(*[implies(inwin[i], r[i]) for i in range(NB)])))
        # minimality: a selected band outside the window is chained to the window by small gaps
        for i in range(NB):
            up = lor(*[land(inwin[j], *[e[k + 1] - e[k] < thr for k in range(j, i)]) for j in range(0, i)]) if i > 0 else False
            dn = lor(*[land(inwin[j], *[e[k + 1] - e[k] < thr for k in range(i, j)]) for j in range(i + 1, NB)]) if i < NB - 1 else False
            out.append(("include_degen: band %d selected only if inside or degenerate-chained to the window" % i,
                        implies(r[i], lor(inwin[i], up, dn))))
    else:
        out.append(("not include_degen: nothing outside the window is selected", land(*[implies(r[i], inwin[i]) for i in range(NB)])))
        # maximality: a band inside the window is dropped only if its multiplet reaches outside the window
        for i in range(NB):
            up = lor(*[land(lnot(inwin[j]), *[e[k + 1] - e[k] < thr for k in range(i, j)]) for j in range(i + 1, NB)]) if i < NB - 1 else False
            dn = lor(*[land(lnot(inwin[j]), *[e[k + 1] - e[k] < thr for k in range(j, i)]) for j in range(0, i)]) if i > 0 else False
            out.append(("not include_degen: band %d inside the window is dropped only if its multiplet is cut by the window" % i,
                        implies(land(inwin[i], lnot(r[i])), lor(up, dn))))
    return out


def _swd_unit(NB, include, prop="C15"):
    name = "select_window_degen[NB=%d,%s]" % (NB, "include" if include else "exclude")

    def prove(U):
        f = U.fn(FU, "select_window_degen", globs=dict(np=NP))

        def body():
            E = sym_array("E", (NB,), "real")
            thr, wmin, wmax = sreal("thresh"), sreal("win_min"), sreal("win_max")
            ctx().assume(thr > 0)
            for i in range(NB - 1):
                ctx().assume(E.get((i,)) <= E.get((i + 1,)))
            res = f(E, thresh=thr, win_min=wmin, win_max=wmax, include_degen=include)
            with U.spec():
                clauses = _swd_post(E, thr, wmin, wmax, include, res, NB, getE=lambda E_, i: E_.get((i,)), getR=lambda r, i: r.get((i,)))
            for nm, cl in clauses:
                U.ensure(nm, cl)
            return res
        U.run(body)

    def replay(mv, ob):
        E = [float(x) for x in mv.array1("E", NB)]
        return _swd_concrete(E, float(mv.get("thresh", 0.01)), float(mv.get("win_min", 0)), float(mv.get("win_max", 0)), include)
    Unit(prop, name, prove=prove, replay=replay, scope="shape:NB=%d" % NB, expect_min=3,
         tiers=("quick", "thorough") if NB <= 5 else ("thorough",))


def _swd_concrete(E, thr, wmin, wmax, include):
    import numpy as np
    from wannierberri.utility import select_window_degen
    E = sorted(E)
    res = select_window_degen(np.array(E, dtype=float), thresh=thr, win_min=wmin, win_max=wmax, include_degen=include)
    NB = len(E)
    bad = []
    for nm, v in _swd_post(E, thr, wmin, wmax, include, [bool(x) for x in res], NB):
        if not _truth(v):
            bad.append(nm)
    return dict(reproduced=bool(bad), input=dict(E=E, thresh=thr, win_min=wmin, win_max=wmax, include_degen=include),
                got=[bool(x) for x in res], failed_clauses=bad)


def _truth(v):
    if isinstance(v, SBool):
        c = conc(v)
        return bool(c)
    return bool(v)


for _nb in range(1, 7):
    for _inc in (True, False):
        _swd_unit(_nb, _inc)


def _swd_random(rng, ncases):
    fails = []
    for t in range(ncases):
        NB = rng.randint(1, 8)
        E = sorted(rng.choice([0.0, 0.004, 0.008, 0.012, 0.5, 0.504, 1.0, 1.5]) + rng.randint(0, 1) * 2 for _ in range(NB))
        thr = rng.choice([0.005, 0.01, 0.1])
        a, b = sorted([rng.uniform(-0.5, 3.5), rng.uniform(-0.5, 3.5)])
        for inc in (True, False):
            r = _swd_concrete(E, thr, a, b, inc)
            if r["reproduced"]:
                fails.append(r)
    return dict(cases=2 * ncases, failures=fails, distinct=2 * ncases)


Unit("C15", "select_window_degen[random NB<=8]", concrete=_swd_random,
     bounded_desc="random clustered sorted energies, NB <= 8, random windows, both include_degen settings")


# ------------------------------------------------------------------ Tabulator.__call__ : per-group averaging
def _tab_unit(ibands, kramers, prop="C15"):
    @unit(prop, "Tabulator.__call__[ibands=%s,Kramers=%s]" % (ibands, kramers), scope="shape:2 k-points, 4 bands, two block layouts", expect_min=3)
    def _t(U):
        import numpy as rnp
        from pyvc.npshim import Shim, sym_real_array
        import z3
        FTB = "wannierberri/calculators/tabulate.py"
        made = []

        class KB:
            def __init__(self, data, **kw):
                made.append((data, kw))
        f = U.fn(FTB, "Tabulator.__call__", globs=dict(np=Shim(), KBandResult=KB), model=False)

        def body():
            del made[:]
            layouts = [[{(0, 2): 0.0, (2, 4): 1.0}, {(0, 1): 0.0, (1, 3): 0.5, (3, 4): 1.0}], [{(0, 4): 0.0}, {(0, 1): 0., (1, 2): .1, (2, 3): .2, (3, 4): .3}]]
            groups = layouts[ctx().choose(2, "block layout")]
            asked = {}
            data = types_ns(nk=2, num_wann=4)

            def gb(emin, emax, degen_thresh=-1, degen_Kramers=False, sea=False, Emin=-rnp.inf, Emax=rnp.inf, select_bands=None):
                asked.update(emin=emin, emax=emax, degen_thresh=degen_thresh, degen_Kramers=degen_Kramers, sea=sea)       # the real signature
                return [dict(g) for g in groups]
            data.get_bands_in_range_groups = gb

            class Formula:
                ndim = 1
                transformTR, transformInv = "TR", "INV"

                def __init__(self, d, **kw):
                    pass

                def trace(self, ik, inn, out):
                    a, b = int(inn[0]), int(inn[-1]) + 1
                    ok = sorted(list(inn) + list(out)) == list(range(4))
                    return sym_real_array("tr_%d_%d_%d%s" % (ik, a, b, "" if ok else "_BAD"), (3,))
            me = types_ns(Formula=Formula, kwargs_formula={}, ibands=None if ibands is None else rnp.array(ibands), degen_thresh=0.01, degen_Kramers=kramers, constant_factor=2.0)
            f(me, data)
            U.ensure("groups are requested for all energies with the calculator's own threshold and Kramers setting (not as a Fermi-sea request)",
                     asked.get("degen_thresh") == 0.01 and asked.get("degen_Kramers") == kramers and asked.get("sea") is False and asked["emin"] == -rnp.inf and asked["emax"] == rnp.inf)
            rs, kw = made[0]
            ib = list(range(4)) if ibands is None else list(ibands)
            ok = tuple(rs.shape) == (2, len(ib), 3)
            if ok:
                for ik in range(2):
                    for j, b in enumerate(ib):
                        (g0, g1) = [g for g in groups[ik] if g[0] <= b < g[1]][0]
                        for c in range(3):
                            want = sreal("tr_%d_%d_%d_%d" % (ik, g0, g1, c)) * 2.0 / (g1 - g0)
                            s = z3.Solver()
                            s.add(z3.Not((lift(rs[ik, j, c]) == want).t))
                            ok = ok and s.check() == z3.unsat
            U.ensure("value of band b = factor * trace over the block containing b / block size (so equal inside a block); trace gets the block as inner and all other bands as outer states", ok)
            U.ensure("declared transformations come from the formula", kw.get("transformTR") == "TR" and kw.get("transformInv") == "INV")
        U.run(body, check_feasible=False)


class types_ns:
    def __init__(self, **kw):
        self.__dict__.update(kw)


_tab_unit(None, False)
_tab_unit(None, True)
_tab_unit([1, 3], True)
_tab_unit([0, 2, 3], False)
_tab_unit([2, 0, 3], False)          # a selection that is not ascending: column j is band ibands[j]



# the band groups handed to the calculators (Fermi-sea block + in-range multiplets) are a partition that never cuts a multiplet: C13's unit,
# registered here as well
from contracts.C13 import _groups_unit as _c13_groups      # noqa: E402
_c13_groups(3, True, prop="C15")
_c13_groups(4, True, prop="C15")
_c13_groups(4, False, prop="C15")
