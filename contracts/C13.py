"""C13  Fermi-level scans have the documented sea and surface semantics.

Under contract (real text):
  calculators/static.py::StaticCalculator.__init__ + __call__ (non-tetrahedron branch), executed on the real numpy with SYMBOLIC
      formula values, for every position of every group energy relative to the (extended) Fermi grid -- below it, on each grid
      point, inside each interval, above it: the behaviour depends on an energy only through `<`, `<=` and ceil() against that grid,
      so one representative per class is complete for all real energies.  Postcondition, for fder = 0..3, 1-2 k-points, additive and
      non-additive formulas, k_resolved or not, hole_like / use_factor / constant_factor:
          out[j] = (1/V/nk) * c * D^fder sea(EF_j),  sea(E) = sum over groups g with E_g <= E of w_g T_g,
      with the central-difference stencils (-1/2,0,1/2)/d, (1,-2,1)/d^2, (-1/2,1,0,-1,1/2)/d^3 on the uniform grid; the k-resolved
      result summed over k and divided by nk equals the unresolved one; CumDOS corollaries (formula = group size).
      Per shape: nEF in {1,2,4}, up to 3 groups per k-point.
  data_K/data_K.py::Data_K.get_bands_in_range_groups_ik with grid/tetrahedron.py::get_bands_in_range, get_bands_below_range,
      get_borders (all real text, model numpy), all real sorted band energies at NB = 1..4: the keys are pairwise disjoint blocks,
      each block is a whole degenerate group carrying the mean energy, a block is present iff it meets [emin, emax]; with `sea` the
      extra key (0, bandmax) collects exactly the bands below emin that belong to no in-window block (a group straddling emin is
      counted whole, once).
  utility.py::weight_select_bands  fraction of the selected bands inside the block.
"""
import itertools
import math
from collections import defaultdict
from copy import copy
from fractions import Fraction

import numpy as rnp
import z3
from pyvc.core import ctx, sreal, land, lor, lnot, implies, lift, SNum, conc, ite
from pyvc.arr import sym_array, SArr
from pyvc.unit import unit, Unit
from pyvc.npmodel import np as NP
from pyvc.npshim import Shim, sym_real_array

FS = "wannierberri/calculators/static.py"
FD = "wannierberri/data_K/data_K.py"
FT = "wannierberri/grid/tetrahedron.py"
FU = "wannierberri/utility.py"


class _Obj:
    pass


def _valid(c):
    s = z3.Solver()
    s.add(z3.Not(c.t))
    return s.check() == z3.unsat


def _same_lin(a, b, rel=1e-11):
    """two linear forms in the trace symbols agree coefficient-wise up to floating-point rounding of the constants (1/dEF**n is computed in
    floats by the code and by the specification, possibly one ulp apart); exact equality is tried first"""
    if _valid(lift(a) == lift(b)):
        return True
    from pyvc.phase import linform
    la, lb = linform(lift(a)), linform(lift(b))
    scale = max([abs(float(v)) for v in lb.values()] + [abs(float(v)) for v in la.values()] + [1e-300])
    res = all(abs(float(la.get(k, 0)) - float(lb.get(k, 0))) <= rel * scale for k in set(la) | set(lb))
    import os, sys
    if not res and os.environ.get("C13_DEBUG"):
        print("MISMATCH", {k: float(v) for k, v in la.items()}, {k: float(v) for k, v in lb.items()}, file=sys.stderr)
    return res


def _static_unit(fder, nEF, additive, k_resolved, hole_like=False, use_factor=True, tiers=("quick", "thorough"), prop="C13", nk_int=1):
    name = "StaticCalculator.__call__[fder=%d,nEF=%d,%s,%s%s%s]" % (fder, nEF, "additive" if additive else "non-additive",
                                                                   "k-resolved" if k_resolved else "integrated",
                                                                   ",hole_like" if hole_like else "", "" if use_factor else ",use_factor=False")
    if nk_int != 1:
        name += "[%d k-points]" % nk_int

    def prove(U):
        results = []

        class ER:
            def __init__(self, Efermi, data, **kw):
                results.append(("E", Efermi, data, kw))

        class KR:
            def __init__(self, data, **kw):
                results.append(("K", None, data[0], kw))
        shim = Shim()
        sup = lambda: _SuperInit()
        wsb = U.fn(FU, "weight_select_bands", globs=dict(np=rnp), model=False)
        init = U.fn(FS, "StaticCalculator.__init__", globs=dict(np=shim, copy=copy, super=sup), model=False)
        call = U.fn(FS, "StaticCalculator.__call__", globs=dict(np=shim, defaultdict=defaultdict, ceil=math.ceil, weight_select_bands=wsb,
                                                               EnergyResult=ER, K__Result=KR, cached_einsum=rnp.einsum), model=False)
        d = 0.25 if nEF > 1 else 0.001          # a single Fermi level: the code's default spacing

        def Cum(ik, b):
            return sreal("C_%d_%d" % (ik, b)) if b > 0 else lift(0.0)
        Ef = rnp.array([1.0 + d * j for j in range(nEF)])
        extra = 0 if fder == 0 else 1 if fder in (1, 2) else 2
        EFmin = Ef[0] - extra * d
        ngrid = nEF + 2 * extra
        # one representative energy per class w.r.t. the extended grid
        # with the default spacing 0.001 of a single Fermi level (not a binary fraction) an energy "exactly on a grid point" is not
        # representable: which side it falls on is decided by rounding in (E - EFmin) / dEF, a measure-zero case outside the property; the
        # on-grid classes are explored for the binary spacing 0.25 only
        on_grid = nEF > 1
        classes = [EFmin - 2 * d]
        for i in range(ngrid):
            if on_grid:
                classes.append(EFmin + i * d)
            if i < ngrid - 1:
                classes.append(EFmin + i * d + 0.4 * d)
        classes.append(EFmin + (ngrid - 1) * d + 1.2 * d)
        nk = 2 if k_resolved else nk_int
        NB = 4
        # band groups as get_bands_in_range_groups hands them out: contiguous in the band index; sea groups (fder = 0) start at band 0,
        # window groups (fder >= 1) may start above the lowest band
        layouts = [[(0, 1), (1, 3), (3, 4)], [(0, 2), (2, 4)]] if additive else ([[(0, 1), (1, 3)]] if fder == 0 else [[(0, 1), (1, 3)], [(1, 3), (3, 4)], [(2, 3)]])

        def body():
            del results[:]
            me = _Obj()
            me.degen_thresh, me.degen_Kramers, me.save_mode, me.comment = 1e-4, False, "bin", "c"
            me.fder = fder

            class Formula:
                ndim = 0
                transformTR = "TR"
                transformInv = "INV"

                def __init__(self, data_K, **kw):
                    self.additive = additive

                def trace(self, ik, inn, out):
                    if additive:
                        a, b = int(inn[0]), int(inn[-1]) + 1
                        return rnp.array(sreal("T_%d_%d_%d" % (ik, a, b)), dtype=object)
                    return rnp.array(Cum(ik, len(inn)), dtype=object)       # cumulative value of bands [0,b)
            me.Formula = Formula
            cf = 3.0
            init(me, Ef, tetra=False, constant_factor=cf, use_factor=use_factor, hole_like=hole_like, k_resolved=k_resolved, Formula=Formula, fder=fder)
            # group energies: every combination of classes would explode; enumerate each group's class independently via choose
            # groups are treated independently by the code (one addition per group): one FOCUS group runs through every energy
            # class while the others sit at one of three background positions (all below / mixed on-grid and inside / all above)
            groups = []
            lay = layouts[ctx().choose(len(layouts), "layout")]
            fk = ctx().choose(nk, "focus k-point")
            fg = ctx().choose(len(lay), "focus group")
            fc = ctx().choose(len(classes), "class of the focus group")
            bg = ctx().choose(3, "background")
            for ik in range(nk):
                g = {}
                for gi, blk in enumerate(lay):
                    if ik == fk and gi == fg:
                        g[blk] = classes[fc]
                    else:
                        g[blk] = [classes[0], classes[(2 * gi + 1 + ik) % len(classes)], classes[-1]][bg]
                groups.append(g)
            data = _Obj()
            data.nk, data.num_wann, data.cell_volume = nk, NB, 2.0
            asked = {}

            def gb(emin, emax, **kw):
                asked.update(kw, emin=emin, emax=emax)
                return [dict(g) for g in groups]
            data.get_bands_in_range_groups = gb
            call(me, data)
            kind, _ef, out, kw = results[0]
            U.ensure("bands are requested for the extended window [EFmin - extra*dEF, EFmax + extra*dEF], sea groups iff fder == 0",
                     abs(asked["emin"] - EFmin) < 1e-12 and abs(asked["emax"] - (Ef[-1] + extra * d)) < 1e-12 and asked["sea"] == (fder == 0))
            U.ensure("result type and declared transformations come from the formula", kind == ("K" if k_resolved else "E") and kw["transformTR"] == "TR" and kw["transformInv"] == "INV")

            def T(ik, blk):
                if additive:
                    return sreal("T_%d_%d_%d" % (ik, blk[0], blk[1]))
                return Cum(ik, blk[1]) - Cum(ik, blk[0])

            def sea(ik, E):
                tot = 0
                for blk, Eg in groups[ik].items():
                    if Eg <= E + 1e-12:
                        tot = tot + T(ik, blk)
                return tot
            sgn = cf if use_factor else 1.0
            if hole_like and fder == 0:
                sgn = -sgn
            stencil = {0: [(0, 1)], 1: [(1, Fraction(1, 2)), (-1, Fraction(-1, 2))], 2: [(1, 1), (-1, 1), (0, -2)],
                       3: [(2, Fraction(1, 2)), (-2, Fraction(-1, 2)), (1, -1), (-1, 1)]}[fder]
            ok = True
            per_k = []
            for ik in range(nk):
                row = []
                for j in range(nEF):
                    val = 0
                    for m, c in stencil:
                        val = val + c * sea(ik, Ef[j] + m * d)
                    row.append(val / (d ** fder))
                per_k.append(row)
            if k_resolved:
                U.ensure("k-resolved result has one row per k-point", tuple(out.shape) == (nk, nEF))
                for ik in range(nk):
                    for j in range(nEF):
                        ok = ok and _same_lin(out[ik, j], lift(per_k[ik][j]) * sgn / 2.0)
            else:
                U.ensure("integrated result has one value per Fermi level", tuple(out.shape) == (nEF,))
                for j in range(nEF):
                    want = 0
                    for ik in range(nk):
                        want = want + per_k[ik][j]
                    ok = ok and _same_lin(out[j], lift(want) * sgn / 2.0 / nk)
            U.ensure("out[j] = c/(V nk) * (n-th central difference of) the sum over groups with E_g <= E_F of the formula's trace", ok)
        U.run(body, check_feasible=False, max_paths=400000)
    Unit(prop, name, prove=prove, scope="shape:nEF=%d, <=3 groups/k, every energy class of the extended Fermi grid" % nEF, expect_min=4, tiers=tiers)


class _SuperInit:
    def __init__(self, **kw):
        pass


for _fder in (0, 1, 2, 3):
    _static_unit(_fder, 2, True, False)
    _static_unit(_fder, 1, True, False, tiers=("thorough",))
_static_unit(0, 2, False, False)
_static_unit(1, 2, False, False)
_static_unit(0, 2, True, True)
_static_unit(1, 1, True, True)
_static_unit(0, 2, True, False, hole_like=True)
_static_unit(1, 2, True, False, hole_like=True, use_factor=False)
_static_unit(2, 4, True, False, tiers=("thorough",))
_static_unit(3, 4, True, False, tiers=("thorough",))


@unit("C13", "StaticCalculator.__call__ with tetrahedron weights: out[e] = c/(V nk) sum_k sum_groups w_group[e] trace_group (the band selection already sits in the weights)",
      scope="shape:2 k-points, 4 bands, 2 Fermi levels, 3 groups per k-point; additive and non-additive formulas; with and without select_bands; hole_like", expect_min=4)
def _static_tetra(U):
    results = []

    class ER:
        def __init__(self, Efermi, data, **kw):
            results.append((Efermi, data, kw))
    shim = Shim()
    wsb = U.fn(FU, "weight_select_bands", globs=dict(np=rnp), model=False)
    init = U.fn(FS, "StaticCalculator.__init__", globs=dict(np=shim, copy=copy, super=lambda: _SuperInit()), model=False)
    call = U.fn(FS, "StaticCalculator.__call__", globs=dict(np=shim, defaultdict=defaultdict, ceil=math.ceil, weight_select_bands=wsb,
                                                           EnergyResult=ER, K__Result=None, cached_einsum=rnp.einsum), model=False)

    def body():
        del results[:]
        additive = bool(ctx().choose(2, "additive formula"))
        sel = [None, rnp.array([1, 2])][ctx().choose(2, "select_bands")]
        hole = bool(ctx().choose(2, "hole_like"))
        fder = 0 if hole else ctx().choose(2, "fder")
        Ef = rnp.array([1.0, 1.25])
        nk, NB = 2, 4
        groups = [[(0, 1), (1, 3), (3, 4)], [(0, 2), (2, 3), (3, 4)]]
        W = [{g: sym_real_array("w_%d_%d_%d" % (ik, g[0], g[1]), (2,)) for g in groups[ik]} for ik in range(nk)]
        asked = {}

        class Formula:
            ndim = 0
            transformTR, transformInv = "TR", "INV"

            def __init__(self, data_K, **kw):
                self.additive = additive

            def trace(self, ik, inn, out):
                if additive:
                    return rnp.array(sreal("T_%d_%d_%d" % (ik, int(inn[0]), int(inn[-1]) + 1)), dtype=object)
                return rnp.array(sreal("C_%d_%d" % (ik, len(inn))) if len(inn) else lift(0.0), dtype=object)
        me = _Obj()
        me.degen_thresh, me.degen_Kramers, me.save_mode, me.comment, me.fder = 1e-4, False, "bin", "c", fder
        init(me, Ef, tetra=True, constant_factor=3.0, use_factor=True, hole_like=hole, k_resolved=False, Formula=Formula, fder=fder, select_bands=sel)
        data = _Obj()
        data.nk, data.num_wann, data.cell_volume = nk, NB, 2.0
        data.tetraWeights = _Obj()
        data.tetraWeights.weights_all_band_groups = lambda Efermi, **kw: (asked.update(kw, Efermi=Efermi), [dict(w) for w in W])[1]
        call(me, data)
        _ef, out, kw = results[0]
        U.ensure("the tetrahedron weights are requested for the calculator's own Fermi levels, derivative order (-1 for hole-like), thresholds and band selection",
                 asked.get("Efermi") is me.Efermi and asked.get("der") == (-1 if hole else fder) and asked.get("degen_thresh") == 1e-4 and asked.get("degen_Kramers") is False
                 and (asked.get("select_bands") is sel or (sel is not None and rnp.array_equal(asked.get("select_bands"), sel))))

        def T(ik, g):
            if additive:
                return sreal("T_%d_%d_%d" % (ik, g[0], g[1]))
            return (sreal("C_%d_%d" % (ik, g[1])) if g[1] else 0) - (sreal("C_%d_%d" % (ik, g[0])) if g[0] else 0)
        sgn = -3.0 if (hole and fder == 0) else 3.0
        ok = tuple(out.shape) == (2,)
        for e in range(2):
            want = 0
            for ik in range(nk):
                for g in groups[ik]:
                    want = want + W[ik][g][e] * T(ik, g)
            ok = ok and _same_lin_poly(out[e], want * sgn / 2.0 / nk)
        U.ensure("out[e] = c/(V nk) sum_k sum_groups w[e] * trace(group): every weight enters once, as given", ok)
    U.run(body, check_feasible=False)
    U.external("TetraWeights.weights_all_band_groups: C14 (the band-selection factor is part of the weights it returns)")


def _same_lin_poly(a, b):
    """equality of two polynomial expressions in the symbols (products weight x trace): decided by z3"""
    return _valid(lift(a) == lift(b))


# ------------------------------------------------------------------ band groups in / below the window
def _groups_unit(NB, sea, prop="C13"):
    @unit(prop, "get_bands_in_range_groups_ik[NB=%d,sea=%s]" % (NB, sea), scope="shape:NB=%d, all real sorted energies" % NB, expect_min=3)
    def _g(U):
        gbord = U.fn(FT, "get_borders", globs=dict(np=NP))
        gbir = U.fn(FT, "get_bands_in_range", globs=dict(np=NP, get_borders=gbord))
        gbelow = U.fn(FT, "get_bands_below_range", globs=dict(np=NP))

        class FakeMod:
            pass
        f = U.fn(FD, "Data_K.get_bands_in_range_groups_ik", globs=dict(np=NP))
        import sys
        import types

        def body():
            E = sym_array("E", (NB,), "real")
            for i in range(NB - 1):
                ctx().assume(E.get((i,)) <= E.get((i + 1,)))
            emin, emax, thr = sreal("emin"), sreal("emax"), sreal("thr")
            ctx().assume(land(emin <= emax, thr >= 0))
            me = _Obj()

            class EK:
                def __getitem__(self, key):
                    if isinstance(key, tuple):
                        ik, sl = key
                        return E[sl]
                    return E
            me.E_K = EK()
            mod = types.ModuleType("wannierberri.grid.tetrahedron")
            mod.get_bands_in_range, mod.get_bands_below_range = gbir, gbelow
            key = "extracted..grid.tetrahedron"
            # the function does `from ..grid.tetrahedron import ...` : supply the extracted callees through the import system
            saved = {k: sys.modules.get(k) for k in ("wannierberri.grid.tetrahedron",)}
            res = _call_with_import(f, mod, me, 0, emin, emax, degen_thresh=thr, sea=sea)
            keys = list(res.keys())
            e = [E.get((i,)) for i in range(NB)]
            small = [e[i + 1] - e[i] <= thr for i in range(NB - 1)]
            inwin_keys = [k for k in keys if res[k] != -rnp.inf] if sea else keys
            sea_keys = [k for k in keys if sea and not is_sym_(res[k]) and res[k] == -rnp.inf]
            U.ensure("keys are pairwise disjoint index ranges", all(a[1] <= b[0] or b[1] <= a[0] for a in keys for b in keys if a != b) and all(0 <= k[0] < k[1] <= NB for k in keys))
            for (a, b) in inwin_keys:
                U.ensure("block (%d,%d) is a whole degenerate group (internal gaps <= thr, boundary gaps > thr)" % (a, b),
                         lambda a=a, b=b: land(*([small[i] for i in range(a, b - 1)] + ([lnot(small[a - 1])] if a > 0 else []) + ([lnot(small[b - 1])] if b < NB else []))))
                U.ensure("block (%d,%d) meets the window and carries the mean energy of its bands" % (a, b),
                         lambda a=a, b=b: land(e[b - 1] >= emin, e[a] <= emax, lift(res[(a, b)]) * (b - a) == _sum(e[a:b])))
            # completeness: every band inside the window belongs to a returned block
            for i in range(NB):
                covered = any(a <= i < b for (a, b) in inwin_keys)
                U.ensure("band %d inside [emin, emax] is in a returned block" % i, lambda i=i, covered=covered: implies(land(e[i] >= emin, e[i] <= emax), covered))
            if sea:
                U.ensure("at most one sea key and it starts at band 0", len(sea_keys) <= 1 and all(k[0] == 0 for k in sea_keys))
                for i in range(NB):
                    in_sea = any(a <= i < b for (a, b) in sea_keys)
                    in_blk = any(a <= i < b for (a, b) in inwin_keys)
                    U.ensure("band %d below emin is counted exactly once: in the sea key unless its degenerate group reaches the window" % i,
                             lambda i=i, in_sea=in_sea, in_blk=in_blk: implies(e[i] < emin, (in_sea or in_blk) and not (in_sea and in_blk)))
                    U.ensure("band %d at or above emin is never in the sea key" % i, lambda i=i, in_sea=in_sea: implies(e[i] >= emin, not in_sea))
            return res
        U.run(body)


def is_sym_(x):
    return isinstance(x, SNum)


def _sum(xs):
    out = xs[0]
    for x in xs[1:]:
        out = out + x
    return out


def _call_with_import(f, mod, *a, **k):
    import sys
    name = "wannierberri.grid.tetrahedron"
    # `from ..grid.tetrahedron import X` inside an extracted function resolves relative to __package__ of its globals
    g = f.raw.__globals__
    g["__package__"] = "wannierberri.data_K"
    saved = sys.modules.get(name)
    import wannierberri.grid  # noqa  (parent packages must exist for the relative import)
    sys.modules[name] = mod
    oldattr = getattr(sys.modules["wannierberri.grid"], "tetrahedron", None)
    setattr(sys.modules["wannierberri.grid"], "tetrahedron", mod)
    try:
        return f(*a, **k)
    finally:
        if saved is not None:
            sys.modules[name] = saved
        else:
            sys.modules.pop(name, None)
        if oldattr is not None:
            setattr(sys.modules["wannierberri.grid"], "tetrahedron", oldattr)


for _nb in (1, 2, 3, 4):
    for _sea in (True, False):
        if True:
            _groups_unit(_nb, _sea)


@unit("C13", "weight_select_bands", scope="shape:blocks within 5 bands, every selection", expect_min=1)
def _wsb(U):
    f = U.fn(FU, "weight_select_bands", globs=dict(np=rnp), model=False)

    def body():
        ok = f(1, 3, None) == 1.0
        for a in range(5):
            for b in range(a + 1, 6):
                for r in range(0, 6):
                    for sel in itertools.combinations(range(6), r):
                        got = f(a, b, rnp.array(sel, dtype=int))
                        ok = ok and abs(got - len([s for s in sel if a <= s < b]) / (b - a)) < 1e-15
        U.ensure("weight = fraction of the block's bands that are selected; 1 without a selection", ok)
    U.run(body, check_feasible=False)
