"""C07  Symmetry reduction and symmetrisation are exact for symmetric systems.

Why the symmetric run equals the full run (the chain of contracts):
  (a) Grid.get_K_list(use_symmetry=True) keeps one K-point per orbit with factor |orbit| / prod(div)           -- C06
  (b) for a symmetric system the result at g.K is the transformed result  T_g R_K  (declared TR / inversion parities -- C08,
      action of an operation on a tensor -- C09)                                                               -- premise
  (c) PointGroup.symmetrize(R) = (1/|G|) sum over ALL operations g of the group, each once, of R.transform(g)   -- here
  (d) run() symmetrises each K-point's ResultDict with the SYSTEM's point group when symmetrize=True             -- here
  (e) ResultDict / EnergyResult / K__Result.transform apply the operation to every entry with the entry's own rank and
      declared transformations and distribute over +                                                          -- C16
  (f) orbit lemma: (1/|G|) sum_g T_g R_K = (1/|orbit|) sum over the orbit of R_k, so sum_K factor_K * (c) = (1/N) sum over the
      full grid -- checked here on the real get_K_list / symmetrize / transform_tensor for concrete groups and grids with an
      equivariant SYMBOLIC field (tier S: all field values, stated groups and grids)
  (g) tabulation: TABresult.to_grid puts the images of an irreducible point on their own grid slots                -- C30
Bounded stand-in: the installed run() with use_irred_kpt + symmetrize against the full unsymmetrised run on genuinely symmetric
systems (Haldane with C3z, the chiral model with C3z, random time-reversal / inversion symmetric models of C08), static, dynamic
and tabulating calculators.
"""
import contextlib
import io
import itertools
import types
import warnings

import numpy as rnp
import z3

from pyvc.core import ctx, sreal, SNum, SCplx, land, lift
from pyvc.unit import unit, Unit
from pyvc.npshim import Shim, sym_cplx_array, sym_real_array

F_PS = "wannierberri/symmetry/point_symmetry.py"
F_RG = "wannierberri/run_grid.py"
F_GR = "wannierberri/grid/grid.py"
F_KP = "wannierberri/grid/Kpoint.py"


def _valid(c):
    s = z3.Solver()
    s.add(z3.Not(c.t))
    return s.check() == z3.unsat


@unit("C07", "PointGroup.symmetrize = average of result.transform(g) over all operations, each once", scope="shape:groups of 1, 2, 6 operations; symbolic results", expect_min=2)
def _symmetrize(U):
    f = U.fn(F_PS, "PointGroup.symmetrize", globs={}, model=False, rewrite_comps=False)
    sz = U.fn(F_PS, "PointGroup.size", globs={}, model=False, rewrite_comps=False)

    def body():
        n = (1, 2, 6)[ctx().choose(3, "group size")]
        ops = ["g%d" % i for i in range(n)]
        vals = {g: sreal("T_%s_R" % g) for g in ops}
        calls = []

        class R:
            def transform(self, s):
                calls.append(s)
                return vals[s]
        me = types.SimpleNamespace(symmetries=list(ops))
        me.size = sz(me)
        out = f(me, R())
        want = 0
        for g in ops:
            want = want + vals[g]
        U.ensure("size = number of operations", me.size == n)
        U.ensure("every operation of the group is applied exactly once", sorted(calls) == sorted(ops))
        U.ensure("result = (1/|G|) sum_g result.transform(g)", _valid(lift(out) == lift(want) / n))
    U.run(body, check_feasible=False)


@unit("C07", "run(): with symmetrize=True each K-point's ResultDict is symmetrised with the system's point group (and only then)", scope="shape:one call each", expect_min=2)
def _paralfunc(U):
    import ast
    from pyvc.extract import read_source, FunctionNotFound
    src, _ = read_source(F_RG)
    fn = [n for n in ast.walk(ast.parse(src)) if isinstance(n, ast.FunctionDef) and n.name == "paralfunc"]
    if len(fn) != 1:
        raise FunctionNotFound("run.paralfunc (found %d definitions)" % len(fn))
    node = fn[0]

    class RD:
        def __init__(self, d):
            self.d = d
    g = dict(data_k_class=lambda system, **kw: "DATA", parameters_K={}, ResultDict=RD)
    exec(compile(ast.Module(body=[node], type_ignores=[]), "<extracted run_grid.py::run.paralfunc>", "exec"), g)

    def body():
        seen = []
        sysm = types.SimpleNamespace(pointgroup=types.SimpleNamespace(symmetrize=lambda r: (seen.append(r), ("symmetrised", r))[1]))
        kp = types.SimpleNamespace(Kp_fullBZ="dK")
        calc = {"a": lambda d: "res-a", "b": lambda d: "res-b"}
        out = g["paralfunc"](kp, sysm, "GRID", calc, True)
        U.ensure("symmetrize=True: returns system.pointgroup.symmetrize(ResultDict of ALL calculators), applied once",
                 len(seen) == 1 and isinstance(seen[0], RD) and seen[0].d == {"a": "res-a", "b": "res-b"} and out == ("symmetrised", seen[0]))
        out2 = g["paralfunc"](kp, sysm, "GRID", calc, False)
        U.ensure("symmetrize=False: the plain ResultDict", len(seen) == 1 and isinstance(out2, RD))
    U.run(body, check_feasible=False)
    U.functions.append(dict(qualname=F_RG + "::run.paralfunc", file=F_RG, lines=[node.lineno, node.end_lineno], sha256="nested function, extracted by name from run()", dropped=[], rewritten=[]))


# ------------------------------------------------------------------ (f) orbit lemma on the real K-list / symmetrize / transform_tensor
GROUPS = {
    "C4z on a tetragonal 4x4x2 grid, axial TR-odd vector": (["C4z"], rnp.diag([1.0, 1.0, 1.6]), (4, 4, 2), 1, True, False),
    "Inversion x TimeReversal*C2x on an orthorhombic 2x3x2 grid, axial TR-odd vector": (["Inversion", "TimeReversal*C2x"], rnp.diag([1.0, 1.3, 1.7]), (2, 3, 2), 1, True, False),
    "C3z + TimeReversal on a hexagonal 3x3x1 grid, rank-2 tensor": (["C3z", "TimeReversal"], rnp.array([[1.0, 0, 0], [-0.5, 0.8660254037844386, 0], [0, 0, 2.0]]), (3, 3, 1), 2, False, False),
}


def _orbit_unit(gname, tiers=("quick", "thorough")):
    gens, latt, grid, rank, TRodd, Iodd = GROUPS[gname]

    @unit("C07", "orbit lemma: sum over irreducible K of factor x symmetrised value = mean over the full grid [%s]" % gname, scope="shape:" + gname, expect_min=3, tiers=tiers)
    def _o(U):
        import wannierberri as wb
        from wannierberri.symmetry.point_symmetry import PointGroup, transform_ident, transform_odd
        from contracts.C09 import _build
        PS, fns = _build(U)             # real PointSymmetry.transform_tensor / rotate (extracted, symbolic-capable)
        symm = U.fn(F_PS, "PointGroup.symmetrize", globs={}, model=False, rewrite_comps=False)

        def body():
            with contextlib.redirect_stdout(io.StringIO()):
                pg = PointGroup(gens, real_lattice=latt)          # concrete group built by the installed code (C09 covers its closure)
                g_ = wb.grid.Grid.__new__(wb.grid.Grid)
                g_.pointgroup, g_.div, g_.FFT = pg, rnp.array(grid), rnp.array([1, 1, 1])
                KL = g_.get_K_list(use_symmetry=True)           # installed code; weights are C06's contract, re-checked below
            N = int(rnp.prod(grid))
            tTR, tInv = (transform_odd if TRodd else transform_ident), (transform_odd if Iodd else transform_ident)
            ops = [PS.__new__(PS) for _ in pg.symmetries]
            for o, s in zip(ops, pg.symmetries):
                o.R, o.TR, o.Inv = rnp.array(s.R, dtype=float), s.TR, s.Inv
                o.iTR, o.iInv = (-1 if s.TR else 1), (-1 if s.Inv else 1)
                for k_, v_ in s.__dict__.items():
                    o.__dict__.setdefault(k_, v_)

            def T(o, x):
                return o.transform_tensor(x, rank, tTR, tInv)
            U.ensure("factors of the irreducible K-points add up to one", abs(sum(K.factor for K in KL) - 1) < 1e-12)
            # equivariant symbolic field on the full grid: value at g.K0 = T_g S_K0, S averaged over the stabiliser
            field = {}
            lhs = 0
            ok_cover = True
            for iK, K in enumerate(KL):
                k0 = tuple(int(v) for v in rnp.rint(K.K * rnp.array(grid)).astype(int) % rnp.array(grid))
                free = sym_real_array("S%d" % iK, (3,) * rank)
                images = []
                for o, s in zip(ops, pg.symmetries):
                    kimg = s.transform_reduced_vector(K.K, pg.recip_lattice)
                    key = tuple(int(v) for v in rnp.rint(kimg * rnp.array(grid)).astype(int) % rnp.array(grid))
                    images.append((key, o))
                stab = [o for key, o in images if key == k0]
                S = sum(T(o, free) for o in stab) / len(stab)
                orbit = {}
                for key, o in images:
                    orbit.setdefault(key, T(o, S))
                for key, v in orbit.items():
                    if key in field:
                        ok_cover = False
                    field[key] = v
                ok_cover = ok_cover and abs(K.factor - len(orbit) / N) < 1e-12
                res = types.SimpleNamespace(transform=lambda s_, S=S: T(ops[list(pg.symmetries).index(s_)], S))
                me = types.SimpleNamespace(symmetries=list(pg.symmetries), size=len(pg.symmetries))
                lhs = lhs + symm(me, res) * K.factor
            U.ensure("orbits of the irreducible K-points tile the full grid; factor = |orbit| / N", ok_cover and len(field) == N)
            rhs = sum(field.values()) / N
            # both sides are linear forms in the free field values; the rotation matrices are floats (cos 90 deg = 6e-17), so the
            # coefficients are compared to 1e-12 instead of exactly
            from pyvc.phase import linform
            worst = 0.0
            for idx in rnp.ndindex(*((3,) * rank)):
                lf = linform(lift(lhs[idx]) - lift(rhs[idx]))
                worst = max([worst] + [abs(float(v)) for v in lf.values()])
            nonzero = any(abs(float(v)) > 1e-3 for idx in rnp.ndindex(*((3,) * rank)) for v in linform(lift(rhs[idx])).values())
            U.ensure("sum_K factor_K * symmetrize(R_K) = (1/N) sum over the full grid of the equivariant field: every coefficient of every free field value agrees to 1e-12", worst < 1e-12)
            U.ensure("(non-vacuity) the full-grid mean depends on the field", nonzero)
        U.run(body, check_feasible=False)
        U.external("PointGroup construction and Grid.get_K_list(use_symmetry=True): installed code on concrete input (closure: C09; weights: C06)")


for _i, _g in enumerate(GROUPS):
    _orbit_unit(_g, tiers=("quick", "thorough") if _i < 2 else ("thorough",))


# ------------------------------------------------------------------ run(): option handling (the real run() + process(), machinery of C10)
from contracts import C10 as _c10      # noqa: E402

_c10._mk_unit(2, 0, "memory", True, ("quick", "thorough"), prop="C07")
_c10._mk_unit(2, 0, "memory", False, ("quick", "thorough"), prop="C07")
# symmetrisation applies the declared transformations through Transform.__call__ (sign, conjugation, transposition together): C08's unit, here as well
from contracts.C08 import _transform_unit as _c08_transform      # noqa: E402
_c08_transform(prop="C07")
# the result at g.K is obtained from the DECLARED parities: a wrong declaration (a formula class, a calculator) makes the symmetry-reduced run wrong
# while every unreduced run stays right -- C08's declaration unit and its values-at-(-k) stand-in belong to this property as well
from contracts import C08 as _c08      # noqa: E402
unit("C07", "declared parities of the formula classes = parity of the base quantity x (-1)^(number of k-derivatives)", scope="shape:18 formula classes", expect_min=2)(_c08._declared)
Unit("C07", "values at -k against the declared transformation of the values at k [real code, symmetric random models]", concrete=_c08._real_parities,
     bounded_desc="as registered under C08: installed tabulators, dynamic and static calculators at a random k and -k of random time-reversal symmetric and inversion-symmetric models")


# ------------------------------------------------------------------ bounded stand-in: installed run()
def _systems(n):
    import wannierberri as wb
    from wannierberri import models
    from contracts.C08 import symmetric_model
    out = []
    s = wb.system.System_R.from_pythtb(models.Haldane_ptb(delta=0.2, hop1=-1.0, hop2=0.15), berry=True)
    s.set_pointgroup(["C3z"])
    out.append(("Haldane, C3z", s, [6, 6, 1], [3, 3, 1]))
    if n > 30:
        s = wb.system.System_R.from_pythtb(models.Chiral(delta=2, hop1=1, hop2=1. / 3, phi=rnp.pi / 10, hopz_left=0.2, hopz_right=0.0, hopz_vert=0), berry=True)
        s.set_pointgroup(["C3z"])
        out.append(("Chiral, C3z", s, [6, 6, 4], [3, 3, 2]))
    s = symmetric_model("TR", 3, 11)
    s.set_pointgroup(["TimeReversal"])
    out.append(("random time-reversal symmetric", s, [4, 3, 2], [2, 1, 1]))
    s = symmetric_model("Inv", 3, 12)
    s.set_pointgroup(["Inversion"])
    out.append(("random inversion symmetric", s, [4, 3, 2], [2, 1, 1]))
    return out


def _real_symmetric(rng, n):
    import wannierberri as wb
    from wannierberri import calculators as calc
    fails, cases = [], 0
    with contextlib.redirect_stdout(io.StringIO()), warnings.catch_warnings():
        warnings.simplefilter("ignore")
        for name, system, NK, NKFFT in _systems(n):
            Ef = rnp.linspace(-1.0, 1.0, 5)
            om = rnp.array([0.5, 1.5])

            def mk():
                return {"cumdos": calc.static.CumDOS(Efermi=Ef, tetra=False), "ahc": calc.static.AHC(Efermi=Ef, tetra=False),
                        "ohmic": calc.static.Ohmic_FermiSea(Efermi=Ef, tetra=False), "berry_dipole": calc.static.BerryDipole_FermiSea(Efermi=Ef, tetra=False),
                        "opt": calc.dynamic.OpticalConductivity(Efermi=Ef, omega=om, smr_fixed_width=0.2, kBT=0.05),
                        "tab": calc.TabulatorAll({"E": calc.tabulate.Energy(), "berry": calc.tabulate.BerryCurvature(), "v": calc.tabulate.Velocity()}, ibands=[0, 1], mode="grid")}
            grid = wb.grid.Grid(system, NK=NK, NKFFT=NKFFT)
            full = wb.run(system, grid=grid, calculators=mk(), adpt_num_iter=0, use_irred_kpt=False, symmetrize=False, print_Kpoints=False)
            sym = wb.run(system, grid=grid, calculators=mk(), adpt_num_iter=0, use_irred_kpt=True, symmetrize=True, print_Kpoints=False)
            sym2 = wb.run(system, grid=grid, calculators=mk(), adpt_num_iter=0, use_irred_kpt=True, symmetrize=False, print_Kpoints=False)      # documented: symmetrisation is forced
            bad = []
            for key in ("cumdos", "ahc", "ohmic", "berry_dipole", "opt"):
                a2, b2 = sym2.results[key].data, sym.results[key].data
                if a2.shape != b2.shape or float(abs(a2 - b2).max()) > 1e-9 * max(1e-12, float(abs(b2).max())) + 1e-9 * abs(float(getattr(mk()[key], "constant_factor", 1.0))):
                    bad.append("%s: use_irred_kpt=True with symmetrize=False differs from symmetrize=True by %.2e" % (key, float(abs(a2 - b2).max())))
            for key in ("cumdos", "ahc", "ohmic", "berry_dipole", "opt"):
                a, b = sym.results[key].data, full.results[key].data
                sc = max(1e-12, float(abs(b).max()))
                # symmetry-forbidden components are sums of cancelling contributions: the floor is set by the natural size of one
                # k-point's contribution (|constant factor| of the calculator), not by the vanishing total
                floor = 1e-9 * abs(float(getattr(mk()[key], "constant_factor", 1.0)))
                if a.shape != b.shape or float(abs(a - b).max()) > max(1e-7 * sc, floor):
                    bad.append("%s: symmetric run differs from the full run by %.2e (scale %.2e)" % (key, float(abs(a - b).max()), sc))
            ta, tb = sym.results["tab"], full.results["tab"]
            if not rnp.allclose(ta.kpoints, tb.kpoints, atol=1e-9):
                bad.append("tabulation: grid points differ")
            for q in ("E", "berry", "v"):
                a, b = ta.results[q].data, tb.results[q].data
                if a.shape != b.shape or float(abs(a - b).max()) > 1e-7 * max(1.0, float(abs(b).max())):
                    bad.append("tabulation %s: per-k values over the full grid differ by %.2e" % (q, float(abs(a - b).max())))
            cases += 1
            if bad:
                fails.append(dict(input=dict(system=name, NK=NK, NKFFT=NKFFT), clause="irreducible K-points + symmetrisation = full grid", failed=bad[:4]))
            if name.startswith("Haldane"):
                # the tetrahedron method: the decomposition of the K-point cell into tetrahedra (one fixed main diagonal) is not invariant under the
                # rotations of the group, so band weights of symmetry-equivalent K-points differ at the discretisation level (recorded known finding K2)
                mkt = lambda: {"cumdos_tetra": calc.static.CumDOS(Efermi=Ef, tetra=True)}
                a = wb.run(system, grid=grid, calculators=mkt(), adpt_num_iter=0, use_irred_kpt=True, symmetrize=True, print_Kpoints=False).results["cumdos_tetra"].data
                b = wb.run(system, grid=grid, calculators=mkt(), adpt_num_iter=0, use_irred_kpt=False, symmetrize=False, print_Kpoints=False).results["cumdos_tetra"].data
                cases += 1
                if float(abs(a - b).max()) > 1e-9:
                    fails.append(dict(input=dict(system=name, NK=NK, NKFFT=NKFFT, case="haldane-C3z/tetra-cumdos-only"), clause="tetrahedron CumDOS: irreducible K-points + symmetrisation = full grid",
                                      failed=["cumdos (tetra=True) differs by %.2e" % float(abs(a - b).max())]))
    return dict(cases=cases, failures=fails, distinct=cases)


def _replay_real(mv, ob):
    import random
    r = _real_symmetric(random.Random(1), 10)
    r["failures"] = [f_ for f_ in r["failures"] if f_["input"].get("case") != "haldane-C3z/tetra-cumdos-only"]          # the recorded known finding replays nothing
    return dict(reproduced=bool(r["failures"]), input="installed run(): use_irred_kpt + symmetrize against the full grid on Haldane (C3z) and random TR / inversion symmetric models", failed=r["failures"][:3])


Unit("C07", "symmetric run = full run [real code, genuinely symmetric systems]", concrete=_real_symmetric,
     bounded_desc="installed run() with use_irred_kpt=True, symmetrize=True against use_irred_kpt=False, symmetrize=False: Haldane (C3z) (thorough: + chiral model, C3z), random time-reversal symmetric and inversion-symmetric 3-band models; "
                  "CumDOS, AHC, Ohmic (Fermi sea), Berry dipole, optical conductivity and grid tabulation of energies / Berry curvature / velocity (per-k values over the full grid)")
