"""C04  Interpolated k-resolved quantities are periodic and gauge independent.

Under contract:
  data_K/data_K.py::Data_K.degen        per shape nb = 2..5 (all real sorted energies): the groups are exactly the maximal runs of
                                        consecutive bands with gaps <= degen_thresh_random_gauge and length > 1
  data_K/data_K.py::Data_K.UU_K         per shape (4 bands, symbolic complex eigenvector matrix): with random_gauge the columns of
                                        every degenerate group are multiplied on the right by the unitary matrix drawn for that
                                        group and ALL other columns are unchanged; without random_gauge nothing changes
  class-shape obligation                every attribute read on `self` in Data_K.UU_K / Data_K.degen is assigned in
                                        Data_K.__init__ or defined in the class hierarchy (so the documented option exists)
  periodicity                           the real R_to_k chain (C02 classes) at k and k+G, explicit k-list and FFT grid with shifted K-point,
                                        derivative orders 0-2, symbolic data / k / centres: identical matrices
  gauge covariance (formula level)      the real text of Velocity, InvMass, Omega, DerOmega, Spin, DerSpin, Morb_H, morb (internal / external
                                        variants) on the real formula and Data_K.covariant / D_H / dEig_inv machinery, symbolic Hamiltonian-gauge
                                        matrices with an exactly degenerate pair of bands: the traces over the degenerate group and over
                                        the remaining band are unchanged when every matrix X is replaced by W^dagger X W, W an exact U(2)
                                        rotation inside the group (what random_gauge does, by the UU_K unit)
Bounded stand-in: evaluate_k at k vs k+G, and with random_gauge on a model with exact degeneracies (doubled spinless model),
for energy, band gradients, Berry curvature (internal+external), spin, orbital moment.
"""
import ast
import contextlib
import io
import os
import sys
import types

import numpy as rnp
import z3
from pyvc.core import ctx, sreal, land, lnot, implies, SCplx, SNum, conc
from pyvc.arr import sym_array
from pyvc.unit import unit, Unit
from pyvc.extract import read_source, find_def, ContractUnbound
from pyvc.npmodel import np as NP
from pyvc.npshim import Shim, sym_cplx_array

FD = "wannierberri/data_K/data_K.py"


class _Obj:
    pass


# ------------------------------------------------------------------ class shape
def _class_attrs(relpath, clsname, seen=None):
    """names defined on the class: methods/properties/class variables + every `self.x = ` in any of its methods, recursively
    through the bases that can be found in the repository sources"""
    seen = seen if seen is not None else set()
    src, _ = read_source(relpath)
    tree = ast.parse(src)
    cls = [n for n in tree.body if isinstance(n, ast.ClassDef) and n.name == clsname]
    if not cls:
        return set(), []
    cls = cls[0]
    names = set()
    for st in cls.body:
        if isinstance(st, (ast.FunctionDef, ast.ClassDef)):
            names.add(st.name)
        elif isinstance(st, ast.Assign):
            for t in st.targets:
                if isinstance(t, ast.Name):
                    names.add(t.id)
    for node in ast.walk(cls):
        if isinstance(node, (ast.Assign, ast.AugAssign, ast.AnnAssign)):
            tg = node.targets if isinstance(node, ast.Assign) else [node.target]
            for t in tg:
                for sub in ast.walk(t):
                    if isinstance(sub, ast.Attribute) and isinstance(sub.value, ast.Name) and sub.value.id == "self" and isinstance(sub.ctx, ast.Store):
                        names.add(sub.attr)
    bases = [ast.unparse(b) for b in cls.bases]
    # resolve bases through the module's imports
    imports = {}
    for st in tree.body:
        if isinstance(st, ast.ImportFrom) and st.module:
            for a in st.names:
                imports[a.asname or a.name] = (st.level, st.module)
    return names, [(b, imports.get(b)) for b in bases]


def _all_attrs(relpath, clsname, depth=0):
    names, bases = _class_attrs(relpath, clsname)
    for b, imp in bases:
        if imp is None or depth > 4:
            continue
        level, module = imp
        base_dir = os.path.dirname(relpath)
        for _ in range(level - 1):
            base_dir = os.path.dirname(base_dir)
        cand = os.path.join(base_dir, module.replace(".", "/") + ".py")
        try:
            names |= _all_attrs(cand, b, depth + 1)
        except (FileNotFoundError, OSError):
            pass
    return names


@unit("C04", "Data_K class shape (random_gauge path)", expect_min=1, scope="shape:attribute reads of UU_K and degen")
def _shape(U):
    src, path = read_source(FD)
    tree = ast.parse(src)
    defined = _all_attrs(FD, "Data_K") | {"__class__", "__dict__"}

    def body():
        for fn in ("UU_K", "degen"):
            node, _ = find_def(tree, "Data_K." + fn)
            reads = sorted({n.attr for n in ast.walk(node) if isinstance(n, ast.Attribute) and isinstance(n.value, ast.Name)
                            and n.value.id == "self" and isinstance(n.ctx, ast.Load)})
            for a in reads:
                U.ensure("Data_K.%s reads self.%s, which is assigned in a method of the class hierarchy or defined on it" % (fn, a), a in defined)
    U.run(body, check_feasible=False)
    U.functions.append(dict(qualname="%s::Data_K (attribute table)" % FD, file=path, lines=[1, len(src.splitlines())],
                            sha256=__import__("hashlib").sha256(src.encode()).hexdigest(), dropped=[], rewritten=[]))


# ------------------------------------------------------------------ degen
def _degen_unit(nb):
    @unit("C04", "Data_K.degen[nb=%d]" % nb, scope="shape:nb=%d, nk=1" % nb, expect_min=1, replay=lambda mv, ob: _replay_gauge(), replay_once=True)
    def _d(U):
        f = U.fn(FD, "Data_K.degen", globs=dict(np=NP))

        def body():
            me = _Obj()
            E = sym_array("E", (nb,), "real")
            thr = sreal("thr")
            for i in range(nb - 1):
                ctx().assume(E.get((i,)) <= E.get((i + 1,)))
            me.E_K = [E]
            me.degen_thresh_random_gauge = thr
            me.degen_threshold_random_gauge = thr
            res = f(me)
            groups = [tuple(g) for g in res[0]]
            small = [E.get((i + 1,)) - E.get((i,)) <= thr for i in range(nb - 1)]      # gap i,i+1 small
            # spec: (a,b) is a group iff b-a>1, all gaps inside small, gap before a and after b-1 large (or boundary)
            for a in range(nb):
                for b in range(a + 1, nb + 1):
                    is_run = land(*([small[i] for i in range(a, b - 1)] +
                                    ([lnot(small[a - 1])] if a > 0 else []) + ([lnot(small[b - 1])] if b < nb else [])))
                    want = is_run if b - a > 1 else False
                    U.ensure("(%d,%d) listed iff it is a maximal run of small gaps of length > 1" % (a, b),
                             (lambda want=want, a=a, b=b: (want if isinstance(want, bool) else want) if (a, b) in groups else lnot(want) if not isinstance(want, bool) else (not want)))
            return res
        U.run(body)


for _nb in (2, 3, 4, 5):
    _degen_unit(_nb)


def _degen_concrete(rng, n):
    """the real Data_K.degen on concrete energies of every magnitude (the threshold is ABSOLUTE): same spec as the symbolic units"""
    from wannierberri.data_K.data_K import Data_K
    fn = Data_K.__dict__["degen"]
    fn = getattr(fn, "func", fn)
    fails, cases = [], 0
    for t in range(40 if n <= 30 else 400):
        nb = rng.randint(2, 6)
        scale = rng.choice([0.0, 1.0, 40.0, -35.0, 1000.0])
        thr = rng.choice([1e-4, 1e-3, 1e-6])
        gaps = [rng.choice([0.0, 0.5 * thr, 1.5 * thr, 3.0 * thr, 0.3, 1.0]) for _ in range(nb - 1)]
        E = [scale]
        for g_ in gaps:
            E.append(E[-1] + g_)
        me = type("D", (), {})()
        me.E_K = rnp.array([E])
        me.degen_thresh_random_gauge = thr
        got = [tuple(int(x) for x in g_) for g_ in fn(me)[0]]
        real_gaps = [E[i + 1] - E[i] for i in range(nb - 1)]
        want, a = [], 0
        for i in range(nb):
            if i == nb - 1 or real_gaps[i] > thr:
                if i + 1 - a > 1:
                    want.append((a, i + 1))
                a = i + 1
        cases += 1
        if got != want:
            fails.append(dict(input=dict(E=E, thresh=thr), clause="groups = maximal runs of gaps <= thresh (absolute), length > 1", got=got, expected=want))
    return dict(cases=cases, failures=fails, distinct=cases)


Unit("C04", "Data_K.degen [real function, all energy scales]", concrete=_degen_concrete,
     bounded_desc="real Data_K.degen on 40 (quick) / 400 (thorough) energy ladders with gaps around the threshold at energy offsets 0, 1, 40, -35, 1000 eV")


# ------------------------------------------------------------------ UU_K
def _uu_unit(random_gauge, prop="C04"):
    @unit(prop, "Data_K.UU_K[random_gauge=%s]" % random_gauge, scope="shape:nk=2, 4 bands, groups (1,3) and (0,2)+(2,4)", expect_min=2,
          replay=lambda mv, ob: _replay_gauge(), replay_once=True)
    def _u(U):
        drawn = []

        def rvs(n):
            V = sym_cplx_array("V%d" % len(drawn), (n, n))
            drawn.append(V)
            return V
        fake_stats = types.ModuleType("scipy.stats")
        fake_stats.unitary_group = types.SimpleNamespace(rvs=rvs)
        f = U.fn(FD, "Data_K.UU_K", globs=dict(np=Shim()), model=False)

        def body():
            del drawn[:]
            me = _Obj()
            me.E_K = None
            me.random_gauge = random_gauge
            old = sym_cplx_array("U", (2, 4, 4))
            me._UU = old.copy()
            groups = [[(1, 3)], [(0, 2), (2, 4)]]
            me.degen = groups
            saved = sys.modules.get("scipy.stats")
            sys.modules["scipy.stats"] = fake_stats
            try:
                res = f(me)
            finally:
                if saved is not None:
                    sys.modules["scipy.stats"] = saved
                else:
                    sys.modules.pop("scipy.stats", None)
            ok_un, ok_rot = True, True
            nd = 0
            for ik in range(2):
                inside = set()
                for (b1, b2) in groups[ik]:
                    inside |= set(range(b1, b2))
                for a in range(4):
                    for b in range(4):
                        if b not in inside or not random_gauge:
                            ok_un = ok_un and _same(res[ik, a, b], old[ik, a, b])
                if random_gauge:
                    for (b1, b2) in groups[ik]:
                        V = drawn[nd]
                        nd += 1
                        for a in range(4):
                            for j in range(b2 - b1):
                                want = SCplx(0, 0)
                                for l in range(b2 - b1):
                                    want = want + old[ik, a, b1 + l] * V[l, j]
                                ok_rot = ok_rot and _eq(res[ik, a, b1 + j], want)
            U.ensure("columns outside the degenerate groups are unchanged", ok_un)
            if random_gauge:
                U.ensure("one unitary matrix is drawn per degenerate group, of the group's size", [v.shape[0] for v in drawn] == [2, 2, 2])
                U.ensure("columns of each degenerate group = old columns times that group's unitary matrix", ok_rot)
            else:
                U.ensure("no random matrix is drawn", not drawn)
            U.ensure("UU_K is the (possibly rotated) eigenvector array", res is me._UU)
        U.run(body, check_feasible=False)
        U.external("scipy.stats.unitary_group.rvs(n) returns an n x n unitary matrix")


def _same(x, y):
    a, b = SCplx.of(x), SCplx.of(y)
    return bool(z3.eq(z3.simplify(a.re.t), z3.simplify(b.re.t)) and z3.eq(z3.simplify(a.im.t), z3.simplify(b.im.t)))


def _eq(x, y):
    s = z3.Solver()
    s.add(z3.Not((SCplx.of(x) == SCplx.of(y)).t))
    return s.check() == z3.unsat


_uu_unit(True)
_uu_unit(False)


# ------------------------------------------------------------------ bounded stand-in
def _model(seed, double=False):
    from wannierberri.system.system_R import System_R
    rnp.random.seed(seed)
    s = System_R.from_random(num_wann=3, nRvec=27, max_R=1, berry=True, morb=True, spin=False) if not double else \
        System_R.from_random(num_wann=2, nRvec=27, max_R=1, berry=True)
    for key in list(s._XX_R.keys()):
        X = s.get_R_mat(key)
        s.set_R_mat(key, 0.5 * (X + s.rvec.conj_XX_R(X)), reset=True)
    if double:
        s.double_spin()          # every band twice: exact two-fold degeneracies everywhere
        if double in ("mixed", "split"):    # ... with a position matrix that couples the two copies: the members of a pair differ in everything but energy
            nR, nw = s.rvec.nRvec, s.num_wann
            A = rnp.random.rand(nR, nw, nw, 3) + 1j * rnp.random.rand(nR, nw, nw, 3)
            s.set_R_mat("AA", 0.5 * (A + s.rvec.conj_XX_R(A)), reset=True)
        if double == "split":    # ... and every pair split by 5e-4 eV: above the calculators' degeneracy threshold (1e-4), so NOT a multiplet
            H = s.get_R_mat("Ham").copy()
            H[s.rvec.iR0] += rnp.diag([2.5e-4 * (-1) ** i for i in range(s.num_wann)])
            s.set_R_mat("Ham", H, reset=True)
    return s


def _replay_gauge(seed=5):
    import wannierberri as wb
    with contextlib.redirect_stdout(io.StringIO()):
        s = _model(seed)
        k = rnp.array([0.13, 0.27, 0.41])
        quantities = ["energy", "berry_curvature"]
        a = wb.evaluate_k(s, k=k, quantities=quantities)
        b = wb.evaluate_k(s, k=k, quantities=quantities, parameters_K={"random_gauge": True, "degen_thresh_random_gauge": 1e-4})
    bad = [q for q in quantities if not rnp.allclose(a[q], b[q], atol=1e-8)]
    return dict(reproduced=bool(bad), input=dict(seed=seed, k=k.tolist(), parameters_K={"random_gauge": True}),
                clause="evaluate_k with random_gauge == evaluate_k without", differing=bad)


def _real_periodic_gauge(rng, n):
    import wannierberri as wb
    fails, cases = [], 0
    for t in range(2 if n <= 30 else 6):
        seed = rng.randint(0, 10 ** 6)
        with contextlib.redirect_stdout(io.StringIO()):
            s = _model(seed)
            k = rnp.random.rand(3)
            G = rnp.array([rng.randint(-2, 2) for _ in range(3)])
            qs = ["energy", "velocity", "berry_curvature", "morb"] if "morb" in getattr(wb.evaluate_k, "__globals__", {}).get("available_quantities", {"morb": 1}) else ["energy", "berry_curvature"]
            qs = [q for q in qs if q in wb.evaluate_k.__globals__["available_quantities"]]
            a = wb.evaluate_k(s, k=k, quantities=qs, return_single_as_dict=True)
            b = wb.evaluate_k(s, k=k + G, quantities=qs, return_single_as_dict=True)
            c = wb.evaluate_k(s, k=k, quantities=qs, return_single_as_dict=True, parameters_K={"random_gauge": True})
            # exact degeneracies: doubled spinless model; the degenerate-group sums of the tabulated values must not change
            s2 = _model(seed + 1, double=True)
            q2 = [q for q in ("energy", "berry_curvature") if q in wb.evaluate_k.__globals__["available_quantities"]]
            d0 = wb.evaluate_k(s2, k=k, quantities=q2, return_single_as_dict=True)
            d1 = wb.evaluate_k(s2, k=k, quantities=q2, return_single_as_dict=True, parameters_K={"random_gauge": True})
            d2 = wb.evaluate_k(s2, k=k + G, quantities=q2, return_single_as_dict=True)
        cases += 1
        bad = ["%s: k vs k+G" % q for q in qs if not rnp.allclose(a[q], b[q], atol=1e-7 * (1 + abs(a[q]).max()))]
        bad += ["%s: random_gauge" % q for q in qs if not rnp.allclose(a[q], c[q], atol=1e-7 * (1 + abs(a[q]).max()))]
        with contextlib.redirect_stdout(io.StringIO()):
            s3 = _model(seed + 2, double="mixed")
            e0 = wb.evaluate_k(s3, k=k, quantities=q2, return_single_as_dict=True)
            e1 = wb.evaluate_k(s3, k=k, quantities=q2, return_single_as_dict=True, parameters_K={"random_gauge": True})
            e2 = wb.evaluate_k(s3, k=k + G, quantities=q2, return_single_as_dict=True)
        with contextlib.redirect_stdout(io.StringIO()):
            s4 = _model(seed + 3, double="split")
            f0 = wb.evaluate_k(s4, k=k, quantities=q2, return_single_as_dict=True)
            f1 = wb.evaluate_k(s4, k=k, quantities=q2, return_single_as_dict=True, parameters_K={"random_gauge": True})
        for q in q2:
            if not rnp.allclose(f0[q], f1[q], atol=1e-6 * (1 + abs(f0[q]).max())):
                bad.append("%s: random_gauge (default thresholds) on a model whose pairs are split by 5e-4 eV -- more than the calculators' degeneracy threshold -- changes the band-by-band values by %.2e: "
                           "the random gauge mixes what the calculators treat as separate bands" % (q, abs(f0[q] - f1[q]).max()))
        for q in q2:
            for nm, y in (("random_gauge", e1[q]), ("k vs k+G", e2[q])):
                if not rnp.allclose(e0[q], y, atol=1e-6 * (1 + abs(e0[q]).max())):
                    bad.append("%s: %s on a degenerate model whose position matrix couples the members of a pair, band-by-band values differ by %.2e" % (q, nm, abs(e0[q] - y).max()))
        for q in q2:
            x0 = d0[q].reshape((d0[q].shape[0] // 2, 2) + d0[q].shape[1:]).sum(axis=1)
            x1 = d1[q].reshape((d1[q].shape[0] // 2, 2) + d1[q].shape[1:]).sum(axis=1)
            if not rnp.allclose(x0, x1, atol=1e-6 * (1 + abs(x0).max())):
                bad.append("%s: random_gauge on a doubled (degenerate) model, pair sums differ by %.2e" % (q, abs(x0 - x1).max()))
            # the tabulated value of a member of a degenerate pair is the pair's average, the same for both members: band by band it
            # depends neither on the gauge inside the pair nor on the eigen-solver's choice at k + G
            for nm, y in (("random_gauge", d1[q]), ("k vs k+G", d2[q])):
                if not rnp.allclose(d0[q], y, atol=1e-6 * (1 + abs(d0[q]).max())):
                    bad.append("%s: %s on a doubled (degenerate) model, band-by-band values differ by %.2e" % (q, nm, abs(d0[q] - y).max()))
        if bad:
            fails.append(dict(input=dict(seed=seed, k=k.tolist(), G=G.tolist()), clause="value(k) == value(k+G) == value(k, random gauge)", failed=bad))
    return dict(cases=cases, failures=fails, distinct=cases)


Unit("C04", "evaluate_k periodic and random-gauge invariant [real]", concrete=_real_periodic_gauge,
     bounded_desc="random Hermitian 3-band System_R with AA/BB/CC matrices; k random, G in [-2,2]^3; energy, velocity, Berry curvature, orbital moment; atol 1e-7 relative")


# ------------------------------------------------------------------ periodicity of the transforms (real R_to_k chain of C02)
from fractions import Fraction      # noqa: E402
from pyvc.core import lift      # noqa: E402
from pyvc.phase import PhSum, phsum_eq      # noqa: E402


@unit("C04", "periodicity: the interpolated matrices and their k-derivatives at k + G equal those at k", scope="shape:5 R-vectors, 2 bands, derivative orders 0-2; explicit k-list and FFT grid with shifted dK; symbolic data, k, centres", expect_min=2)
def _periodic(U):
    from contracts.C02 import build as build_fft, LATT, R_SETS, NW
    from pyvc.npshim import sym_real_array
    NPx, FFT, RV, g = build_fft(U)
    Rs = R_SETS["B"]

    def body():
        der = ctx().choose(3, "derivative order")
        tau = sym_real_array("tau", (NW, 3))
        X = sym_cplx_array("X", (len(Rs), NW, NW))
        k = [sreal("k0"), sreal("k1"), sreal("k2")]
        G = [2, -1, 3]
        kl = rnp.array([k, [k[j] + G[j] for j in range(3)], [k[0] - 1, k[1], k[2] + 5]], dtype=object)
        rv = RV(lattice=LATT, shifts_left_red=tau, iRvec=Rs)
        rv.set_fft_R_to_k(NK=None, num_wann=NW, k_list=kl)
        out = rv.R_to_k(rv.apply_expdK(X.copy()), der=der, hermitian=False)
        cl = [phsum_eq(out[(i,) + idx], out[(0,) + idx]) for i in (1, 2) for idx in rnp.ndindex(*out.shape[1:])]
        U.ensure("explicit k-list: rows k + G (two different G) give exactly the matrices of row k", land(*cl))
        outs = []
        for shift in ([0, 0, 0], [1, -2, 1]):
            rv2 = RV(lattice=LATT, shifts_left_red=tau, iRvec=Rs)
            dK = rnp.array([k[j] + shift[j] for j in range(3)], dtype=object)
            rv2.set_fft_R_to_k(NK=(2, 1, 3), num_wann=NW, fftlib="numpy", dK=dK)
            outs.append(rv2.R_to_k(rv2.apply_expdK(X.copy()), der=der, hermitian=False))
        cl = [phsum_eq(outs[1][idx], outs[0][idx]) for idx in rnp.ndindex(*outs[0].shape)]
        U.ensure("FFT grid: shifting the K-point by a reciprocal lattice vector changes nothing at any grid point", land(*cl))
    U.run(body, check_feasible=False)
    U.external("external DFT contract and ph(n) = 1 for integer n (C02)")


# ------------------------------------------------------------------ gauge covariance at the formula level (real formula code)
def _block_unitary():
    """1 (+) W with W an exact 2x2 unitary: acts inside the degenerate group of bands 1, 2"""
    f = Fraction
    W = rnp.empty((3, 3), dtype=object)
    for idx in rnp.ndindex(3, 3):
        W[idx] = SCplx(0, 0)
    W[0, 0] = SCplx(1, 0)
    W[1, 1], W[1, 2] = SCplx(f(3, 5), 0), SCplx(0, f(4, 5))
    W[2, 1], W[2, 2] = SCplx(0, f(4, 5)), SCplx(f(3, 5), 0)
    return W


@unit("C04", "gauge covariance: traces of the real formulas over a degenerate band group do not change under a unitary rotation inside the group",
      scope="shape:3 bands, bands 1 and 2 degenerate, exact U(2) rotation; 10 formula variants; symbolic Hamiltonian-gauge matrices", expect_min=8, timeout_ms=60000,
      replay=lambda mv, ob: _replay_gauge_formula(mv, ob), replay_once=True)
def _gauge_formula(U):
    import contracts.C08 as c8
    reg, DK, tr, inv, TI, TO = c8.formula_world(U)

    def body():
        X = c8._ingredients()
        W = _block_unitary()
        Wd = rnp.array([[W[b, a].conj() for b in range(3)] for a in range(3)], dtype=object)

        def rotated(A):
            B = rnp.empty(A.shape, dtype=object)
            for idx in rnp.ndindex(*A.shape):
                ik, a, b = idx[:3]
                acc = SCplx(0, 0)
                for a2 in range(3):
                    for b2 in range(3):
                        acc = acc + Wd[a, a2] * SCplx.of(A[(ik, a2, b2) + idx[3:]]) * W[b2, b]
                B[idx] = acc
            return B

        def mk(rot):
            d = DK.__new__(DK)
            d._covariant_quantities, d._bar_quantities = {}, {}
            d.force_internal_terms_only = False
            d.E_K = rnp.array([[0.0, 1.5, 1.5]])                  # bands 1 and 2 exactly degenerate
            Y = {key: (rotated(A) if rot else A) for key, A in X.items()}
            d.Xbar = lambda name, der=0: Y[(name, der)].copy()
            return d
        d0, d1 = mk(False), mk(True)
        for cls, kw in [f_ for f_ in c8.FORMULAS if f_[0] not in ("Der3E",)]:
            f0, f1 = reg[cls](d0, **kw), reg[cls](d1, **kw)
            cl = []
            for inn, out in ((rnp.array([1, 2]), rnp.array([0])), (rnp.array([0]), rnp.array([1, 2]))):
                t0, t1 = rnp.asarray(f0.trace(0, inn, out)), rnp.asarray(f1.trace(0, inn, out))
                if t0.shape != t1.shape:
                    cl.append(lift(0) == 1)
                    continue
                for idx in rnp.ndindex(*t0.shape):
                    cl.append(lift(SCplx.of(t1[idx]).re) == lift(SCplx.of(t0[idx]).re))
            label = "%s%s" % (cls, " (%s)" % ", ".join("%s=%s" % kv for kv in kw.items()) if kw else "")
            U.ensure("%s: trace over the degenerate group and over the remaining band unchanged by the rotation" % label, land(*cl))
    U.run(body, check_feasible=False)
    U.assumption("random_gauge rotates the eigenvectors of a degenerate group by one unitary matrix (UU_K unit above), hence every Hamiltonian-gauge matrix X becomes W^dagger X W")


def _replay_gauge_formula(mv, ob):
    import random
    r = _real_periodic_gauge(random.Random(4), 10)
    return dict(reproduced=bool(r["failures"]), input="installed evaluate_k with random_gauge on a model with exact degeneracies", failed=r["failures"][:3])



# the band groups every Fermi-sea trace is taken over never cut a degenerate multiplet (C13's unit, registered here as well: a sea group that
# ends inside a degenerate pair makes the integrated result depend on the gauge inside the pair)
from contracts.C13 import _groups_unit as _c13_groups      # noqa: E402
_c13_groups(3, True, prop="C04")
_c13_groups(4, True, prop="C04")
