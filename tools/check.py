"""entry point of every registered check:  tools/check.py <Cxx> quick|thorough   or   <Cxx> --replay <file>"""
import importlib
import json
import os
import sys

VERIF = os.path.dirname(os.path.dirname(os.path.abspath(__file__)))
sys.path.insert(0, VERIF)
sys.path.append(os.path.join(VERIF, ".overlay"))
REPO = os.environ.setdefault("VERIF_REPO", "/repo")
if REPO not in sys.path:
    sys.path.insert(0, REPO)          # the real package is imported from the tree under check (replay, bounded stand-ins)
os.environ.setdefault("NUMBA_DISABLE_JIT", "1")
os.environ.setdefault("OMP_NUM_THREADS", "1")
os.environ.setdefault("OPENBLAS_NUM_THREADS", "1")
# the installed run() writes result-*.dat / .npz into the working directory: keep those out of /verif
import tempfile
_CWD = tempfile.mkdtemp(prefix="verif-cwd-")
os.chdir(_CWD)


def main():
    if len(sys.argv) < 3:
        print(__doc__)
        return 3
    prop = sys.argv[1]
    try:
        importlib.import_module("contracts.%s" % prop)
    except ModuleNotFoundError as e:
        if "contracts.%s" % prop in str(e):
            print("no contract module for", prop)
            return 3
        raise
    from pyvc.unit import run_check
    if sys.argv[2] == "--replay":
        mod = importlib.import_module("contracts.%s" % prop)
        data = json.load(open(sys.argv[3]))
        print(json.dumps(data.get("replay"), indent=1, default=str))
        if hasattr(mod, "replay_file"):
            return mod.replay_file(data)
        return 0
    tier = os.environ.get("VERIF_TIER") or sys.argv[2]
    if tier not in ("quick", "thorough"):
        tier = "quick"
    return run_check(prop, tier)


if __name__ == "__main__":
    try:
        rc = main()
    except SystemExit:
        raise
    except BaseException:
        import traceback
        traceback.print_exc()
        rc = 3
    sys.stdout.flush()
    import shutil
    shutil.rmtree(_CWD, ignore_errors=True)
    os._exit(rc if isinstance(rc, int) else 3)
