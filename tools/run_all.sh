#!/bin/bash
# runs every claimed check (quick by default) on /repo and validates the evidence files
cd "$(dirname "$0")/.."
tier=${1:-quick}
rc_all=0
for id in $(python3 -c "import json; print(' '.join(c['property_id'] for c in json.load(open('MANIFEST.json'))['checks']))"); do
  out=$(./check $id $tier 2>&1); rc=$?
  echo "$out" | tail -1 | cut -c1-200
  [ $rc -ne 0 ] && { rc_all=1; echo "$out" | grep -E "VIOLATION|UNDECIDED|CRASH" | head -5 | cut -c1-250; }
done
/venv/bin/python - <<'PY'
import json,sys,glob
sys.path.append('/verif/.overlay')
import jsonschema
sch=json.load(open('/root/.vp/EVIDENCE.schema.json'))
man=json.load(open('/verif/MANIFEST.json'))
for c in man['checks']:
    try:
        ev=json.load(open('/verif/'+c['evidence_file'])); jsonschema.validate(ev,sch)
        cov=ev['coverage']
        ok = ev['level']==c['level_claimed']['category'] and (ev['level']!='proof' or cov['obligations']==cov['discharged'])
        print(c['property_id'], 'evidence ok' if ok else 'EVIDENCE MISMATCH level=%s obligations=%s discharged=%s'%(ev['level'],cov.get('obligations'),cov.get('discharged')))
    except Exception as e:
        print(c['property_id'],'EVIDENCE INVALID',str(e)[:200])
PY
exit $rc_all
