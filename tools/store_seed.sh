#!/bin/bash
# store_seed.sh <id> <prop> <patch> <demo> "<needs>" "<breaks>"   -- verifies and stores a seeded change under /verif/seeded/<id>/
set -e
id=$1; prop=$2; patch=$3; demo=$4; needs=$5; breaks=$6
out=$(/venv/bin/python /verif/tools/seeded.py verify $prop $patch $demo)
echo "$out" | head -8
conf=$(echo "$out" | python3 -c "import json,sys; d=json.load(sys.stdin); print(d['confirmed'], d['detected'])")
mkdir -p /verif/seeded/$id
cp $patch /verif/seeded/$id/patch.diff; cp $demo /verif/seeded/$id/demo.py
python3 - "$id" "$prop" "$needs" "$breaks" "$conf" <<'PY'
import json,sys
id,prop,needs,breaks,conf=sys.argv[1:6]
c,d=conf.split()
json.dump(dict(property=prop, breaks=breaks, needs_to_manifest=needs, source="independent sub-agent given only the property text and a scratch worktree",
  confirmed_demo_passes_unchanged_fails_changed=(c=="True"), detected_by_quick_check=(d=="True"),
  ran=["tools/seeded.py verify %s patch.diff demo.py (demo on an unchanged and on a patched scratch copy; ./check %s quick with VERIF_REPO=patched copy)"%(prop,prop),
       "sub-agent: relevant existing test files with the change applied (see its README excerpt in `needs_to_manifest`)"]),
  open("/verif/seeded/%s/meta.json"%id,"w"), indent=1)
PY
echo stored $id $conf
