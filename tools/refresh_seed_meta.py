"""tools/refresh_seed_meta.py <id>...   -- re-run the property's quick check against stored seeded changes and update detected_by_quick_check (keeps the history)"""
import json, os, subprocess, sys
for sid in sys.argv[1:]:
    d = "/verif/seeded/" + sid
    meta = json.load(open(d + "/meta.json"))
    out = subprocess.run(["/venv/bin/python", "/verif/tools/seeded.py", "check", meta["property"], d + "/patch.diff"], capture_output=True, text=True).stdout
    det = out.startswith("rc 1") and "VIOLATION" in out
    if det and not meta.get("detected_by_quick_check"):
        meta["first_stored_as_missed"] = True
        meta["detected_after_strengthening"] = out.splitlines()[0][5:300]
    meta["detected_by_quick_check"] = det
    json.dump(meta, open(d + "/meta.json", "w"), indent=1)
    print(sid, "DETECTED" if det else "MISSED", out.splitlines()[0][:200] if out else "")
