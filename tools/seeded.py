"""tools/seeded.py verify <prop> <patch.diff> <demo.py>   -- confirm a seeded change (demo passes without, fails with) on a scratch copy,
   tools/seeded.py check  <prop> <patch.diff> [tier]      -- run the property's check against the patched scratch copy
   tools/seeded.py all                                     -- run every stored /verif/seeded/<id>/ against its property's quick check
The scratch copy (wannierberri package only, plus what demos need) lives under a temporary directory and is removed afterwards."""
import json
import os
import shutil
import subprocess
import sys
import tempfile

VERIF = os.path.dirname(os.path.dirname(os.path.abspath(__file__)))


def scratch(patch=None):
    tmp = tempfile.mkdtemp(prefix="verif_seed_")
    shutil.copytree("/repo/wannierberri", os.path.join(tmp, "wannierberri"))
    if patch:
        p = subprocess.run(["patch", "-p1", "--no-backup-if-mismatch", "-i", os.path.abspath(patch)], cwd=tmp, capture_output=True, text=True)
        if p.returncode != 0:
            shutil.rmtree(tmp, ignore_errors=True)
            raise RuntimeError("patch does not apply: " + p.stdout[-500:] + p.stderr[-500:])
    return tmp


def run_demo(tmp, demo):
    env = dict(os.environ, PYTHONPATH=tmp, NUMBA_DISABLE_JIT="1")
    p = subprocess.run(["/venv/bin/python", "-W", "ignore", os.path.abspath(demo)], cwd=tmp, capture_output=True, text=True, env=env, timeout=1800)
    return p.returncode, (p.stdout + p.stderr)[-600:]


def run_check(tmp, prop, tier="quick"):
    env = dict(os.environ, VERIF_REPO=tmp, VERIF_TMP=tmp)
    p = subprocess.run([os.path.join(VERIF, "check"), prop, tier], capture_output=True, text=True, env=env, cwd=VERIF)
    viol = [l for l in p.stdout.splitlines() if l.startswith("VIOLATION")]
    return p.returncode, viol, p.stdout[-1500:]


def main():
    cmd = sys.argv[1]
    if cmd == "verify":
        prop, patch, demo = sys.argv[2:5]
        t0 = scratch()
        try:
            rc0, out0 = run_demo(t0, demo)
        finally:
            shutil.rmtree(t0, ignore_errors=True)
        t1 = scratch(patch)
        try:
            rc1, out1 = run_demo(t1, demo)
            rc, viol, out = run_check(t1, prop)
        finally:
            shutil.rmtree(t1, ignore_errors=True)
        print(json.dumps(dict(demo_unchanged_rc=rc0, demo_changed_rc=rc1, confirmed=(rc0 == 0 and rc1 != 0), check_rc=rc, detected=(rc == 1 and bool(viol)),
                              violation=(viol[0] if viol else ""), demo_changed_tail=out1[-300:], demo_unchanged_tail=out0[-200:] if rc0 else ""), indent=1))
    elif cmd == "check":
        prop, patch = sys.argv[2:4]
        tier = sys.argv[4] if len(sys.argv) > 4 else "quick"
        t1 = scratch(patch)
        try:
            rc, viol, out = run_check(t1, prop, tier)
        finally:
            shutil.rmtree(t1, ignore_errors=True)
        print("rc", rc, "\n".join(viol[:3]))
        if rc != 1:
            print(out[-1200:])
    elif cmd == "all":
        base = os.path.join(VERIF, "seeded")
        bad = 0
        for d in sorted(os.listdir(base)):
            meta_p = os.path.join(base, d, "meta.json")
            if not os.path.exists(meta_p):
                continue
            meta = json.load(open(meta_p))
            t1 = scratch(os.path.join(base, d, "patch.diff"))
            try:
                rc, viol, out = run_check(t1, meta["property"], meta.get("tier", "quick"))
            finally:
                shutil.rmtree(t1, ignore_errors=True)
            ok = rc == 1 and bool(viol)
            print("%-28s %s %s rc=%d %s" % (d, meta["property"], "DETECTED" if ok else "MISSED  ", rc, (viol[0] if viol else "")[:140]), flush=True)
            bad += (not ok) and meta.get("expected_detected", True)
        return 1 if bad else 0


if __name__ == "__main__":
    sys.exit(main())
