"""tools/store_round.py <prop> <outdir>  -- verify and store the changes of one sub-agent round (change_k.diff / demo_k.py / README.md) as seeded/<prop>-sN"""
import os, re, subprocess, sys
prop, out = sys.argv[1], sys.argv[2]
readme = open(os.path.join(out, "README.md")).read() if os.path.exists(os.path.join(out, "README.md")) else ""
have = [int(m.group(1)) for d in os.listdir("/verif/seeded") for m in [re.match(prop + r"-s(\d+)$", d)] if m]
n = max(have, default=0)
for k in (1, 2, 3, 4):
    patch, demo = os.path.join(out, "change_%d.diff" % k), os.path.join(out, "demo_%d.py" % k)
    if not os.path.exists(patch):
        continue
    paras = [p for p in re.split(r"\n\s*\n|\n(?=[-*\d#])", readme) if re.search(r"change[_ ]?%d\b|^#+ .*\b%d\b|^\s*%d\. " % (k, k, k), p, re.I | re.M)]
    txt = " ".join(" ".join(paras[:2]).split())[:700] or "see patch"
    n += 1
    r = subprocess.run(["/verif/tools/store_seed.sh", "%s-s%d" % (prop, n), prop, patch, demo, "round 2; sub-agent README excerpt: " + txt, txt[:300]], capture_output=True, text=True)
    print(r.stdout.strip().splitlines()[-1] if r.stdout.strip() else r.stderr[-300:])
