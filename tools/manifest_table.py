"""what MANIFEST.json claims, per property (edited by hand as checks are built)"""
TB = ("trusted: the pyvc engine, CPython executing the extracted text, z3/cvc5; float64 treated as exact reals; "
      "dropped decorators do not change values; externals listed in the evidence file")

CLAIMED = {
    "C14": dict(
        text="Unbounded proof (all corner energies, all Fermi-level arrays of any length, der 0-3, both evaluation branches) that "
             "weights_tetra returns Bloechl's volume fraction / its derivatives of the perturbed sorted corners: loop invariants on "
             "the real loops, a proved mid-condition (corners strictly increasing and equal to spread(sort(inputs))), spec lemmas "
             "(range [0,1], monotone, Taylor identity tying the derivative specs to V, permutation symmetry). The parallelepiped and "
             "tetrahedron K-point callers are verified against weights_tetra's contract (12-tetrahedra decomposition, /12, complement). "
             "Bounded stand-in: the same contract evaluated on the real function for seeded random corners. "
             "weights_all_band_groups (sea / anti-sea completion) is verified per shape (1-3 bands, all real energies) against the contracts of its callees: blocks disjoint, CumDOS = number of bands above all energies and 0 below; bounded stand-in on real TetraWeights objects incl. independence from earlier calls.",
        note=TB + "; sorted() on 4 values = compare-exchange network; numba compiles the python semantics"),
}

CLAIMED["C15"] = dict(
    text="get_borders (plain and Kramers) and find_degen: unbounded proof, for any number of bands, that the returned blocks are "
         "non-empty, contiguous, cover [0,n), that a position is a block boundary iff the gap below it exceeds the threshold (and is "
         "even with Kramers), hence internal gaps <= threshold -- np.where/zip(b,b[1:]) are modelled as a sorted index set with an "
         "order-isomorphic enumeration. select_window_degen: proved for ALL real energies/thresholds/windows at each band count "
         "NB=1..5 (quick) / 1..6 (thorough), both include_degen settings: no pair closer than the threshold is separated, plus "
         "minimality/maximality of the selection (per-shape proof: loops fully unrolled, complete for that NB). Bounded stand-ins with "
         "dyadic energies so that gaps equal to the threshold occur. Not covered: Tabulator.__call__ group averaging and the "
         "wannierise window bookkeeping lines are not under contract.",
    note=TB + "; Kramers precondition: even number of bands; np.where/zip external contracts")

CLAIMED["C17"] = dict(
    text="EnergyResult.dataSmooth: unbounded proof (any number of energy axes) by loop invariant over abstract smoothers that the result "
         "is S_0(S_1(...S_{N-1}(data))) with smoother i applied along axis i. AbstractSmoother.__call__: unbounded proof of the window "
         "algebra for every grid size NE, kernel half-width NE1 and position i (data and weight windows in bounds, equal length, aligned, "
         "equal to the kernel clipped to the grid); per-shape proofs with the REAL numpy on symbolic scalars (ranks 1-4, every tested axis, "
         "kernel narrower and wider than the grid) that each output element is the normalised weighted average along the requested axis "
         "only -- hence linear, constant-preserving, other axes untouched. VoidSmoother identity and get_smoother dispatch. "
         "Bounded stand-in: real EnergyResult objects with 1-3 energy axes and real smoothers.",
    note=TB + "; assumed: the kernel weights are positive (Gaussian, -df/dE) so window sums are non-zero; smoothers along distinct axes commute (linear maps along different axes); np.tensordot contract (equal contracted extents) in the unbounded unit")

CLAIMED["C12"] = dict(
    text="run_grid.process (real text, extracted on every run) executed for EVERY behaviour of ray.wait allowed by its documented contract "
         "(any subset of at most num_returns ready refs per call, in input order; readiness monotone; timeouts may return fewer), with "
         "symbolic per-K results: exhaustive over n = 1..3 remote K-points with 2-3 unconstrained wait rounds (quick), n = 4 / 4 rounds "
         "(thorough), 1 or 2 CPUs, three storage modes, with and without an already evaluated prefix. Proved per schedule: each result is "
         "set exactly once on its own K-point, the returned sum equals the serial sum, the count is right, storage flags honoured; the "
         "serial branch satisfies the same contract. Complete for the stated sizes (explicit enumeration of the external's behaviours, not "
         "an unbounded proof). Replay: the imported process() under a fake ray with an adversarial schedule. "
         "The path re-ordering clause (TABresult.self_to_path) is covered under C29.",
    note=TB + "; ray.wait / ray.get external contracts as quoted from ray's documentation; schedule space bounded in n and in the number of unconstrained rounds")

CLAIMED["C11"] = dict(
    text="run_grid.read_factors (real text) executed for EVERY order in which glob may list the factor files -- all permutations of file "
         "sets with up to 3 (quick) / 4 (thorough) files incl. gaps, numerically-vs-lexicographically different names and the largest "
         "8-digit iteration, restart_iteration -1..-5 and explicit iterations -- with the file names produced by the REAL write_factors: the "
         "iteration chosen is max+iter+1 (clamped, closest earlier file if missing), independent of the listing. Complete for the stated "
         "sizes (explicit enumeration of the external's behaviours). The state-reconstruction and continuation clauses are carried by a "
         "bounded stand-in only: real run() of N iterations vs run(k)+restart(...) under sorted/reversed/rotated listings, memory and "
         "dump_results storage, random 3-band models (labelled bounded, not counted as proved).",
    note=TB + "; glob.glob external contract: matching paths in arbitrary order; np.save/np.load and pickle value round trip assumed")

CLAIMED["C19"] = dict(
    text="EIG/AMN/MMN.to_w90_file (real text) executed on symbolic data -- every stored number a distinct symbol, a formatted symbol a "
         "token -- with a capturing file: the writers are total and the token stream equals the Wannier90 layout consumed by the matching "
         "reader (index order, 1-based indices, header counts, m-outer/n-inner transposition of mmn, neighbours and G taken from the "
         "b-vector object), per shape (three shapes per file type). dic_to_keydic/keydic_to_dic (real text): round trip for integer keys "
         "0..120 in the presence of the other saved tags, keys sharing a prefix are not swallowed, class tags read from the sources are "
         "prefix-free. The reader side and the binary form are carried by a bounded stand-in: real writer -> real file -> real reader for "
         "EIG, AMN, MMN (with a real BKVectors of a 2x2x2 mesh), and npz save/load of each, compared with equals() and exactly. "
         "Not covered: WannierData.to_npz/from_npz container wiring.",
    note=TB + "; text model: a formatted number is one whitespace-free token that parses back to the number at printed precision; np.loadtxt / np.savez value round trip; multiprocessing.Pool.map == map")

CLAIMED["C33"] = dict(
    text="Corner-energy routines of every system kind (Data_K_R, Data_K_soc, Data_K_k; parallelepiped and tetrahedron variants) executed "
         "as real text on the real numpy with symbolic scalars: dK / tetrahedron vertices symbolic reals, Hamiltonian entries symbolic "
         "complex, exp(2*pi*i*x) a symbolic phase with the homomorphism laws. Proved for all dK, vertices and matrix entries at the stated "
         "shapes (2 bands per spin, 2-4 R-vectors, up/down/SOC R-vector sets all different): the coefficient handed to each sub-system's "
         "R_to_k for corner v is H[R]*ph(R.v) with that sub-system's OWN Hamiltonian and R-vectors, one transform and one diagonalisation per "
         "corner, the diagonalised SOC matrix is up at [::2,::2] + down at [1::2,1::2] (+ SOC term); k.p systems evaluate Ham at k+v. "
         "Bounded stand-in: a real random SOC system with a permuted down R-list against the package's direct evaluation. "
         "Not covered: phonon systems (phonon_freq_from_square applied to corners) and band selection are taken as frame conditions.",
    note=TB + "; axioms: ph(x)ph(y)=ph(x+y), 1/ph(x)=ph(-x), 2*pi*n computed in floats is the exact multiple; R_to_k contract (C02): sum_R X[R] ph(R.k) with the rvec's own R list; eigvalsh external")

CLAIMED["C18"] = dict(
    text="read_WCC_WT_format (real text): UNBOUNDED proof over the number of Wannier functions n (lambda arrays, slice assignments with "
         "symbolic extents) that for the writer's layout (even rows then odd rows) the returned array equals the original row by row, "
         "including the length agreement of both slice assignments (this is the obligation the odd-n defect failed). write_WCC_WT_format: "
         "the layout assumed there is proved per shape n = 1..7. The npz-directory, _tb.dat and _hr.dat + centre-file round trips of whole "
         "systems are carried by a bounded stand-in only: real files of random Hermitian systems with num_wann = 1,2,5 (quick) / 1..6 "
         "(thorough) on 27 R-vectors and on R-sets of 13, 15, 17, 45 (thorough: 1..75) vectors (the 15-per-line layout's corner cases), comparing lattice, centres, Ham(R) and band energies at random k (labelled bounded, not counted as proved). "
         "Not covered deductively: index orders and degeneracy factors of the _tb.dat/_hr.dat writers/readers, PointGroup serialisation.",
    note=TB + "; text model: float(token) returns the number written to printed precision; np.savez/np.load value round trip")

CLAIMED["C04"] = dict(
    text="The documented random gauge: (i) class-shape obligations -- every attribute Data_K.UU_K / Data_K.degen read on self is assigned "
         "in the class hierarchy (the two obligations the unchanged tree failed); (ii) Data_K.degen (real text) for all real sorted "
         "energies at nb = 2..5: the groups are exactly the maximal runs of consecutive gaps <= threshold of length > 1; (iii) Data_K.UU_K "
         "(real text, real numpy on symbolic complex entries, 2 k-points x 4 bands): each degenerate group's columns are the old columns "
         "times that group's unitary matrix, every other entry untouched, nothing happens without the option; (iv) periodicity: the real "
         "R_to_k chain of C02 at k and k+G (explicit k-list, FFT grid with the K-point shifted by a reciprocal lattice vector), "
         "derivative orders 0-2, symbolic data / k / centres: identical matrices; (v) gauge covariance at the formula level: the real text "
         "of Velocity, InvMass, Omega, DerOmega, Spin, DerSpin, Morb_H, morb (internal / external variants) on the real formula classes and "
         "Data_K.covariant / D_H / dEig_inv, symbolic Hamiltonian-gauge matrices with an exactly degenerate pair of bands: the traces over "
         "the degenerate group and over the remaining band do not change when every matrix X becomes W^dagger X W with an exact U(2) "
         "rotation W inside the group (11 variants, per shape). End to end (eigen-solver, all tabulators) remains a bounded stand-in: "
         "evaluate_k on random Hermitian models at k, k+G and with random_gauge, plus a doubled model with exact degeneracies.",
    note=TB + "; scipy.stats.unitary_group.rvs returns a unitary matrix (external); np.linalg.eigh external: the formula-level units take the Hamiltonian-gauge matrices as inputs")

CLAIMED["C23"] = dict(
    text="get_mp_grid and grid_from_kpoints (real text) executed exhaustively over the finite domain the property quantifies over: every "
         "mesh size N = 1..100 per direction (the supported denominator; directions are independent: the per-direction loop reads only its "
         "own column, checked on the text), ascending/descending/shuffled listings, coordinates shifted by lattice vectors; and for point "
         "selection every mesh up to 3x3x3 (plus 4x1x2, 5x2x1) with every single missing point, every single duplicated point, every "
         "(missing, duplicated) pair and interleaved off-grid points: each mesh point is returned exactly once, incomplete meshes raise "
         "ValueError. Complete for mesh sizes (finite domain); listing orders are sampled (3 per mesh), which is the bounded part.",
    note=TB + "; Fraction.limit_denominator and np.lcm.reduce are external (exercised by the enumeration itself, since the real functions run)",
    category="proof")

CLAIMED["C06"] = dict(
    text="Weight bookkeeping of the K-point machinery (real text) with SYMBOLIC weights and coordinates: absorb (all flag combinations), "
         "divide (children count, weight/prod(ndiv), exact tiling of the parent cell per axis, parent weight 0, non-periodic axes) for six "
         "refinement meshes, exclude_equiv_points for EVERY equivalence pattern of up to 4 (quick) / 5 (thorough) points and every number of "
         "new points (total weight conserved, only new points removed, each removed point absorbed by one equivalent survivor, order "
         "kept), KpointBZtetra.__init__/divide with symbolic vertices (absolute corners kept, uniform split of the longest edge, "
         "signed child volume = parent/ndiv as a polynomial identity), and the literal five-tetrahedra table of GridTetra read from the "
         "source: volumes, coverage of the cell and pairwise disjoint interiors in linear real arithmetic (unbounded). Per-shape in the "
         "refinement mesh / number of points, for all real weights. Bounded stand-in: Grid.get_K_list with six real (magnetic) point "
         "groups on compatible small grids (orbits partition the grid, weight = orbit size / N) and a refinement step with merging. "
         "Not covered: PointGroup.star itself (see C09), split_tetra_* loops (termination not claimed).",
    note=TB + "; assumed: equiv() is an equivalence relation and equivalent points have equal distGamma; orbit-stabiliser for 'exactly once' is only checked on the enumerated groups")

CLAIMED["C13"] = dict(
    text="StaticCalculator.__init__/__call__ (real text, real numpy, SYMBOLIC formula values) for every position of a group energy "
         "relative to the extended Fermi grid (below, on each grid point, inside each interval, above -- complete for all real energies "
         "because the code reads an energy only through <, <= and ceil against that grid), other groups at three background positions: "
         "out[j] = c/(V nk) times the fder-th central difference of sea(E) = sum over groups with E_g <= E of the formula's trace, for "
         "fder 0-3, additive and non-additive formulas, k-resolved (one row per k, same values) and integrated, hole_like/use_factor; "
         "per shape (nEF 1,2,4; <= 3 groups per k-point). get_bands_in_range_groups_ik with get_bands_in_range/get_bands_below_range/"
         "get_borders (real text, model numpy) for ALL real sorted energies at NB = 1..4: keys pairwise disjoint, each a whole degenerate "
         "group with its mean energy, present iff it meets the window, the sea key collects exactly the bands below the window that belong "
         "to no in-window group (a group straddling emin counted whole, once). weight_select_bands exhaustively for blocks within 5 bands. "
         "CumDOS corollaries follow (formula = group size); the tetrahedron branch is covered under C14.",
    note=TB + "; uniform Fermi grid taken from the property statement; interaction of more than one moving group is covered only through three background configurations")

CLAIMED["C25"] = dict(
    text="SOC.get_C_ss/get_pauli_rotated (real text, real numpy einsum on symbolic scalars): for ALL quantisation axes (half-angle cosines "
         "and sines as reals on the unit circle) the rotated Pauli matrices are Hermitian, satisfy sigma_a sigma_b = delta_ab + i eps_abc "
         "sigma_c and n.sigma' = diag(+1,-1) -- unbounded in the angles (18 polynomial identities modulo c^2+s^2=1). double_spin of system "
         "and R-vectors, Data_K_soc.HH_K assembly, SystemSOC.set_soc_axis block structure (nspin 1 and 2, alpha scaling, conjugated "
         "(1,0) blocks) and merge_Rvectors + get_system_R (different R-sets): proved for all complex matrix entries at small fixed shapes. "
         "'Same spectrum' then follows from block structure (H (x) 1_2; block diagonal without SOC) with the standard spectral facts as "
         "stated assumptions. Bounded stand-in: real doubled systems have every band twice at random k.",
    note=TB + "; assumed: cos^2+sin^2=1, exp(-ix)=cos x - i sin x, double-angle formulas; a block-diagonal matrix has the union of the blocks' spectra, A (x) 1_2 has every eigenvalue of A twice")

CLAIMED["C09"] = dict(
    text="PointSymmetry (real text, real numpy on symbolic 3x3 matrices and tensors; no orthogonality needed): product law for the full "
         "(im)proper matrices, TR/Inv flags as xor; transform_tensor equals 'rotate every one of the last rank axes, then transformTR iff "
         "TR, then transformInv iff Inv' and satisfies the ACTION LAW (s1*s2).T(x) = s1.T(s2.T(x)) for ranks 0-3 with 0-1 leading axes and "
         "every combination of the pre-defined (involutive) transforms; Transform.__call__ element-wise and involutive; "
         "transform_reduced_vector definition and composition law for symbolic operations on four rational bases. The closure loop of "
         "PointGroup.__init__ is run as real text over abstract groups (multiplication tables of Z1-Z6, Z2xZ2, S3, D4) for every generator "
         "subset: the result is exactly the generated subgroup. Proved for all real data at these shapes. Bounded stand-in: 10 (quick) / "
         "29 (thorough) crystallographic point groups, each with and without time reversal: closure, identity, inverses, lattice "
         "invariance, symmetrize idempotent and invariant (ranks 1-3), star lists each distinct image once on generic and high-symmetry k.",
    note=TB + "; the action law is claimed for involutive transforms only (all pre-defined ones); det(R1 R2)=det R1 det R2; np.linalg.inv exact; star / symmetrize / lattice checks are bounded")

CLAIMED["C12"]["text"] = CLAIMED["C12"]["text"].replace("The path re-ordering clause (TABresult.self_to_path) is covered under C29.",
    "TABresult.self_to_path + K__Result.to_path (real text): for paths of 1-5 points EVERY collection order (9 points: 40 sampled orders), "
    "k-points returned modulo lattice vectors, symbolic values: the result is in path order and row j carries path point j's own value. "
    "get_ray_runtime_env: the driver's package directory is shipped exactly once for every user runtime_env variant.")

CLAIMED["C10"] = dict(
    text="run_grid.run composed with run_grid.process (both real text, extracted on every run) executed for EVERY refinement history of "
         "small size with SYMBOLIC per-K results: 2-4 initial K-points (incl. weights far below 1e-6), 0-2 (quick) / 3 (thorough) refinement "
         "iterations, every choice of the refined point, every merge pattern allowed by exclude_equiv_points' contract (no merge / a new "
         "point absorbed by any earlier point), storage modes memory / dump_results / allow_restart / discarded, with and without symmetry "
         "reduction; plus restarted runs (restart from the last or an earlier stored iteration, state rebuilt from what the first run "
         "wrote). At every savedata call and on return: result == sum_i factor_i * result_i over the current list (exact: all weight "
         "changes in these histories are 0 or far above the 1e-8 cut-off); every point evaluated exactly once; total weight 1; restart "
         "weights written per iteration equal the current ones. Complete for the stated sizes (per shape), for all result values. "
         "Bounded stand-in: real run() on a random model with a hooked savedata.",
    note=TB + "; divide / exclude_equiv_points / get_K_list used through their C06 contracts (2 children per refinement); symmetrize identity; pickle and np.save value round trip")

CLAIMED["C11"]["text"] = CLAIMED["C11"]["text"].replace("The state-reconstruction and continuation clauses are carried by a "
         "bounded stand-in only:", "State reconstruction and continuation: run()+process() (real text, shared machinery with C10) for every "
         "refinement/merge history of 2-3 initial points and 1-2 iterations, restarted from the last or an earlier stored iteration and "
         "restarted a second time: the K-point file holds every K-point once in list order (Klist_part 1, 2, 10), weights are written "
         "under the global iteration number, the rebuilt state satisfies result == sum factor*result after every later iteration. "
         "Additionally a bounded stand-in:")

CLAIMED["C16"] = dict(
    text="EnergyResult / ResultDict / VoidResult / K__Result arithmetic (real text, real numpy, SYMBOLIC data): element-wise +, -, *, /, "
         "in-place add, mul_array along either energy axis, for 1-2 energy axes and ranks 0-2; metadata propagation; 0/None/void neutral; "
         "mismatching energy grids or smoothers refused; EnergyResult.transform hands its own rank and declared TR/inversion transforms "
         "(right slots) to the real PointSymmetry.transform_tensor and distributes over + for a symbolic operation; ResultDict key-wise. "
         "K__Result: + is concatenation along k (the structure its callers use), add/-/* element-wise, and '/' returns an unscaled copy "
         "-- recorded as the coded semantics, not claimed as scaling. Persistence: the extracted Result.save / EnergyResult.as_dict / from_npz / "
         "Transform.as_dict / transform_from_dict run on SYMBOLIC data with the npz file replaced by its documented contract (every keyword comes "
         "back as asarray(value) under its key): energies axis by axis, data element-wise, rank, each transformation under its own name, comment, "
         "titles, file name, missing-file behaviour (3 shapes incl. three energy axes and fewer titles than axes). Per shape, for all real data. "
         "Bounded stand-in: EnergyResult.save -> from_npz on real files (validates that npz contract on the installed numpy) reproduces energies, "
         "data, rank, both transformations (incl. conj, swap_axes, transpose) and comment.",
    note=TB + "; np.savez / np.load value round trip; the property's 'element-wise' does not literally hold for K__Result.__add__ and __truediv__ (stated, see DESIGN 5/C16)")

CLAIMED["C26"] = dict(
    text="SystemInterpolator.__init__ and interpolate (real text, real numpy, SYMBOLIC matrix entries, centres and alpha) for four R-set "
         "configurations (partial overlap, disjoint, equal in different order, nested): the new R list is the duplicate-free union used by "
         "both stored systems, every old X(R) sits at the slot of its own R and every other slot is zero (so all Fourier sums are unchanged), "
         "one-sided matrix keys are removed from both, the caller's systems are untouched; interpolate(alpha) is (1-alpha)A + alpha B for "
         "every matrix entry and centre with symbolic alpha, and reproduces A / B exactly at 0 / 1; point-group choice; SOC variant "
         "interpolates up/down with the same alpha. Per shape, for all complex data and all alpha. Bounded stand-in: real random systems "
         "on different R-sets, H(k) at the endpoints and the midpoint. Recorded observation: the interpolated system keeps system0's "
         "R-vector shifts for every alpha.",
    note=TB + "; copy.deepcopy copies; set() iteration order arbitrary (the obligations do not depend on it)")

CLAIMED["C29"] = dict(
    text="Path.from_nodes (real text, real numpy, SYMBOLIC node coordinates) for node patterns with 0-2 breaks and nk as an integer or per "
         "segment: every node in order at the expected index with its label, uniform sampling of each segment, a break repeats the node "
         "before it and is recorded there, last node appended; the dk/length variant on concrete nodes and three lattices. "
         "Path.get_refined for symbolic k-points, every break set of a 5-point path and factors 1-3: original points at pos(i), uniform "
         "subdivision, labels/breaks moved along. Path.get_K_list for every batch size 1-9: batches concatenate to the path. "
         "Path.getKline on concrete paths: 0 at the start, Cartesian segment lengths, 0 across breaks, non-decreasing. Per shape, for all "
         "real node coordinates. 'Path order with each point's own values' is TABresult.self_to_path, proved for every collection order "
         "in C12; that a tabulator's row depends on its own k-point only is the k-list Fourier contract (C02, not built).",
    note=TB + "; sampling fractions t/(nk-1) are checked with dyadic nk (exact in floats); evaluate_k_path itself is not under contract")

CLAIMED["C30"] = dict(
    text="TABresult.to_grid with K__Result.to_grid (real text, real numpy, SYMBOLIC tabulated values) for every grid with 1-3 points per "
         "direction plus 2x3x4, 4x1x3, 5x2x2, the evaluated k-points shuffled, shifted by lattice vectors, with duplicated points and an "
         "off-grid point: the new k-list is the grid in C order (k_new[iz+g2(iy+g1 ix)] = (ix/g0,iy/g1,iz/g2), each grid point once) and the "
         "value stored at a grid point is the mean of exactly the rows evaluated at that point. TABresult.find_grid exhaustively for all "
         "complete grids with 1-6 points per direction. get_component for symbolic tensors of rank 0-3: every 'xyz' string (both cases), "
         "every index tuple, 'trace', 'norm', 'sq' equal the algebraic operation; non-existing letters / wrong types raise. Per shape, for "
         "all real values. TabulatorAll (assembled from the extracted text): every K-point yields one TABresult holding a copy of ITS kpoints_all and every tabulator evaluated on THAT Data_K, Energy always included, band selection handed down, conflicting selections refused; TABresult.get_data in grid (C order) and path mode, self_to_grid, get_component_list. Unbounded z3 lemma: the slot formula k2 + g2 (k1 + g1 k0) is a bijection onto [0, g0 g1 g2) for ALL grid sizes. "
         "That the values at a grid point are those 'obtained by evaluating that point alone' rests on the per-k "
         "independence of the Fourier back ends (C02/C03). Observation (not part of the property): an index string longer than "
         "the tensor rank silently indexes the k axis instead of raising.",
    note=TB + "; np.linalg.norm = sqrt of the sum of squares; on-grid test tolerance 1e-5 as coded")

CLAIMED["C22"] = dict(
    text="BKVectors.find_G_and_neighbours (real text) exhaustively for every mesh with 1-3 points per direction (+4x2x1), shuffled k-points "
         "and b-vectors incl. long and negative ones: k + b = k_neighbour + G*N for every pair; incomplete meshes raise. "
         "BKVectors.get_shell_weights (real text, real numpy, SYMBOLIC shell vectors, arbitrary shell weights through a symbolic SVD "
         "factor): on every path that returns arrays the flattened b-vectors and weights satisfy || sum_b w_b b_i b_j - delta_ij || <= "
         "bk_complete_tol -- proved in three cheap steps (flattening exact entry by entry; the contract's sum of squares is the polynomial whose norm the code tested; norm <= tol gives the bound) so that the completeness relation is a consequence of the guard for whatever the SVD produced; weights constant "
         "per shell, shells whole and in order, lattice/Cartesian vectors paired (two shells of 2 and 4 vectors). k_to_shells on concrete "
         "vector sets. Closure under b -> -b with equal weights and 'whole shells of mesh vectors' are geometric and carried by a bounded "
         "stand-in only: find_bk_vectors on 4 (quick) / 9 (thorough) lattices covering the crystal systems and 2-3 meshes.",
    note=TB + "; np.linalg.svd treated as returning arbitrary factors (u=1, s=1, v symbolic spans all weight vectors); np.linalg.norm = Frobenius norm; is_parallel_shell receiving lattice coordinates is not examined")

CLAIMED["C02"] = dict(
    text="Every Fourier back end returns the spec sum F(X,k) = sum_R X[R] ph(k.R) of the SAME data at the SAME k-points, hence they agree: "
         "the real text of FFT_R_to_k (all methods; fftw, numpy, slow and explicit k-list paths), fft_np / fft_W / execute_fft, "
         "Rvectors.set_fft_R_to_k / apply_expdK / derivative / R_to_k / cRvec_shifted / shifts_*, utility.cached_einsum, Data_K_R.HH_K / Xbar / "
         "_R_to_k_H / get_R_mat, Data_K._rotate / kpoints_all / nk and GridAbstract.points_FFT is executed on numpy object arrays with "
         "symbolic matrix elements, symbolic K-point shift dK, symbolic k-list and symbolic Wannier centres; phases are formal characters "
         "ph(linear form) and every obligation is coefficient-wise equality with the spec (z3, reals). Proved per shape (FFT boxes 2x1x1 ... "
         "3x2x2 quick, up to 3x3x3 / 5x1x2 thorough; R-sets with vectors outside the box, +-R pairs and collisions modulo the box; 2 bands; "
         "derivative orders 0-3; hermitian on/off): out[ik] (C order) = F(X_der, n/NKFFT + dK) resp. F(X_der, k_list[i]); HH_K Hermitian part; "
         "Xbar('Ham',1) = U^dagger F U with the k-point's own U; derivatives of a Hermitian model are Hermitian without being forced. "
         "Bounded stand-in (validates the external DFT contracts): installed code with real numpy.fft and pyfftw on random models, all four back ends.",
    note=TB + "; external: numpy.fft.ifftn / pyfftw BACKWARD = normalised inverse DFT, fftn / FORWARD = unnormalised forward DFT; np.exp(2j*pi*x) = ph(x) with ph(x)ph(y)=ph(x+y), ph(n)=1; "
              "characters of distinct linear forms independent (coefficient-wise comparison is sufficient; a mismatch is reported only with a replay on the real code or as a failed obligation); float products with 2*pi snapped to rationals")

CLAIMED["C03"] = dict(
    text="Chain of contracts: (1) Grid.get_K_list(use_symmetry=False) and (2) KpointBZ.Kp_fullBZ, Data_K.kpoints_all / nk, GridAbstract.points_FFT "
         "(real text) executed for EVERY factorisation NKdiv x NKFFT of anisotropic meshes with up to 6 (quick) / 8 (thorough) points per "
         "direction: FFT point i of K-point x is the dense-mesh point i*div+x in C order, every dense point exactly once, total weight "
         "factor/nk = 1/prod(N); unbounded z3 lemma (non-linear integer arithmetic) that (i,x) -> i*div+x is a bijection onto the dense mesh for "
         "ALL div, FFT >= 1 and k = n/(div*FFT); run()'s nested paralfunc (extracted by name) builds Data_K with dK = Kpoint.Kp_fullBZ; (3) "
         "StaticCalculator.__call__ (unit shared with C13, 2-3 k-points) and DynamicCalculator.__call__ (symbolic matrix elements) return the "
         "plain average over the k-points of a per-k summand; (5) determineNK exhaustively on sampled (NK, NKFFT, NKdiv, periodic) inputs. "
         "That the interpolated data at a dense-mesh point do not depend on the factorisation or library is C02. Assumed, not proved: a "
         "calculator's per-k summand depends only on the data at that k-point. Bounded stand-in: installed run() over factorisations of a "
         "4x2x6 mesh with fftw and numpy for DOS / CumDOS / AHC.",
    note=TB + "; float k-coordinates compared with the exact mesh to 1e-9; tetrahedron-corner offsets covered by C33")

CLAIMED["C01"] = dict(
    text="The real text of Rvectors (set_Rvec, remapper, remap_XX_from_grid_to_list_R, remap_XX_R, set_fft_q_to_R, q_to_R, reverseR, conj_XX_R), "
         "WignerSeitz, utility.iterate_nd and fft.execute_fft is executed with CONCRETE geometry (real numpy floats: 3 (quick) / 4 (thorough) "
         "lattices cubic / triclinic / hexagonal / orthorhombic, meshes with 1, 2 or 4 points per direction listed in shuffled order and "
         "shifted by lattice vectors, centres on sites, bond centres, outside the home cell, coinciding; tolerances 1e-5..1e-2; scalar and "
         "vector valued) and SYMBOLIC Hermitian matrices per mesh point: proved for all data that interpolating back gives the input at every "
         "mesh point, that X(-R) = X(R)^dagger with every R paired, that the replica weights of every mesh vector and pair add to 1 (so to "
         "N1 N2 N3 per pair), that Rvectors.remap_XX_R preserves the matrices at the mesh points, and that System_R.do_ws_dist (with exclude_zeros; symbolic entries read as generic non-zero values) keeps every matrix of a system with different non-zero patterns (hoppings, on-site spin, two-vector position matrix) on one common R list. Known finding K1 (recorded, not repaired): Hermiticity fails for one strongly skewed non-reduced cell whose nearest replicas reach the edge of the +-3 super-cell search box. WignerSeitz.__call__ "
         "for EVERY table of distances (symbolic reals, 2 mesh points x 3 replicas): >= 1 entry per mesh point, multiplicities, iRvec mod N. "
         "WignerSeitz.__init__ (extracted, 4 meshes x 3 search sizes): the candidates of every mesh point are exactly its replicas within the search "
         "size, both signs alike, with matching Cartesian vectors. Rvectors.set_Rvec (extracted, Wigner-Seitz search replaced by its contract: "
         "arbitrary per-shift lists with components up to 9): the common R list is the duplicate-free union and every index list points at its own vectors. "
         "Mesh sizes other than 1, 2, 4 need cyclotomic arithmetic the engine lacks: covered only by the bounded stand-in (installed code, "
         "random lattices, meshes 1..5, both FFT libraries).",
    note=TB + "; external DFT contract as in C02; 1./Ndegen read as the rational; np.allclose in the code's own sanity assertions read as equality; np.linalg.norm / np.unique on concrete geometry are real numpy")

CLAIMED["C27"] = dict(
    text="Sum rule: the real text of formula.covariant.Omega (internal terms) on the real Formula / Formula_ln / Matrix_ln / elementary.Dcov "
         "classes, executed on symbolic anti-Hermitian D (what a Hermitian model gives): for every partition of 2, 3 (quick) / 4 (thorough) "
         "bands into band groups the traces over all groups add up to zero in all three components, at every k -- proved for all such D "
         "(per shape), with a non-vacuity clause (one band alone is not identically zero). Data_K.D_H / dEig_inv (real text, symbolic "
         "energies and velocity matrices, every ordering of gaps relative to the 1e-7 threshold): D = -V/(E_m-E_n), zero inside degenerate "
         "groups, anti-Hermitian when V is Hermitian. AHC.__init__: Formula = Omega, Fermi-sea (fder 0), constant -e^2/(hbar Angstrom); "
         "with StaticCalculator's Fermi-sea semantics (C13) the internal AHC above all bands vanishes. Chern quantisation is a statement "
         "'up to discretisation error': bounded stand-in only (Haldane models of both builders, topological and time-reversal symmetric "
         "phase, 36x36 / 48x48 grids, |sigma_xy c/(e^2/h) - integer| < 0.02) plus the sum rule on random Hermitian systems with the installed code.",
    note=TB + "; np.einsum on object arrays is numpy's own sum of products; ndarray.real is the identity on object arrays, the harness takes the real part")

CLAIMED["C05"] = dict(
    text="System_R.reorder with Rvectors.reorder (real text) for EVERY permutation of 3 Wannier functions on symbolic matrices (Ham, "
         "vector-valued AA), symbolic centres, symbolic left and (optionally separate) right R-vector shifts: X'[R,a,b,..] = X[R,p(a),p(b),..], "
         "centres / names / both shift sets permuted alike, caches dropped (R + tau_b - tau_a recomputed), and -- through the real R_to_k chain "
         "of C02 with symbolic K-point shift -- the first k-derivative of every matrix of the relabelled system is the relabelled derivative "
         "of the original at every k-point. Co-centred rotation: for an exact block unitary W over two Wannier functions with a common "
         "(symbolic) centre, the interpolated matrices and their k-derivatives of orders 0-2 of W^dagger X W equal W^dagger M(k) W. Both are "
         "k-independent unitary changes of the Wannier gauge; invariance of energies and of gauge-covariant formulas under such a change "
         "is the gauge-covariance contract of C04 (assumed here, bounded there). Bounded stand-in: installed run() / evaluate_k on "
         "relabelled and U(2)-rotated random Hermitian systems.",
    note=TB + "; external DFT contract as in C02")

CLAIMED["C08"] = dict(
    category="other",        # one formula-level obligation is the recorded finding K5 and stays undischarged
    text="(Mixed: every obligation discharged except the one that is the recorded known finding K5 -- the antisymmetric SDCT Fermi-surface term II under time reversal.) Decided by contracts (real text, per shape / exhaustive over the tables): get_transform_TR / get_transform_Inv (every k-derivative flips "
         "both parities; Hamiltonian even/even, spin / curvature-like / orbital-like matrices TR-odd and inversion-even; gauge-dependent matrices "
         "without parity; unknown names refused); Data_K.covariant hands each (name, derivative order) its table entry, the generalised "
         "derivative one more order, the velocity odd/odd; Transform.__call__ (permutation, conjugation, sign) and TransformProduct on symbolic "
         "tensors; Tabulator.__call__ forwards the formula's declarations; the constructors of 12 formula classes assign parity(base quantity) x "
         "(-1)^(number of k-derivatives). Formula level (per shape, all matrix values): the REAL text of Velocity, InvMass, Der3E, Omega, DerOmega "
         "(internal / with external terms), Spin, DerSpin, Morb_H, morb on top of the real Formula / Matrix_ln / Matrix_GenDer_ln / Dcov / DerDcov / "
         "DerWln / Eavln classes and the real Data_K.covariant / V_covariant / D_H / dEig_inv is executed on symbolic Hamiltonian-gauge matrices "
         "(Hermitian, 3 bands, generic energies) at k and on their images at -k (time reversal: +-conj, inversion: +-, sign from the parity table, "
         "position-like AA / BB even-with-conjugation resp. odd): the band-group traces at -k equal the declared transformation of those at k, "
         "with a non-vacuity clause -- 12 formula variants x 2 symmetries. End to end (eigen-decompositions of a symmetric model at two "
         "k-points) is a bounded stand-in: installed Data_K_R with 9 "
         "tabulators (energy ... second derivative of the Berry curvature, internal / external terms) and JDOS / optical conductivity / shift "
         "current / injection current and 11 static calculators at random +-k of random time-reversal symmetric (real H(R), A(R)) and "
         "inversion-symmetric (H(-R)=H(R), A(-R)=-A(R)) 3-band models. Spin and orbital-moment formulas (need SS / BB / CC of a symmetric model) are "
         "covered by the formula-level and bookkeeping units only.",
    note=TB + "; physics of the base quantities assumed (curvature, spin, orbital moment: TR-odd, inversion-even); symmetric random models as constructed in contracts/C08.py")

CLAIMED["C07"] = dict(
    text="Chain of contracts: irreducible K-points with factor |orbit|/N (C06), action of an operation on a tensor (C09), declared parities "
         "(C08), result.transform distributes over + (C16), grid collection of images (C30). Decided here: PointGroup.symmetrize (real text) "
         "is the average of result.transform(g) over ALL operations, each exactly once (groups of 1, 2, 6 operations, symbolic results); "
         "run()'s nested paralfunc symmetrises the ResultDict of all calculators with the SYSTEM's point group exactly when symmetrize=True; "
         "orbit lemma on the installed Grid.get_K_list(use_symmetry=True) / PointGroup with the extracted symmetrize / transform_tensor and an "
         "equivariant SYMBOLIC field (value at g.K = T_g of a free tensor averaged over the stabiliser): sum_K factor_K symmetrize(R_K) equals "
         "the mean over the full grid for every field value, every coefficient to 1e-12 -- C4z on 4x4x2, Inversion x TR*C2x on 2x3x2 (quick), "
         "C3z + TR with a rank-2 tensor on a hexagonal 3x3x1 grid (thorough), orbits tile the grid, non-vacuity. The premise 'the system "
         "genuinely has the symmetry' (result at g.K = T_g result at K) is the property's hypothesis; that the DECLARED transformations used for it "
         "are the right ones is C08's declaration unit (18 formula classes) and its values-at-(-k) stand-in, both registered here as well (known finding K5 shows up here too). Bounded stand-in: installed run() with "
         "use_irred_kpt + symmetrize against the full unsymmetrised run on Haldane (C3z), the chiral model (C3z, thorough) and random "
         "time-reversal / inversion symmetric models: CumDOS, AHC, Ohmic, Berry dipole, optical conductivity and grid tabulation per k.",
    note=TB + "; rotation matrices are floats (coefficients compared to 1e-12); PointGroup construction and get_K_list run as installed code on concrete input")

CLAIMED["C32"] = dict(
    text="The source of truth are the source libraries' Bloch Hamiltonians; their conventions are stated as external contracts from their "
         "documentation (PythTB: hop t for (i, j, R) is <i,0|H|j,R> with the Hermitian conjugate implied, positions enter as a k-dependent "
         "unitary; TBmodels: H(k) = sum_R hop[R] ph(k.R) + h.c. with one block per +-R pair and half of the R = 0 block) and validated "
         "against the installed libraries by the stand-in. Decided by contracts: get_system_tb_py (real text) executed on stub models with "
         "SYMBOLIC amplitudes, on-site energies and k -- PythTB spinless (2D two-orbital model with a repeated hop, a home-cell hop and an "
         "orbital given outside the home cell; 3D three-orbital model with long hops), PythTB spinful (2x2 hopping and on-site blocks), "
         "TBmodels (blocks at R = 0, (1,0), (1,-2)): for EVERY k the sum over R of Ham_R[R] ph(k.R) equals the source's position-free Bloch "
         "Hamiltonian (hence equal band energies), the R list contains 0, is closed under R -> -R, without duplicates or components "
         "along non-periodic directions, Ham_R[-R] = Ham_R[R]^dagger, centres = orbital positions up to lattice vectors and equal to the R-vector shifts, lattice padded. "
         "Bounded stand-in: random 2D / 3D models built in BOTH real libraries, energies of the imported systems against TBModel.solve_ham / "
         "Model.eigenval at random k, and the bundled Haldane models of both builders.",
    note=TB + "; the documented conventions of PythTB 2.0 / TBmodels 1.4 are assumed contracts (validated on random models by the stand-in); installed System_R / Rvectors / NeededData used as they are for the concrete bookkeeping")

CLAIMED["C31"] = dict(
    text="'To finite-difference accuracy' is made precise as a contract: with the weights and shells of find_shells (B1 condition, shells "
         "closed under b -> -b) the scheme D f(k) = sum_b w_b f(k+b) b_cart (E) reproduces the Cartesian gradient of EVERY polynomial of degree "
         "<= 2 exactly -- so for a quadratic k.p Hamiltonian all numerical derivatives are the analytic ones and for a smooth one the error is "
         "the cubic remainder O(dk^2); (H) maps ANY Hermitian-valued function to a Hermitian-valued one. Decided per shape on the real text: "
         "find_shells on cubic / hexagonal / triclinic / monoclinic boxes at dk = 1e-2 and 1e-4 (B1 within the code's tolerance, -b closure, equal "
         "weights); Derivative3D with those stencils on a polynomial with SYMBOLIC coefficients (gradient and nested Hessian, coefficient-wise) "
         "and on a function returning fresh symbolic Hermitian matrices per evaluation point; SystemKP.__init__ (stencil from recip_lattice x "
         "dk, numerical derivatives nested on Ham exactly where analytic ones are missing, k folded into [-1/2,1/2) and handed over in Cartesian "
         "or reduced coordinates, 12 option combinations); Data_K_k.HH_K / Xbar('Ham', 1..3) = the system's own functions at every k-point "
         "rotated with that k-point's eigenvectors. Truncation error of general smooth models and 'same calculator results to that accuracy' "
         "are numerical: bounded stand-in on random two-band models with linear, quadratic and sine terms. A defect was found and fixed here "
         "(absolute thresholds in find_shells: no numerical derivatives on non-orthogonal boxes at the default step).",
    note=TB + "; weights come out of an SVD on concrete floats: polynomial coefficients compared with a tolerance tied to the code's B1 tolerance; np.linalg.eigh external")

CLAIMED["C24"] = dict(
    text="Orthonormality and span statements rest on numpy's eigen-solver and SVD (external contracts: eigh returns orthonormal eigenvectors; "
         "orthogonalize(A) = U V^dagger of the SVD = the polar factor A (A^dagger A)^(-1/2) = A T). What contracts decide is the ASSEMBLY around "
         "them (real text, symbolic matrices, per shape 5 bands = 1 frozen + 3 free + 1 outside the outer window, 3 Wannier functions, 2 "
         "neighbours): Kpoint_and_neighbours.__init__ / rotate_to_projections / update (localisation on and off, Z mixing on and off) / calc_Z "
         "with get_max_eig and orthogonalize replaced by ARBITRARY matrices of their contracts' shape -- the returned gauge has exactly zero "
         "rows outside the outer window, its selected rows are U_loc T with U_loc = [unit vectors on the frozen bands | chosen eigenvectors on "
         "the free bands] and T the product of the polar-factor matrices (so, under the external contracts, orthonormal columns and frozen "
         "states in the span; the step 'U_loc orthonormal when the eigenvectors are' is a proved lemma), the eigen-problems are "
         "A_free A_free^dagger and Z = sum_b w_b[(M_ff U_b)(..)^dagger + M_fz M_fz^dagger] (mixed with the previous Z), asked for nWfree = "
         "num_wann - nfrozen vectors; utility.get_max_eig picks the columns of the nvec largest eigenvalues (every ordering), orthogonalize "
         "drops the singular values and falls back to its input with a warning; the statements of wannierise() that build the frozen / free / "
         "outer masks (extracted by position from the function body): frozen = window result + explicit states of that k-point, free = outer and "
         "not frozen, nothing outside the outer window, a frozen band outside the outer window refused. Bounded stand-in: installed "
         "Kpoint_and_neighbours with real eigh / SVD on random unitary overlaps: U^dagger U = 1, frozen bands kept by the projector, exact zeros "
         "outside the outer window after __init__ and both kinds of update.",
    note=TB + "; eigh / SVD / inv external; select_window_degen: C15's units are registered under C24 as well; site-symmetry symmetrizers are identities here (C20 / C21 territory)")

CLAIMED["C21"] = dict(
    text="The REAL text of Orbitals.rot_orb_basis / rot_orb (sympy expansion of the orbital polynomials in rotated coordinates) is executed with "
         "the rotation given symbolically by an unnormalised quaternion, R~(q) = |q|^2 R(q) (every proper rotation), np.linalg.inv replaced by the "
         "transpose; the entries of the result are homogeneous polynomials in q and the claims become polynomial identities decided by sympy "
         "expansion (float coefficients compared to 1e-9): orthogonality D D^T = |q|^(4l) 1 for ALL proper rotations and D(-R) = (-1)^l D(R) "
         "for the improper ones, shells s, p, d (quick) and f (thorough); identity; the composition law D(R1 R2) = D(R1) D(R2) for ALL pairs, shells "
         "s, p (quick), d (thorough), with the opposite order refuted (non-vacuity). Hybrids (rot_orb = H D H^T): orthogonal for sp3 under all "
         "rotations, for sp2 / pxy / pz under all rotations about z, for sp / p2 about x, for t2g / eg / sp3d2 under the 24 proper cubic "
         "rotations. For rotations that do not preserve the span of a hybrid set the matrix is a compression and NOT orthogonal: the property as "
         "stated does not hold there (known finding K3, recorded). OrbitalRotator.__call__: local bases enter as basis2 R basis1^T, per-(rotation, "
         "shell) cache, block-diagonal composite shells. The f-shell composition law is covered by the stand-in only (installed code, random proper "
         "and improper rotations). The Wannier-function representation: the real Dwann.get_on_points on SYMBOLIC k for orbits of three sites (every site "
         "permutation, three kinds of operation): a block permutation of the orbital matrices with the phase e^{2 pi i symop(k).T}, zero elsewhere, hence "
         "unitary for every k given orthogonal orbital blocks and a bijective site map; the real Dwann.__init__ (site maps, translations, spinor part) "
         "only through the stand-in (three structures incl. spinors: unitary at random k, sites mapped onto their images).",
    note=TB + "; sympy's polynomial arithmetic is the computation the code itself relies on (trusted); identities verified on the cone over SO(3) hold on SO(3) by homogeneity")

CLAIMED["C20"] = dict(
    category="other",        # four obligations of the driver unit are the recorded finding K4 and stay undischarged: not every obligation is proved
    text="(Mixed: proof obligations discharged except the four of the driver unit that are the recorded known finding K4 -- centres when orbitals mix.) SymWann.symmetrize is a linear map on the real-space matrices; the assembled REAL class (irreducible (R,a,b) search, backward rotation, "
         "averaging, completion of the R-set) is executed on SYMBOLIC matrices Ham and AA for concrete structures (orthorhombic mmm with a two-site s "
         "orbit and a p shell, a 2_1 screw axis; thorough: monoclinic, tetragonal 4/mmm, hexagonal with p orbitals mixing under C3) and its output is "
         "proved equal, coefficient by coefficient, to the group average (1/|G|) sum_g g.X of a group action written in the contract from the geometry "
         "alone (operations {S|t}(,T), atomic positions, vector representation of p shells; not from the symmetrizer's maps). A group average is "
         "invariant under every g (hence E(gk) = E(k) and the pseudo-vector law for Berry curvature), keeps X(-R) = X(R)^dagger and is a projection; "
         "Hermiticity, idempotence (second run of the real code on its own output) and the frame are also discharged directly. One pass of the centre "
         "symmetrisation equals the orbital-weighted average, symmetric centres are a fixed point; the driver System_R.symmetrize2 must store centres "
         "that are a fixed point of it, new R-vectors shifted by the new centres, point group and structure from the symmetrizer. Spin-orbit / magnetic "
         "settings, the k-space statements themselves (eigen-solver) and the set-up chain (irrep SpaceGroup, Projection, SymmetrizerSAWF construction) "
         "are covered by the stand-in only: installed System_R.symmetrize on random Hermitian systems, energies / Berry curvature / spin at g k for every "
         "operation, Hermiticity, centres, idempotence.",
    note=TB + "; set-up by installed code on concrete input, cross-checked by the geometric specification; cutoff < 0 (default) assumed in the symbolic units; d, f shells and hybrids only through C21")

CLAIMED["C28"] = dict(
    text="'Agree up to discretisation error, with the same index order and sign' is decomposed into contracts. Discharged on the real text (per shape): "
         "FormulaProduct is the band-space matrix product of its factors with the tensor indices in list order (symbolic factor matrices, one band and a "
         "two-band group); the real constructors of VelVel, VelOmega, VelSpin, VelHplus, MassVel, VelVelVel build velocity x X with the factor the pairing "
         "needs; for each of the seven documented pairs the real __init__ / __call__ of both calculators: sea = the Der formula with fder 0 and the derivative "
         "index moved first where the tensor is not symmetric, surface = the product with fder 1 (2 and half the factor for NLDrude_Fermider2), equal constant "
         "factors, GME_orb minus 2 E_F x the Berry dipole of the same kind; a calculator with fder = n is the n-th E_F-derivative of the sea calculator of the "
         "same formula (C13's unit), which fixes the sign. NOT proved, validated pointwise on the installed code (bounded): each sea formula is the k-derivative "
         "of the surface factor with the derivative index last (central differences of band-resolved values, 1e-5), products equal their factors band by band. "
         "Assumed (mathematics): integration by parts over the periodic zone. The end-to-end statement itself is a bounded stand-in with a tolerance at the "
         "grid's discretisation level (45% / 25%): it exposes a sign, a transposition or a missing term, not a few per cent.",
    note=TB + "; level of the claim: the wiring is proved, the derivative relation and the end-to-end agreement are bounded; no statement about the size of the discretisation error")

NOT_APPLICABLE = {
}

NOT_BUILT = {}
