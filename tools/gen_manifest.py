"""writes /verif/MANIFEST.json from the table below (kept in one place so the manifest is always schema-valid)."""
import json
import os
import sys

VERIF = os.path.dirname(os.path.dirname(os.path.abspath(__file__)))
sys.path.insert(0, VERIF)
from tools.manifest_table import CLAIMED, NOT_APPLICABLE, NOT_BUILT  # noqa

BASE = "cd /repo && /venv/bin/python -m pytest -ra -q -p no:cacheprovider --timeout=900 --continue-on-collection-errors"
props = [json.loads(l) for l in open(os.path.join(VERIF, "properties.jsonl"))]
ids = [p["id"] for p in props]
checks = []
for pid in ids:
    if pid in CLAIMED:
        c = CLAIMED[pid]
        checks.append(dict(property_id=pid, quick_cmd="./check %s quick" % pid, thorough_cmd="./check %s thorough" % pid,
                           evidence_file="evidence/%s.json" % pid, replay_cmd_template="./check %s --replay {path}" % pid,
                           engine=c.get("engine", "pyvc"),
                           level_claimed=dict(category=c.get("category", "proof"), text=c["text"], design_ref=c.get("design_ref", ("DESIGN.md section 5, %s" % pid) if pid not in ("C20", "C21", "C24", "C28", "C31", "C32") else ("DESIGN.md section 10.3 (row %s and the paragraph below the table), docstring of contracts/%s.py" % (pid, pid)))),
                           level_note=c["note"], technique=c.get("technique", "contract-based deductive verification: VCs from the real function text (pyvc) discharged by z3/cvc5")))
na = []
for pid in ids:
    if pid in CLAIMED:
        continue
    if pid in NOT_APPLICABLE:
        na.append(dict(property_id=pid, reason=NOT_APPLICABLE[pid]))
    else:
        na.append(dict(property_id=pid, reason=NOT_BUILT.get(pid, "designed (DESIGN.md section 5) but the check is not built; not claimed")))
man = dict(
    version=1,
    setup_cmd="./setup.sh",
    hooks=dict(guard="WANNIERBERRI_VERIF", enable="no hooks: contracts are sidecar files under /verif/contracts; the checks read /repo's working tree (VERIF_REPO overrides the path for self-tests)",
               baseline_off_cmd=BASE, source_commits=[], add_only=True),
    engines=[dict(name="pyvc", path="pyvc/", serves_properties=sorted(CLAIMED),
                  kind_free_text="verification-condition generator for python: the function text is extracted from /repo on every run, loops are cut with sidecar invariants, the text is executed on symbolic values under CPython (one execution per path), obligations go to z3 (cvc5 for z3's unknowns)"),
             dict(name="standin", path="contracts/", serves_properties=sorted(CLAIMED),
                  kind_free_text="bounded stand-in: the same contracts evaluated at run time on the real functions over seeded inputs; labelled bounded, never counted as proved")],
    checks=checks,
    not_applicable=na,
    notes="Exit codes of every check: 0 held / 1 violation (VIOLATION line + replay file) / 2 undecided (solver unknown, unsupported construct) / 3 checker crash. See DESIGN.md.",
)
json.dump(man, open(os.path.join(VERIF, "MANIFEST.json"), "w"), indent=1)
try:
    sys.path.append(os.path.join(VERIF, ".overlay"))
    import jsonschema
    jsonschema.validate(man, json.load(open("/root/.vp/MANIFEST.schema.json")))
    print("MANIFEST.json valid: %d checks, %d not applicable" % (len(checks), len(na)))
except ImportError:
    print("written (jsonschema not available to validate)")
