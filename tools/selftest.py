"""mutation self-test of the checks:  tools/selftest.py [Cxx ...] [--only NAME]
Each mutant (selftest/mutants.py) is a textual replacement applied to a scratch copy of /repo/wannierberri under a
temporary directory (outside /repo and /verif, removed right after); the property's check is run with VERIF_REPO
pointing at the copy.  A breaking mutant must give exit 1 + a VIOLATION line, a preserving one must give exit 0."""
import importlib.util
import os
import shutil
import subprocess
import sys
import tempfile
import time

VERIF = os.path.dirname(os.path.dirname(os.path.abspath(__file__)))
spec = importlib.util.spec_from_file_location("mutants", os.path.join(VERIF, "selftest", "mutants.py"))
mutants = importlib.util.module_from_spec(spec)
spec.loader.exec_module(mutants)


def run(m, tier="quick"):
    tmp = tempfile.mkdtemp(prefix="verif_mut_")
    try:
        shutil.copytree("/repo/wannierberri", os.path.join(tmp, "wannierberri"))
        path = os.path.join(tmp, m["file"])
        src = open(path).read()
        if src.count(m["old"]) < 1:
            return "STALE (pattern not found)", ""
        src = src.replace(m["old"], m["new"], 1)
        if "old2" in m:                      # a second site of the same edit (e.g. a helper and its call site)
            if src.count(m["old2"]) < 1:
                return "STALE (second pattern not found)", ""
            src = src.replace(m["old2"], m["new2"], 1)
        open(path, "w").write(src)
        env = dict(os.environ, VERIF_REPO=tmp, VERIF_TMP=tmp)
        t0 = time.time()
        p = subprocess.run([os.path.join(VERIF, "check"), m["prop"], tier], capture_output=True, text=True, env=env, cwd=VERIF)
        out = p.stdout + p.stderr
        viol = [l for l in out.splitlines() if l.startswith("VIOLATION")]
        want = m.get("expect", "violation")
        got = "violation" if (p.returncode == 1 and viol) else "ok" if p.returncode == 0 else "exit%d" % p.returncode
        verdict = "PASS" if got == want else "FAIL"
        return "%s want=%s got=%s (%.0fs) %s" % (verdict, want, got, time.time() - t0, (viol[0] if viol else "")[:150]), out
    finally:
        shutil.rmtree(tmp, ignore_errors=True)


def main():
    args = [a for a in sys.argv[1:] if not a.startswith("--")]
    only = None
    if "--only" in sys.argv:
        only = sys.argv[sys.argv.index("--only") + 1]
        args = [a for a in args if a != only]
    bad = 0
    for m in mutants.MUTANTS:
        if args and m["prop"] not in args:
            continue
        if only and only not in m["name"]:
            continue
        res, out = run(m)
        print("%-4s %-44s %s" % (m["prop"], m["name"], res), flush=True)
        if not res.startswith("PASS"):
            bad += 1
            if "--verbose" in sys.argv:
                print(out[-3000:])
    # restore evidence of the unchanged tree is the caller's business (evidence files are rewritten by every run)
    return 1 if bad else 0


if __name__ == "__main__":
    sys.exit(main())
