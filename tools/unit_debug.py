"""debug helper: run one unit in-process and print every obligation with timing:  tools/unit_debug.py C14 'unit name' [tier]"""
import importlib, os, sys, time, json
VERIF = os.path.dirname(os.path.dirname(os.path.abspath(__file__)))
sys.path.insert(0, VERIF); sys.path.append(os.path.join(VERIF, ".overlay"))
REPO = os.environ.setdefault("VERIF_REPO", "/repo"); sys.path.insert(0, REPO)
os.environ.setdefault("NUMBA_DISABLE_JIT", "1")
prop, uname = sys.argv[1], sys.argv[2]
tier = sys.argv[3] if len(sys.argv) > 3 else "quick"
importlib.import_module("contracts.%s" % prop)
from pyvc import unit as U
names = [u.name for u in U.UNITS[prop]]
if uname == "list":
    print("\n".join(names)); sys.exit()
for nm in names:
    if uname in nm:
        t0 = time.time()
        r = U._unit_worker((prop, nm, tier, 0, REPO))
        print("==", nm, "status", r["status"], r.get("detail", "")[:3000], "paths", r["paths"], "ret", r["returns"], "raises", r["raises"], "time", round(time.time() - t0, 2))
        for o in r["obligations"]:
            if o["verdict"] != "valid" or o["time_s"] > 1 or os.environ.get("ALL"):
                print("   ", o["verdict"], o["backend"], o["time_s"], o["stage"], o["name"], o.get("reason", ""), json.dumps(o.get("replay"), default=str)[:600] if o.get("replay") else "")
                if o["verdict"] == "refuted" and os.environ.get("MODEL"):
                    print("      model:", o.get("model"))
        print("   obligations", len(r["obligations"]), "valid", sum(o["verdict"] == "valid" for o in r["obligations"]), "bounded", {k: v for k, v in (r.get("bounded") or {}).items() if k not in ("sample",)})
