"""pyvc.npmodel -- the `np` the extracted functions see in model mode (lambda arrays, symbolic shapes).

Only the numpy surface used by the functions under contract is modelled; anything else raises Undecided (never a
wrong answer).  Each entry follows the numpy reference semantics; the encodings are exercised against real numpy by
the CPython cross-checks of the units (concrete replays of the same contracts on the real functions).
"""
import math
import numpy as _np
import z3

from .core import (ctx, SNum, SBool, SCplx, lift, conc, Undecided, PathRaise, ite, land, lor, implies, forall, Q,
                   fresh_int, fresh_real, is_sym, ssqrt, lnot)
from .arr import SArr, sym_array, slen, as_index
from .seqs import SortedIdx


class IdxList(list):
    """np.where(mask)[0] for a concrete-length mask: a list of python ints with numpy's `+ k` broadcasting"""

    def __add__(self, o):
        if isinstance(o, (int, SNum)):
            return IdxList(x + o for x in self)
        return list.__add__(self, o)

    def __radd__(self, o):
        if isinstance(o, (int, SNum)):
            return IdxList(x + o for x in self)
        return list(o) + list(self)


class _NP:
    inf = float("inf")
    pi = math.pi
    newaxis = None
    ndarray = SArr
    float64 = float
    int64 = int
    complex128 = complex

    # ---- construction
    def array(self, x, dtype=None, copy=True):
        if isinstance(x, SArr):
            return x.copy()
        if hasattr(x, "sym_len"):
            return x
        if isinstance(x, (list, tuple)):
            flat_sym = any(is_sym(v) for v in x)
            if all(not isinstance(v, (list, tuple, SArr, _np.ndarray)) for v in x):
                vals = list(x)
                dt = "cplx" if any(isinstance(v, (SCplx, complex)) for v in vals) else \
                    "real" if any(isinstance(v, float) or (isinstance(v, SNum) and v.kind == "real") for v in vals) else \
                    "bool" if vals and all(isinstance(v, (bool, SBool)) for v in vals) else "int"
                if dtype is float:
                    dt = "real"
                if dtype is complex:
                    dt = "cplx"
                cells = list(vals)
                a = SArr((len(cells),), None, dt)
                a._fn = _list_fn(cells)
                a._cells = cells
                return a
            rows = [self.array(r, dtype=dtype) for r in x]
            n = len(rows)
            sh = rows[0].shape
            return SArr((n,) + tuple(sh), lambda idx: _pick(rows, idx[0]).get(idx[1:]), rows[0].dtype)
        if isinstance(x, _np.ndarray):
            return self.array(x.tolist(), dtype=dtype)
        raise Undecided("np.array(%s)" % type(x).__name__)

    asarray = array

    def zeros(self, shape, dtype=float):
        dt = _dt(dtype)
        return self.full(shape, {"real": 0.0, "int": 0, "bool": False, "cplx": 0j}[dt], dtype)

    def ones(self, shape, dtype=float):
        dt = _dt(dtype)
        return self.full(shape, {"real": 1.0, "int": 1, "bool": True, "cplx": 1 + 0j}[dt], dtype)

    def full(self, shape, val, dtype=None):
        if not isinstance(shape, (tuple, list)):
            shape = (shape,)
        shape = tuple(as_index(s) for s in shape)
        return SArr(shape, lambda idx: val, _dt(dtype))

    def zeros_like(self, a):
        return SArr(a.shape, lambda idx: 0.0, a.dtype)

    def arange(self, *a):
        a = [as_index(v) for v in a]
        lo, hi = (0, a[0]) if len(a) == 1 else (a[0], a[1])
        if len(a) == 3:
            raise Undecided("arange with step")
        n = lift(hi) - lift(lo)
        cn = conc(n)
        return SArr((cn if cn is not None else n,), lambda idx: lift(lo) + idx[0], "int")

    # ---- queries
    def where(self, c, *rest):
        if rest:
            a, b = rest
            if isinstance(c, SArr):
                return c._ew(0, lambda cc, _: ite(cc, a, b)) if not isinstance(a, SArr) and not isinstance(b, SArr) else \
                    SArr(c.shape, lambda idx: ite(c.get(idx), a.get(idx) if isinstance(a, SArr) else a,
                                                  b.get(idx) if isinstance(b, SArr) else b),
                         a.dtype if isinstance(a, SArr) else "real")
            return ite(c, a, b)
        if isinstance(c, SArr) and c.ndim == 1:
            n = conc(c.shape[0])
            if isinstance(n, int):
                # concrete length: decide every element on this path (forks), return the index list as numpy would
                return (IdxList(i for i in range(n) if bool(c.get((i,)))),)
            return (SortedIdx.from_mask(c),)
        raise Undecided("np.where on %r" % (c,))

    def abs(self, x):
        return abs(x)

    absolute = abs

    def sqrt(self, x):
        if isinstance(x, SArr):
            return SArr(x.shape, lambda idx: ssqrt(x.get(idx)), "real")
        if is_sym(x):
            return ssqrt(x)
        return math.sqrt(x)

    def round(self, x, decimals=0):
        from .runtime import m_round
        if isinstance(x, SArr):
            if decimals != 0:
                raise Undecided("np.round with decimals on symbolic array")
            return SArr(x.shape, lambda idx: lift(m_round(x.get(idx))) * 1.0, "real")
        return m_round(x) if decimals == 0 else _np.round(x, decimals)

    def all(self, x, axis=None):
        if isinstance(x, SArr):
            return all_of(x)
        return bool(x) if isinstance(x, (bool, SBool)) is False and not is_sym(x) else x

    def any(self, x, axis=None):
        if isinstance(x, SArr):
            return any_of(x)
        return x

    def sum(self, x, axis=None):
        if isinstance(x, SArr):
            return sum_of(x, axis)
        return sum(x)

    def min(self, x, axis=None):
        return x.min()

    def max(self, x, axis=None):
        return x.max()

    def conj(self, x):
        return x.conj() if hasattr(x, "conj") else x

    def real(self, x):
        return x.real

    def logical_not(self, x):
        return ~x

    def logical_and(self, a, b):
        return a & b

    def logical_or(self, a, b):
        return a | b

    def isscalar(self, x):
        return is_sym(x) or _np.isscalar(x)

    def __getattr__(self, name):
        raise Undecided("numpy.%s is not modelled" % name)


def _dt(dtype):
    from . import runtime
    if dtype in ("real", "int", "bool", "cplx"):
        return dtype
    if dtype in (float, None, runtime.m_float, _np.float64):
        return "real"
    if dtype in (int, runtime.m_int, _np.int64):
        return "int"
    if dtype in (bool, runtime.m_bool, _np.bool_):
        return "bool"
    if dtype in (complex, _np.complex128):
        return "cplx"
    raise Undecided("dtype %r" % (dtype,))


def _pick(rows, i):
    ci = conc(i)
    if isinstance(ci, int):
        return rows[ci]
    raise Undecided("symbolic row index into a nested literal array")


def _list_fn(cells):
    def fn(idx):
        i = idx[0]
        ci = conc(i)
        if isinstance(ci, int):
            return cells[ci]
        out = cells[-1]
        for k in range(len(cells) - 2, -1, -1):
            out = ite(lift(i) == k, cells[k], out)
        return out
    return fn


def all_of(x):
    """np.all of a boolean lambda array: exact for concrete extents; for a symbolic extent the result is a fresh
    boolean b with  b <=> forall idx . x[idx]  given as (b => forall) and (not b => witness)."""
    if all(isinstance(conc(s), int) for s in x.shape):
        import itertools
        return land(*[x.get(idx) for idx in itertools.product(*[range(conc(s)) for s in x.shape])])
    if x.ndim != 1:
        raise Undecided("np.all over symbolic rank>1 array")
    from .core import fresh_bool
    b = fresh_bool("all")
    n = x.shape[0]
    w = fresh_int("w_all")
    ctx().assume(implies(b, forall(lambda j: implies(land(j >= 0, j < n), x.get((j,))), name="all")))
    ctx().assume(implies(lnot(b), land(w >= 0, w < n, lnot(x.get((w,))))))
    return b


def any_of(x):
    return lnot(all_of(~x))


def sum_of(x, axis=None):
    if all(isinstance(conc(s), int) for s in x.shape) and axis is None:
        import itertools
        out = 0
        for idx in itertools.product(*[range(conc(s)) for s in x.shape]):
            out = out + x.get(idx)
        return out
    raise Undecided("np.sum over a symbolic extent (use a Sum lemma in the contract)")


np = _NP()
