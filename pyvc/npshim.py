"""pyvc.npshim -- the REAL numpy with the few adjustments needed to run array code on symbolic scalars ("Engine B"):
object arrays of SNum/SCplx/Ph go through numpy's own einsum/dot/transposes/fancy indexing unchanged; only these differ:
  zeros/ones/empty/zeros_like with a float/complex dtype return dtype=object arrays (so symbolic values can be stored);
  exp on an object array maps a purely imaginary 2*pi*i*(linear form) to a phase object;
  real/imag/conj act on the symbolic scalars;
  anything in `overrides` (e.g. linalg.eigvalsh as a recording stub) replaces numpy's function.
Everything else is numpy itself."""
import types
import numpy as _np

from .core import SNum, SCplx, lift, is_sym
from .phase import Ph, Scaled, exp_scalar


def _has_sym(a):
    return isinstance(a, _np.ndarray) and a.dtype == object


class Shim:
    def __init__(self, overrides=None, symbolic_zeros=True, float_object=True):
        self._over = overrides or {}
        self._symz = symbolic_zeros
        self._float_obj = float_object          # False: only complex arrays become object arrays (float geometry stays numeric)
        la = types.SimpleNamespace()
        for k in dir(_np.linalg):
            if not k.startswith("_"):
                setattr(la, k, getattr(_np.linalg, k))
        for k, v in self._over.items():
            if k.startswith("linalg."):
                setattr(la, k[7:], v)
        self.linalg = la
        for k, v in self._over.items():
            if "." not in k:
                setattr(self, k, v)        # an override also replaces the shim's own version of that function

    def __getattr__(self, k):
        if k in self._over:
            return self._over[k]
        return getattr(_np, k)

    def _dt(self, dtype):
        if self._symz and dtype in (complex, _np.complex128):
            return object
        if self._symz and self._float_obj and dtype in (float, None, _np.float64):
            return object
        return dtype

    def zeros(self, shape, dtype=float, **kw):
        a = _np.zeros(shape, dtype=self._dt(dtype))
        return a

    def ones(self, shape, dtype=float, **kw):
        a = _np.ones(shape, dtype=self._dt(dtype))
        return a

    def empty(self, shape, dtype=float, **kw):
        return _np.zeros(shape, dtype=self._dt(dtype))

    def eye(self, n, m=None, dtype=float, **kw):
        a = _np.eye(n, m, **kw)
        return a.astype(self._dt(dtype)) if self._dt(dtype) is object else _np.eye(n, m, dtype=dtype, **kw)

    def identity(self, n, dtype=float):
        return self.eye(n, dtype=dtype)

    def iscomplexobj(self, x):
        if _has_sym(x):
            return any(not isinstance(v, (SNum, int, float)) for v in x.flat) or x.size == 0 or all(isinstance(v, (int, float)) and v == 0 for v in x.flat)
        return _np.iscomplexobj(x)

    def zeros_like(self, a, dtype=None):
        return _np.zeros(a.shape, dtype=self._dt(dtype if dtype is not None else a.dtype))

    def exp(self, x):
        if _has_sym(x):
            out = _np.empty(x.shape, dtype=object)
            for idx in _np.ndindex(x.shape):
                v = x[idx]
                out[idx] = exp_scalar(v) if isinstance(v, (SCplx, complex)) else _np.exp(v)
            return out
        if isinstance(x, SCplx):
            return exp_scalar(x)
        return _np.exp(x)

    def conj(self, x):
        if _has_sym(x):
            out = _np.empty(x.shape, dtype=object)
            for idx in _np.ndindex(x.shape):
                v = x[idx]
                out[idx] = v.conj() if hasattr(v, "conj") else v
            return out
        return _np.conj(x)
    conjugate = conj

    def real(self, x):
        if _has_sym(x):
            out = _np.empty(x.shape, dtype=object)
            for idx in _np.ndindex(x.shape):
                v = x[idx]
                out[idx] = v.real if hasattr(v, "real") else v
            return out
        return _np.real(x)

    def imag(self, x):
        if _has_sym(x):
            out = _np.empty(x.shape, dtype=object)
            for idx in _np.ndindex(x.shape):
                v = x[idx]
                out[idx] = v.imag if hasattr(v, "imag") else 0
            return out
        return _np.imag(x)


def sym_real_array(name, shape):
    from .core import sreal
    a = _np.empty(shape, dtype=object)
    for idx in _np.ndindex(*shape):
        a[idx] = sreal(name + "_" + "_".join(map(str, idx)))
    return a


def sym_cplx_array(name, shape):
    from .core import sreal
    a = _np.empty(shape, dtype=object)
    for idx in _np.ndindex(*shape):
        nm = name + "_" + "_".join(map(str, idx))
        a[idx] = SCplx(sreal(nm + ".re"), sreal(nm + ".im"))
    return a


def same_scaled(x, val, ph):
    """x == val * ph  structurally: same phase form, same z3 term for the value"""
    import z3
    if isinstance(x, Scaled):
        xv, xp = x.v, x.ph
    elif isinstance(x, Ph):
        xv, xp = 1, x
    else:
        xv, xp = x, Ph({})
    if not xp.same(ph):
        return False
    a, b = SCplx.of(xv), SCplx.of(val)
    return bool(z3.eq(z3.simplify(a.re.t), z3.simplify(b.re.t)) and z3.eq(z3.simplify(a.im.t), z3.simplify(b.im.t)))
