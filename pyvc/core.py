"""pyvc.core -- symbolic values, path exploration by re-execution, obligations.

The engine runs the *real* function text (extracted from /repo on every run, see extract.py) under CPython with
symbolic scalars.  Every `if`/`while`/`and`/`or`/`not` on a symbolic truth value calls SBool.__bool__, which asks
the current Ctx for a decision; `explore` re-executes the function once per feasible decision sequence, so each
execution is one path between cut points.  Python's own semantics (evaluation order, slicing, unpacking, closures,
int/float mixing, exceptions) therefore come from CPython itself and are not re-implemented.

Arithmetic: Python int -> Int, Python float -> Real (a concrete double enters with its exact binary value; operations on
symbolic reals are exact, i.e. rounding of symbolic arithmetic is not modelled).
"""
import itertools
from fractions import Fraction
import z3

__all__ = ["Ctx", "ctx", "SBool", "SNum", "SCplx", "Undecided", "StopPath", "PathRaise", "explore", "Q", "forall",
           "implies", "land", "lor", "lnot", "ite", "sreal", "sint", "sbool", "lift", "is_sym", "fresh_real",
           "fresh_int", "fresh_bool", "to_z3", "conc", "spec_mode", "in_spec", "ssqrt", "ite_pc", "SOpaque"]


class Undecided(Exception):
    """the engine cannot model something: never a violation"""


class StopPath(Exception):
    """normal end of a path at a cut point"""


class PathRaise(Exception):
    """the code under verification raised (or an assert failed) on this path"""


class Q:
    """universally quantified clause  forall v in sort . body(v)   (body: python callable on symbolic values).
    As a goal it is skolemised; as a hypothesis it is instantiated by the discharger (solve.py)."""

    def __init__(self, body, sorts=("int",), name="q"):
        self.body = body
        self.sorts = tuple(sorts)
        self.name = name

    def inst(self, *vals):
        with spec_mode():
            return to_bool_term(self.body(*vals))

    def native(self, tag):
        """z3 ForAll term (only meaningful when arrays are in "uf" mode: cells are constants, not functions)"""
        vs = [SNum(z3.Int("qv!%s!%d" % (tag, k)), "int") if srt == "int" else SNum(z3.Real("qv!%s!%d" % (tag, k)), "real")
              for k, srt in enumerate(self.sorts)]
        return z3.ForAll([v.t for v in vs], self.inst(*vs))


class Ctx:
    """one path: decisions taken, path condition, obligations generated so far."""

    def __init__(self, prefix=(), feas_timeout_ms=1500, check_feasible=True):
        self.prefix = list(prefix)
        self.decisions = []
        self.alternatives = []      # prefixes still to explore (filled when a fresh decision is taken)
        self.pc = []                # list of z3 BoolRef or Q
        self.obligations = []       # dicts
        self.notes = []
        self.check_feasible = check_feasible
        self.feas_timeout_ms = feas_timeout_ms
        self._solver = None
        self.counter = itertools.count()
        self.cells = {}             # (array name, index sexpr) -> (index terms, cell term)
        self.labels = []            # reachability labels hit on this path
        self.store_indices = []     # symbolic indices of array stores on this path (for the j==s / j!=s split)
        self.split_on_stores = True
        self.entry_marks = []       # len(pc) at entry of the extracted function(s) currently executing
        self.array_mode = ARRAY_MODE[0]   # "cells" (constants + Ackermann, for non-linear real goals) | "uf"
        self.ghost = {}

    # ---- naming
    def fresh_name(self, base):
        return "%s!%d" % (base, next(self.counter))

    # ---- path condition
    def assume(self, c):
        if isinstance(c, Q):
            self.pc.append(c)
            return
        t = to_bool_term(c)
        if z3.is_true(t):
            return
        self.pc.append(t)

    def oblige(self, name, goal, kind="assert", meta=None, then_assume=True):
        """record proof obligation  pc => goal ; afterwards goal is assumed on the path (standard)."""
        qgoal = None
        if isinstance(goal, Q):
            # skolemise now (the body may create array cells, which live in this path's context)
            qgoal = goal
            sk = []
            for srt in goal.sorts:
                nm = self.fresh_name("sk!" + goal.name)
                sk.append(SNum(z3.Int(nm), "int") if srt == "int" else SNum(z3.Real(nm), "real"))
            g = goal.inst(*sk)
        else:
            g = to_bool_term(goal)
        if z3.is_true(g):
            self.obligations.append(dict(name=name, kind=kind, pc=[], goal=g, trivial=True, meta=meta or {}))
            return
        variants = [(name, [], g)]
        if qgoal is not None and len(sk) == 1 and self.store_indices and self.split_on_stores:
            # hygiene rule 2: case split  j == s / j != s  on the (few) symbolic store indices of this path, done by
            # the engine (the body is re-instantiated AT s for the equal case) so that the solver sees no
            # if-then-else over array cells
            j = sk[0].t
            sidx = self.store_indices[:2]
            variants = []
            for k_, s_ in enumerate(sidx):
                g_eq = qgoal.inst(SNum(s_, "int"))
                variants.append((name + "[j=%s]" % z3.simplify(s_), [], g_eq))
            g_ne = g
            hy_ne = []
            for s_ in sidx:
                g_ne = z3.substitute(g_ne, (j == s_, z3.BoolVal(False)), (s_ == j, z3.BoolVal(False)))
                hy_ne.append(j != s_)
            variants.append((name + "[j not a store index]", hy_ne, g_ne))
        for (nm, hy, gg) in variants:
            if z3.is_true(gg):
                self.obligations.append(dict(name=nm, kind=kind, pc=[], goal=gg, trivial=True, meta=meta or {}))
            else:
                self.obligations.append(dict(name=nm, kind=kind, pc=list(self.pc) + hy, goal=gg, trivial=False,
                                             meta=meta or {}, cells=dict(self.cells), array_mode=self.array_mode))
        if then_assume:
            self.assume(qgoal if qgoal is not None else g)

    def label(self, name):
        self.labels.append(name)

    # ---- branching
    def _feasible(self, t):
        """may this branch be taken?  Only the LINEAR part of the path condition is consulted (dropping hypotheses can
        only keep more branches alive, which is sound); non-linear facts would send z3 into nlsat on every branch."""
        if not self.check_feasible:
            return True
        if not is_linear(t):
            return True
        if self._solver is None:
            self._solver = z3.Solver()
            self._solver.set("timeout", self.feas_timeout_ms)
            self._solver_n = 0
        for h in self.pc[self._solver_n:]:
            if not isinstance(h, Q) and is_linear(h):
                self._solver.add(h)
        self._solver_n = len(self.pc)
        self._solver.push()
        self._solver.add(t)
        r = self._solver.check()
        self._solver.pop()
        return r != z3.unsat

    def entails(self, c):
        """True if the linear part of the path condition entails c, False if it entails not c, else None"""
        t = z3.simplify(to_bool_term(c))
        if z3.is_true(t):
            return True
        if z3.is_false(t):
            return False
        if not self.check_feasible or not is_linear(t):
            return None
        if not self._feasible(z3.Not(t)):
            return True
        if not self._feasible(t):
            return False
        return None

    def branch(self, t):
        """t: z3 Bool.  Returns the python bool decided for this path."""
        t = z3.simplify(t)
        if z3.is_true(t):
            return True
        if z3.is_false(t):
            return False
        k = len(self.decisions)
        if k < len(self.prefix):
            d = self.prefix[k]
        else:
            ft = self._feasible(t)
            ff = self._feasible(z3.Not(t))
            if ft and ff:
                d = True
                self.alternatives.append(self.decisions + [False])
            elif ft:
                d = True
            elif ff:
                d = False
            else:       # path condition itself infeasible: stop quietly
                raise StopPath("infeasible")
        self.decisions.append(d)
        self.assume(t if d else z3.Not(t))
        return d

    def choose(self, n, tag=""):
        """non-deterministic choice among n alternatives that are all explored (not a condition)."""
        k = len(self.decisions)
        if k < len(self.prefix):
            d = self.prefix[k]
        else:
            d = 0
            for j in range(1, n):
                self.alternatives.append(self.decisions + [j])
        self.decisions.append(d)
        return d


_LIN = {}


def is_linear(t):
    """no product of two non-constant terms, no division by a non-constant, no uninterpreted function applications"""
    todo = [t]
    seen = set()
    while todo:
        x = todo.pop()
        i = x.get_id()
        if i in seen:
            continue
        seen.add(i)
        if not z3.is_app(x):
            return False
        k = x.decl().kind()
        ch = x.children()
        if k == z3.Z3_OP_MUL:
            if sum(1 for c in ch if not (z3.is_rational_value(c) or z3.is_int_value(c))) > 1:
                return False
        elif k in (z3.Z3_OP_DIV, z3.Z3_OP_IDIV, z3.Z3_OP_MOD, z3.Z3_OP_REM):
            if not (z3.is_rational_value(ch[1]) or z3.is_int_value(ch[1])):
                return False
        elif k == z3.Z3_OP_POWER:
            return False
        todo += ch
    return True


_CUR = [None]
_SPEC = [0]
ARRAY_MODE = ["cells"]


class spec_mode:
    """inside contract/spec code: arithmetic creates no safety obligations (divisions in a spec are total functions;
    the contract's own hypotheses must make the denominators non-zero for the spec to mean anything)"""

    def __enter__(self):
        _SPEC[0] += 1

    def __exit__(self, *a):
        _SPEC[0] -= 1


def in_spec():
    return _SPEC[0] > 0


def ctx():
    c = _CUR[0]
    if c is None:
        raise RuntimeError("no active pyvc context")
    return c


def explore(fn, max_paths=4000, check_feasible=True, on_path=None):
    """run fn() once per feasible decision sequence.  fn gets no argument and uses ctx().
    Returns list of finished Ctx objects (each with .outcome, .result)."""
    work = [[]]
    done = []
    while work:
        prefix = work.pop()
        c = Ctx(prefix, check_feasible=check_feasible)
        _CUR[0] = c
        try:
            c.result = fn()
            c.outcome = "return"
        except StopPath as e:
            c.result = None
            c.outcome = "stop:%s" % (e.args[0] if e.args else "")
        except PathRaise as e:
            c.result = e
            c.outcome = "raise"
        finally:
            _CUR[0] = None
        work.extend(c.alternatives)
        c._solver = None
        done.append(c)
        if on_path:
            on_path(c)
        if len(done) > max_paths:
            raise Undecided("more than %d paths" % max_paths)
    return done


# --------------------------------------------------------------------------- scalars

RATIONALIZE = [False]


def _frac(x):
    if isinstance(x, bool):
        raise TypeError("bool in arithmetic")
    if isinstance(x, int):
        return Fraction(x)
    if isinstance(x, float):
        if x != x or x in (float("inf"), float("-inf")):
            raise Undecided("non-finite float constant in symbolic arithmetic")
        fr = Fraction(x)            # the exact value of the double (computed floats and literals alike)
        if RATIONALIZE[0]:
            # opt-in per unit (stated as an assumption there): a double within 2 ulp of a rational with denominator <= 4096
            # stands for that rational (1/3, 1/6 ... computed as 1./n before meeting a symbol)
            r = fr.limit_denominator(4096)
            if abs(r - fr) <= Fraction(abs(x)) * Fraction(1, 2 ** 51):
                return r
        return fr
    if isinstance(x, Fraction):
        return x
    raise TypeError(type(x))


def _rv(fr):
    return z3.RealVal(str(fr.numerator)) / z3.RealVal(str(fr.denominator)) if fr.denominator != 1 else z3.RealVal(str(fr.numerator))


def is_sym(x):
    return isinstance(x, (SNum, SBool, SCplx))


def conc(x):
    """concrete python value of x if it is concrete (python or constant term), else None"""
    if isinstance(x, (bool, int, float, Fraction)):
        return x
    if isinstance(x, SNum):
        t = z3.simplify(x.t)
        if z3.is_int_value(t):
            return t.as_long()
        if z3.is_rational_value(t):
            return Fraction(t.numerator_as_long(), t.denominator_as_long())
    if isinstance(x, SBool):
        t = z3.simplify(x.t)
        if z3.is_true(t):
            return True
        if z3.is_false(t):
            return False
    try:
        import numpy as _np
        if isinstance(x, _np.integer):
            return int(x)
        if isinstance(x, _np.floating):
            return float(x)
        if isinstance(x, _np.bool_):
            return bool(x)
    except ImportError:
        pass
    return None


class SBool:
    __slots__ = ("t",)

    def __init__(self, t):
        self.t = t

    def __bool__(self):
        return ctx().branch(self.t)

    def __and__(self, o):
        return SBool(z3.And(self.t, to_bool_term(o)))
    __rand__ = __and__

    def __or__(self, o):
        return SBool(z3.Or(self.t, to_bool_term(o)))
    __ror__ = __or__

    def __invert__(self):
        return SBool(z3.Not(self.t))

    def __xor__(self, o):
        return SBool(z3.Xor(self.t, to_bool_term(o)))
    __rxor__ = __xor__

    def __eq__(self, o):
        if isinstance(o, (SBool, bool)) or z3.is_expr(o):
            return SBool(self.t == to_bool_term(o))
        return NotImplemented

    def __ne__(self, o):
        if isinstance(o, (SBool, bool)):
            return SBool(self.t != to_bool_term(o))
        return NotImplemented

    __hash__ = None

    def __repr__(self):
        return "SBool(%s)" % self.t

    # arithmetic use of booleans (sum of a mask etc.)
    def _num(self):
        return SNum(z3.If(self.t, z3.IntVal(1), z3.IntVal(0)), "int")

    def __add__(self, o):
        return self._num() + o
    __radd__ = __add__

    def __mul__(self, o):
        return self._num() * o
    __rmul__ = __mul__


def to_bool_term(c):
    if isinstance(c, SBool):
        return c.t
    if isinstance(c, bool):
        return z3.BoolVal(c)
    if z3.is_expr(c) and z3.is_bool(c):
        return c
    v = conc(c)
    if isinstance(v, bool):
        return z3.BoolVal(v)
    try:
        import numpy as _np
        if isinstance(c, _np.bool_):
            return z3.BoolVal(bool(c))
    except ImportError:
        pass
    raise Undecided("not a truth value: %r" % (c,))


def lift(x):
    """python/numpy number -> SNum ; passes SNum/SCplx through"""
    if isinstance(x, (SNum, SCplx)):
        return x
    if isinstance(x, SBool):
        return x._num()
    if isinstance(x, bool):
        return SNum(z3.IntVal(int(x)), "int")
    if isinstance(x, int):
        return SNum(z3.IntVal(x), "int")
    if isinstance(x, float):
        return SNum(_rv(_frac(x)), "real")
    if isinstance(x, Fraction):
        return SNum(_rv(x), "real")
    if isinstance(x, complex):
        return SCplx(lift(x.real), lift(x.imag))
    try:
        import numpy as _np
        if isinstance(x, _np.integer):
            return SNum(z3.IntVal(int(x)), "int")
        if isinstance(x, _np.floating):
            return lift(float(x))
        if isinstance(x, _np.complexfloating):
            return lift(complex(x))
        if isinstance(x, _np.bool_):
            return lift(bool(x))
    except ImportError:
        pass
    if z3.is_expr(x):
        if z3.is_int(x):
            return SNum(x, "int")
        if z3.is_real(x):
            return SNum(x, "real")
    raise Undecided("cannot lift %r to a symbolic number" % (type(x),))


def to_z3(x):
    if isinstance(x, (SNum, SBool)):
        return x.t
    if isinstance(x, bool):
        return z3.BoolVal(x)
    return lift(x).t


def _real(t):
    return z3.ToReal(t) if z3.is_int(t) else t


def _num_val(t):
    """Fraction value of a numeral term (also ToReal(numeral)), else None"""
    if z3.is_int_value(t):
        return t.as_long()
    if z3.is_rational_value(t):
        return Fraction(t.numerator_as_long(), t.denominator_as_long())
    if z3.is_app(t) and t.decl().kind() == z3.Z3_OP_TO_REAL and z3.is_int_value(t.arg(0)):
        return t.arg(0).as_long()
    return None


class SNum:
    """symbolic int or real"""
    __slots__ = ("t", "kind")

    def __init__(self, t, kind=None):
        self.t = t
        self.kind = kind or ("int" if z3.is_int(t) else "real")

    # helpers
    def _bin(self, o, op, rev=False):
        if isinstance(o, SCplx):
            return NotImplemented
        try:
            o = lift(o)
        except (Undecided, TypeError):
            return NotImplemented
        if isinstance(o, SCplx):        # real (op) complex constant
            a, b = (o, SCplx(self, 0)) if rev else (SCplx(self, 0), o)
            return {"add": lambda: a + b, "sub": lambda: a - b, "mul": lambda: a * b, "div": lambda: a / b}[op]()
        a, b = (o, self) if rev else (self, o)
        if a.kind == "int" and b.kind == "int" and op != "div":
            ta, tb = a.t, b.t
            kind = "int"
        else:
            ta, tb = _real(a.t), _real(b.t)
            kind = "real"
        # exact shortcuts for the numerals 0 and 1 (keeps terms produced by generic array code small)
        ca_, cb_ = _num_val(ta), _num_val(tb)
        if op == "add" and ca_ == 0:
            return SNum(tb, kind)
        if op in ("add", "sub") and cb_ == 0:
            return SNum(ta, kind)
        if op == "mul":
            if ca_ == 0 or cb_ == 0:
                return SNum(z3.IntVal(0) if kind == "int" else z3.RealVal(0), kind)
            if ca_ == 1:
                return SNum(tb, kind)
            if cb_ == 1:
                return SNum(ta, kind)
        if op == "div" and cb_ == 1:
            return SNum(ta, kind)
        if op == "add":
            t = ta + tb
        elif op == "sub":
            t = ta - tb
        elif op == "mul":
            t = ta * tb
        elif op == "div":
            cb = conc(b)
            if cb is None:
                if not in_spec():
                    ctx().oblige("safety:div", SBool(tb != 0), kind="safety")
            elif cb == 0:
                raise PathRaise("ZeroDivisionError")
            t = ta / tb
        return SNum(z3.simplify(t) if (z3.is_app(t) and t.num_args() <= 2 and all(z3.is_rational_value(c) or z3.is_int_value(c) for c in t.children())) else t, kind)

    def __add__(self, o): return self._bin(o, "add")
    def __radd__(self, o): return self._bin(o, "add", True)
    def __sub__(self, o): return self._bin(o, "sub")
    def __rsub__(self, o): return self._bin(o, "sub", True)
    def __mul__(self, o): return self._bin(o, "mul")
    def __rmul__(self, o): return self._bin(o, "mul", True)
    def __truediv__(self, o): return self._bin(o, "div")
    def __rtruediv__(self, o): return self._bin(o, "div", True)

    def __neg__(self): return SNum(-self.t, self.kind)
    def __pos__(self): return self

    def __abs__(self):
        zero = z3.IntVal(0) if self.kind == "int" else z3.RealVal(0)
        return SNum(z3.If(self.t >= zero, self.t, -self.t), self.kind)

    def __pow__(self, n):
        cn = conc(n)
        if isinstance(cn, Fraction) and cn.denominator == 1:
            cn = int(cn)
        if isinstance(cn, float) and cn == int(cn):
            cn = int(cn)
        if isinstance(cn, int) and cn >= 0:
            if cn == 0:
                return SNum(z3.IntVal(1), "int") if self.kind == "int" else SNum(z3.RealVal(1), "real")
            out = self
            for _ in range(cn - 1):
                out = out * self
            return out
        if isinstance(cn, int) and cn < 0:
            return 1.0 / (self ** (-cn))
        if cn == 0.5 or cn == Fraction(1, 2):
            return ssqrt(self)
        raise Undecided("power with exponent %r" % (n,))

    def __rpow__(self, b):
        raise Undecided("symbolic exponent")

    def _idiv(self, o, rev, want):
        o = lift(o)
        a, b = (o, self) if rev else (self, o)
        if a.kind != "int" or b.kind != "int":
            if want == "mod" and conc(b) == 1 and not rev:      # x % 1 on reals: fractional part
                fl = z3.ToInt(_real(a.t))
                return SNum(_real(a.t) - z3.ToReal(fl), "real")
            cb = conc(b)
            if cb is not None and cb > 0:
                q = z3.ToInt(_real(a.t) / _real(b.t))              # floor of the quotient (positive divisor)
                if want == "div":
                    return SNum(q, "int")
                return SNum(_real(a.t) - _real(b.t) * z3.ToReal(q), "real")
            raise Undecided("// or % on reals with a symbolic or non-positive divisor")
        cb = conc(b)
        if cb is None:
            if not in_spec():
                ctx().oblige("safety:divisor>0", SBool(b.t > 0), kind="safety")
        elif cb == 0:
            raise PathRaise("ZeroDivisionError")
        elif cb < 0:
            raise Undecided("negative concrete divisor in // or %")
        # z3 div/mod agree with python floor div/mod for positive divisors
        return SNum(a.t / b.t if want == "div" else a.t % b.t, "int")

    def __floordiv__(self, o): return self._idiv(o, False, "div")
    def __rfloordiv__(self, o): return self._idiv(o, True, "div")
    def __mod__(self, o): return self._idiv(o, False, "mod")
    def __rmod__(self, o): return self._idiv(o, True, "mod")

    def _cmp(self, o, op):
        if isinstance(o, SCplx):
            return NotImplemented
        if o is None or isinstance(o, (str, tuple, list)):
            return NotImplemented
        try:
            fo = float(o) if not isinstance(o, (SNum, SBool)) and not z3.is_expr(o) else None
        except (TypeError, ValueError):
            fo = None
        if fo is not None and fo in (float("inf"), float("-inf")):
            pos = fo > 0          # every finite real lies strictly between -inf and +inf
            return SBool(z3.BoolVal({"lt": pos, "le": pos, "gt": not pos, "ge": not pos, "eq": False, "ne": True}[op]))
        try:
            o = lift(o)
        except (Undecided, TypeError):
            return NotImplemented
        if isinstance(o, SCplx):
            return NotImplemented
        if self.kind == "int" and o.kind == "int":
            a, b = self.t, o.t
        else:
            a, b = _real(self.t), _real(o.t)
        return SBool({"lt": a < b, "le": a <= b, "gt": a > b, "ge": a >= b, "eq": a == b, "ne": a != b}[op])

    def __lt__(self, o): return self._cmp(o, "lt")
    def __le__(self, o): return self._cmp(o, "le")
    def __gt__(self, o): return self._cmp(o, "gt")
    def __ge__(self, o): return self._cmp(o, "ge")

    def __eq__(self, o):
        r = self._cmp(o, "eq")
        return False if r is NotImplemented else r

    def __ne__(self, o):
        r = self._cmp(o, "ne")
        return True if r is NotImplemented else r

    __hash__ = None

    def __bool__(self):
        return bool(self != 0)

    def __index__(self):
        c = conc(self)
        if isinstance(c, int):
            return c
        raise Undecided("symbolic integer used where python needs a concrete index")

    def __int__(self):
        c = conc(self)
        if c is not None:
            return int(c)
        raise Undecided("int() of a symbolic value through __int__ (shadow `int` in the model namespace)")

    def __float__(self):
        c = conc(self)
        if c is not None:
            return float(c)
        raise Undecided("float() of a symbolic value")

    def __repr__(self):
        return "S%s(%s)" % (self.kind, z3.simplify(self.t))

    def __getitem__(self, key):
        """numpy scalars accept x[None], x[...], x[()] ; a symbolic scalar standing for one behaves the same"""
        import numpy as _np
        if key is None:
            return _np.array([self], dtype=object)
        if key is Ellipsis or key == ():
            return self
        raise IndexError("invalid index to scalar variable")

    def __format__(self, spec):
        """text I/O model: a formatted symbolic number is the token <<term|format-spec>> (one whitespace-free word)"""
        c = conc(self)
        if c is not None:
            return format(float(c) if self.kind == "real" else int(c), spec)
        return "<<%s|%s>>" % (z3.simplify(self.t).sexpr().replace(" ", "_"), spec)

    def __str__(self):
        return self.__format__("")

    # numpy-ish scalar attributes
    @property
    def real(self): return self

    @property
    def imag(self): return lift(0.0)

    def conj(self): return self
    conjugate = conj

    def copy(self): return self


def ssqrt(x):
    x = lift(x)
    c = conc(x)
    if c is not None:
        import math
        r = math.isqrt(int(c)) if Fraction(c).denominator == 1 and int(c) >= 0 else None
        if r is not None and r * r == c:
            return lift(float(r))
    r = fresh_real("sqrt")
    if not in_spec():
        ctx().oblige("safety:sqrt-arg>=0", x >= 0, kind="safety")
    ctx().assume(SBool(z3.And(r.t >= 0, r.t * r.t == _real(x.t))))
    return r


class SCplx:
    """complex number as a pair of real SNum"""
    __slots__ = ("re", "im")

    def __init__(self, re, im):
        self.re = lift(re)
        self.im = lift(im)

    @staticmethod
    def of(x):
        if isinstance(x, SCplx):
            return x
        if isinstance(x, complex):
            return SCplx(x.real, x.imag)
        try:
            import numpy as _np
            if isinstance(x, _np.complexfloating):
                return SCplx(float(x.real), float(x.imag))
        except ImportError:
            pass
        return SCplx(lift(x), 0)

    def __add__(self, o):
        if getattr(o, "__array_priority__", 0) >= 3000:      # phases / phase sums take over
            return NotImplemented
        o = SCplx.of(o); return SCplx(self.re + o.re, self.im + o.im)
    __radd__ = __add__

    def __sub__(self, o):
        if getattr(o, "__array_priority__", 0) >= 3000:
            return NotImplemented
        o = SCplx.of(o); return SCplx(self.re - o.re, self.im - o.im)

    def __rsub__(self, o):
        if getattr(o, "__array_priority__", 0) >= 3000:
            return NotImplemented
        o = SCplx.of(o); return SCplx(o.re - self.re, o.im - self.im)

    def __mul__(self, o):
        if getattr(o, "__array_priority__", 0) >= 3000:      # phases / scaled values take over
            return NotImplemented
        if not isinstance(o, (SCplx, complex)) :
            try:
                import numpy as _np
                if isinstance(o, _np.ndarray):
                    return NotImplemented
                if not isinstance(o, _np.complexfloating):
                    o = lift(o); return SCplx(self.re * o, self.im * o)
            except ImportError:
                o = lift(o); return SCplx(self.re * o, self.im * o)
        o = SCplx.of(o)
        return SCplx(self.re * o.re - self.im * o.im, self.re * o.im + self.im * o.re)
    __rmul__ = __mul__

    def __truediv__(self, o):
        if isinstance(o, (SCplx, complex)):
            o = SCplx.of(o)
            d = o.re * o.re + o.im * o.im
            n = self * o.conj()
            return SCplx(n.re / d, n.im / d)
        o = lift(o)
        return SCplx(self.re / o, self.im / o)

    def __rtruediv__(self, o):
        return SCplx.of(o) / self

    def __neg__(self): return SCplx(-self.re, -self.im)
    def __pos__(self): return self

    def conj(self): return SCplx(self.re, -self.im)
    conjugate = conj

    def exp(self):
        from .phase import exp_scalar
        return exp_scalar(self)

    @property
    def real(self): return self.re

    @property
    def imag(self): return self.im

    def __abs__(self):
        return ssqrt(self.re * self.re + self.im * self.im)

    def __pow__(self, n):
        cn = conc(n)
        if isinstance(cn, int) and cn >= 1:
            out = self
            for _ in range(cn - 1):
                out = out * self
            return out
        raise Undecided("complex power")

    def __eq__(self, o):
        try:
            o = SCplx.of(o)
        except (Undecided, TypeError):
            return False
        return SBool(z3.And((self.re == o.re).t, (self.im == o.im).t))

    def __ne__(self, o):
        return ~(self == o)

    __hash__ = None

    def __repr__(self):
        return "SCplx(%r,%r)" % (self.re, self.im)

    def copy(self): return self


class SOpaque:
    """value of an uninterpreted sort (abstract results, abstract operators): only equality is available"""
    __slots__ = ("t",)

    def __init__(self, t):
        self.t = t

    def __eq__(self, o):
        if isinstance(o, SOpaque):
            return SBool(self.t == o.t)
        return False

    def __ne__(self, o):
        if isinstance(o, SOpaque):
            return SBool(self.t != o.t)
        return True

    __hash__ = None

    def copy(self):
        return self

    def __repr__(self):
        return "SOpaque(%s)" % self.t


# --------------------------------------------------------------------------- constructors, connectives

def fresh_real(name="r"):
    return SNum(z3.Real(ctx().fresh_name(name)), "real")


def fresh_int(name="i"):
    return SNum(z3.Int(ctx().fresh_name(name)), "int")


def fresh_bool(name="b"):
    return SBool(z3.Bool(ctx().fresh_name(name)))


def sreal(name): return SNum(z3.Real(name), "real")
def sint(name): return SNum(z3.Int(name), "int")
def sbool(name): return SBool(z3.Bool(name))


def _b(x):
    return x if isinstance(x, Q) else to_bool_term(x)


def land(*xs):
    xs = [x for x in xs]
    if any(isinstance(x, Q) for x in xs):
        raise Undecided("Q inside land: assume/oblige them separately")
    return SBool(z3.And(*[to_bool_term(x) for x in xs])) if xs else SBool(z3.BoolVal(True))


def lor(*xs):
    return SBool(z3.Or(*[to_bool_term(x) for x in xs])) if xs else SBool(z3.BoolVal(False))


def lnot(x):
    return SBool(z3.Not(to_bool_term(x)))


def implies(a, b):
    if isinstance(b, Q):
        inner = b
        return Q(lambda *v: implies(a, inner.body(*v)), inner.sorts, inner.name)
    return SBool(z3.Implies(to_bool_term(a), to_bool_term(b)))


def ite_pc(c, a, b):
    """ite that is resolved right away when the path condition already decides c (keeps index terms simple)"""
    cv = conc(c) if not isinstance(c, bool) else c
    if cv is None and _CUR[0] is not None and not in_spec():
        cv = _CUR[0].entails(c)
    if cv is True:
        return a
    if cv is False:
        return b
    return ite(c, a, b)


def ite(c, a, b):
    cv = conc(c) if not isinstance(c, bool) else c
    if cv is True:
        return a
    if cv is False:
        return b
    ct = to_bool_term(c)
    if isinstance(a, (SBool, bool)) and isinstance(b, (SBool, bool)):
        return SBool(z3.If(ct, to_bool_term(a), to_bool_term(b)))
    if isinstance(a, SCplx) or isinstance(b, SCplx) or isinstance(a, complex) or isinstance(b, complex):
        a, b = SCplx.of(a), SCplx.of(b)
        return SCplx(ite(c, a.re, b.re), ite(c, a.im, b.im))
    a, b = lift(a), lift(b)
    if a.kind == "int" and b.kind == "int":
        return SNum(z3.If(ct, a.t, b.t), "int")
    return SNum(z3.If(ct, _real(a.t), _real(b.t)), "real")


def forall(body, sorts=("int",), name="q"):
    return Q(body, sorts, name)
