"""pyvc.phase -- unit-modulus phases  ph(x) = exp(2 pi i x)  as symbolic objects.

A Ph holds a linear form  c0 + sum_j c_j * x_j  (rational coefficients, x_j real symbols).  The only facts about exp used
(axioms M1 of DESIGN section 4):  ph(x) ph(y) = ph(x+y),  1/ph(x) = conj ph(x) = ph(-x),  ph(n) = 1 for integer n.
Two phases are equal when their forms agree up to an integer constant (sufficient; for generic real x_j also necessary).
A Scaled is value * phase (what `H[R] * exp(...)` produces).
"""
import math
from fractions import Fraction
import z3

from .core import SNum, SCplx, SBool, lift, conc, Undecided

TWO_PI = Fraction(repr(2 * math.pi))


def linform(x):
    """linear form {symbol name: Fraction, 1: constant} of a real SNum whose term is linear with numeric coefficients"""
    t = z3.simplify(lift(x).t, som=True)
    out = {}

    def add(k, v):
        out[k] = out.get(k, Fraction(0)) + v
        if out[k] == 0:
            del out[k]

    def num(e):
        if z3.is_rational_value(e):
            return Fraction(e.numerator_as_long(), e.denominator_as_long())
        if z3.is_int_value(e):
            return Fraction(e.as_long())
        return None

    def rec(e, coef):
        n = num(e)
        if n is not None:
            add(1, coef * n)
            return
        k = e.decl().kind()
        if k == z3.Z3_OP_ADD:
            for c in e.children():
                rec(c, coef)
        elif k == z3.Z3_OP_SUB:
            ch = e.children()
            rec(ch[0], coef)
            for c in ch[1:]:
                rec(c, -coef)
        elif k == z3.Z3_OP_UMINUS:
            rec(e.arg(0), -coef)
        elif k == z3.Z3_OP_TO_REAL:
            rec(e.arg(0), coef)
        elif k == z3.Z3_OP_MUL:
            c = coef
            rest = []
            for ch in e.children():
                n = num(ch)
                if n is not None:
                    c *= n
                elif ch.decl().kind() == z3.Z3_OP_TO_REAL and num(ch.arg(0)) is not None:
                    c *= num(ch.arg(0))
                else:
                    rest.append(ch)
            if len(rest) == 0:
                add(1, c)
            elif len(rest) == 1:
                rec(rest[0], c)
            else:
                raise Undecided("non-linear phase argument %s" % e)
        elif k == z3.Z3_OP_DIV:
            d = num(e.arg(1))
            if d is None:
                raise Undecided("phase argument divided by a symbol")
            rec(e.arg(0), coef / d)
        elif z3.is_const(e) and k == z3.Z3_OP_UNINTERPRETED:
            add(e.decl().name(), coef)
        else:
            raise Undecided("phase argument %s" % e)
    rec(t, Fraction(1))
    return out


class Ph:
    __array_priority__ = 3000

    def __init__(self, form):
        self.form = {k: v for k, v in form.items() if v != 0}
        if 1 in self.form:
            self.form[1] = self.form[1] % 1
            if self.form[1] == 0:
                del self.form[1]

    @staticmethod
    def of(x):
        return Ph(linform(x))

    def __mul__(self, o):
        if isinstance(o, Ph):
            f = dict(self.form)
            for k, v in o.form.items():
                f[k] = f.get(k, 0) + v
            return Ph(f)
        if isinstance(o, Scaled):
            return Scaled(o.v, self * o.ph)
        if isinstance(o, (int, float)) and o == 1:
            return self
        return Scaled(o, self)
    __rmul__ = __mul__

    def inv(self):
        return Ph({k: -v for k, v in self.form.items()})

    def __rtruediv__(self, o):
        if isinstance(o, (int, float)) and o == 1:
            return self.inv()
        return Scaled(o, self.inv())

    def __truediv__(self, o):
        if isinstance(o, Ph):
            return self * o.inv()
        raise Undecided("phase divided by a value")

    def conj(self):
        return self.inv()
    conjugate = conj

    def same(self, o):
        return isinstance(o, Ph) and self.form == o.form

    def __repr__(self):
        return "ph(%s)" % " + ".join("%s*%s" % (v, k) for k, v in sorted(self.form.items(), key=lambda kv: str(kv[0])))


class Scaled:
    """value * phase"""
    __array_priority__ = 3000

    def __init__(self, v, ph):
        self.v, self.ph = v, ph

    def __mul__(self, o):
        if isinstance(o, Ph):
            return Scaled(self.v, self.ph * o)
        if isinstance(o, Scaled):
            return Scaled(self.v * o.v, self.ph * o.ph)
        return Scaled(self.v * o, self.ph)
    __rmul__ = __mul__

    def conj(self):
        return Scaled(self.v.conj() if hasattr(self.v, "conj") else self.v, self.ph.inv())

    def __repr__(self):
        return "%r*%r" % (self.v, self.ph)


def _snap(c):
    """2*pi*n is computed in floating point before it meets a symbol; floats are treated as the reals they stand for:
    a coefficient within 1e-12 of a rational with denominator <= 1000 is that rational"""
    r = Fraction(c).limit_denominator(1000)
    return r if abs(r - c) < Fraction(1, 10 ** 12) * (1 + abs(r)) else c


def exp_scalar(x):
    """np.exp of one element: a purely imaginary 2*pi*i*(linear form) becomes a phase"""
    if isinstance(x, SCplx):
        cre = conc(x.re)
        if cre is None or cre != 0:
            raise Undecided("exp of a value with a symbolic real part")
        f = linform(x.im)
        return Ph({k: _snap(v / TWO_PI) for k, v in f.items()})
    if isinstance(x, complex):
        if x.real != 0:
            raise Undecided("exp of a complex with real part")
        return Ph({1: Fraction(repr(x.imag)) / TWO_PI})
    raise Undecided("exp of %r" % (x,))
