"""pyvc.phase -- unit-modulus phases  ph(x) = exp(2 pi i x)  as symbolic objects.

A Ph holds a linear form  c0 + sum_j c_j * x_j  (rational coefficients, x_j real symbols).  The only facts about exp used
(axioms M1 of DESIGN section 4):  ph(x) ph(y) = ph(x+y),  1/ph(x) = conj ph(x) = ph(-x),  ph(n) = 1 for integer n.
Two phases are equal when their forms agree up to an integer constant (sufficient; for generic real x_j also necessary).
A Scaled is value * phase (what `H[R] * exp(...)` produces).
"""
import math
from fractions import Fraction
import z3

from .core import SNum, SCplx, SBool, lift, conc, Undecided

TWO_PI = Fraction(repr(2 * math.pi))


def linform(x):
    """linear form {symbol name: Fraction, 1: constant} of a real SNum whose term is linear with numeric coefficients"""
    t = z3.simplify(lift(x).t, som=True)
    out = {}

    def add(k, v):
        out[k] = out.get(k, Fraction(0)) + v
        if out[k] == 0:
            del out[k]

    def num(e):
        if z3.is_rational_value(e):
            return Fraction(e.numerator_as_long(), e.denominator_as_long())
        if z3.is_int_value(e):
            return Fraction(e.as_long())
        return None

    def rec(e, coef):
        n = num(e)
        if n is not None:
            add(1, coef * n)
            return
        k = e.decl().kind()
        if k == z3.Z3_OP_ADD:
            for c in e.children():
                rec(c, coef)
        elif k == z3.Z3_OP_SUB:
            ch = e.children()
            rec(ch[0], coef)
            for c in ch[1:]:
                rec(c, -coef)
        elif k == z3.Z3_OP_UMINUS:
            rec(e.arg(0), -coef)
        elif k == z3.Z3_OP_TO_REAL:
            rec(e.arg(0), coef)
        elif k == z3.Z3_OP_MUL:
            c = coef
            rest = []
            for ch in e.children():
                n = num(ch)
                if n is not None:
                    c *= n
                elif ch.decl().kind() == z3.Z3_OP_TO_REAL and num(ch.arg(0)) is not None:
                    c *= num(ch.arg(0))
                else:
                    rest.append(ch)
            if len(rest) == 0:
                add(1, c)
            elif len(rest) == 1:
                rec(rest[0], c)
            else:
                raise Undecided("non-linear phase argument %s" % e)
        elif k == z3.Z3_OP_DIV:
            d = num(e.arg(1))
            if d is None:
                raise Undecided("phase argument divided by a symbol")
            rec(e.arg(0), coef / d)
        elif z3.is_const(e) and k == z3.Z3_OP_UNINTERPRETED:
            add(e.decl().name(), coef)
        else:
            raise Undecided("phase argument %s" % e)
    rec(t, Fraction(1))
    return out


def _elementwise(o, f):
    import numpy as _np
    out = _np.empty(o.shape, dtype=object)
    for idx in _np.ndindex(o.shape):
        out[idx] = f(o[idx])
    return out


def _is_arr(o):
    import numpy as _np
    return isinstance(o, _np.ndarray)


class Ph:
    __array_priority__ = 3000

    def __init__(self, form):
        self.form = {k: v for k, v in form.items() if v != 0}
        if 1 in self.form:
            self.form[1] = self.form[1] % 1
            if self.form[1] == 0:
                del self.form[1]

    @staticmethod
    def of(x):
        return Ph(linform(x))

    def __mul__(self, o):
        if _is_arr(o):
            return _elementwise(o, lambda v: self * v)
        if isinstance(o, PhSum):
            return PhSum.of(self) * o
        if isinstance(o, Ph):
            f = dict(self.form)
            for k, v in o.form.items():
                f[k] = f.get(k, 0) + v
            return Ph(f)
        if isinstance(o, Scaled):
            return Scaled(o.v, self * o.ph)
        if isinstance(o, (int, float)) and o == 1:
            return self
        return Scaled(o, self)
    __rmul__ = __mul__

    def inv(self):
        return Ph({k: -v for k, v in self.form.items()})

    def __pow__(self, n):
        if _is_arr(n):
            return _elementwise(n, lambda v: self ** v)
        if int(n) != n:
            raise Undecided("non-integer power of a phase")
        return Ph({k: v * int(n) for k, v in self.form.items()})

    def __rtruediv__(self, o):
        if isinstance(o, (int, float)) and o == 1:
            return self.inv()
        return Scaled(o, self.inv())

    def __truediv__(self, o):
        if isinstance(o, Ph):
            return self * o.inv()
        raise Undecided("phase divided by a value")

    def conj(self):
        return self.inv()
    conjugate = conj

    def same(self, o):
        return isinstance(o, Ph) and self.form == o.form

    def __repr__(self):
        return "ph(%s)" % " + ".join("%s*%s" % (v, k) for k, v in sorted(self.form.items(), key=lambda kv: str(kv[0])))


class Scaled:
    """value * phase"""
    __array_priority__ = 3000

    def __init__(self, v, ph):
        self.v, self.ph = v, ph

    def __mul__(self, o):
        if _is_arr(o):
            return _elementwise(o, lambda v: self * v)
        if isinstance(o, PhSum):
            return PhSum.of(self) * o
        if isinstance(o, Ph):
            return Scaled(self.v, self.ph * o)
        if isinstance(o, Scaled):
            return Scaled(self.v * o.v, self.ph * o.ph)
        return Scaled(self.v * o, self.ph)
    __rmul__ = __mul__

    def conj(self):
        return Scaled(self.v.conj() if hasattr(self.v, "conj") else self.v, self.ph.inv())

    def __repr__(self):
        return "%r*%r" % (self.v, self.ph)


def _snap(c):
    """2*pi*n is computed in floating point before it meets a symbol; floats are treated as the reals they stand for:
    a coefficient within 1e-12 of a rational with denominator <= 1000 is that rational"""
    r = Fraction(c).limit_denominator(1000)
    return r if abs(r - c) < Fraction(1, 10 ** 12) * (1 + abs(r)) else c


def exp_scalar(x):
    """np.exp of one element: a purely imaginary 2*pi*i*(linear form) becomes a phase"""
    if isinstance(x, SCplx):
        cre = conc(x.re)
        if cre is None or cre != 0:
            raise Undecided("exp of a value with a symbolic real part")
        f = linform(x.im)
        return Ph({k: _snap(v / TWO_PI) for k, v in f.items()})
    if isinstance(x, complex):
        if x.real != 0:
            raise Undecided("exp of a complex with real part")
        return Ph({1: _snap(Fraction(repr(x.imag)) / TWO_PI)})
    raise Undecided("exp of %r" % (x,))


# ---------------------------------------------------------------------------------------------------------------------
# sums of  value * phase  (what a Fourier sum produces)
# ---------------------------------------------------------------------------------------------------------------------
_UNIT = {Fraction(0): (1, 0), Fraction(1, 4): (0, 1), Fraction(1, 2): (-1, 0), Fraction(3, 4): (0, -1)}


def _key_of(ph):
    """canonical key of a phase and the constant unit (1, i, -1, -i) folded out of it: ph = unit * ph(key)"""
    c = ph.form.get(1, Fraction(0)) % 1
    sym = tuple(sorted(((k, v) for k, v in ph.form.items() if k != 1), key=lambda kv: str(kv[0])))
    q = (c * 4).__floor__()                      # ph(c) = i**q * ph(rest),  0 <= rest < 1/4
    rest = c - Fraction(q, 4)
    unit = _UNIT[Fraction(q % 4, 4)]
    if rest == 0:
        return sym, unit
    return sym + (("#", rest),), unit


class PhSum:
    """sum_j  v_j * ph(form_j)  with distinct canonical forms; the characters ph(form) of distinct forms are treated as
    linearly independent (true for generic values of the symbols; constants that are multiples of 1/4 are folded into the
    coefficients exactly, other rational constants stay formal -- comparing coefficient-wise is then sufficient for equality,
    never the other way round: a mismatch is only reported as a violation after a concrete replay reproduces it)"""
    __array_priority__ = 4000
    __slots__ = ("t",)

    def __init__(self, t=None):
        self.t = t or {}

    @staticmethod
    def of(x):
        if isinstance(x, PhSum):
            return x
        if isinstance(x, Ph):
            k, (a, b) = _key_of(x)
            return PhSum({k: SCplx(a, b)})
        if isinstance(x, Scaled):
            k, (a, b) = _key_of(x.ph)
            return PhSum({k: SCplx.of(x.v) * SCplx(a, b)})
        v = SCplx.of(x)
        if conc(v.re) == 0 and conc(v.im) == 0:
            return PhSum({})
        return PhSum({(): v})

    def _clean(self):
        self.t = {k: v for k, v in self.t.items() if not (conc(v.re) == 0 and conc(v.im) == 0)}
        return self

    def __add__(self, o):
        if _is_arr(o):
            return _elementwise(o, lambda v: self + v)
        try:
            o = PhSum.of(o)
        except (Undecided, TypeError):
            return NotImplemented
        t = dict(self.t)
        for k, v in o.t.items():
            t[k] = t[k] + v if k in t else v
        return PhSum(t)._clean()
    __radd__ = __add__

    def __neg__(self):
        return PhSum({k: -v for k, v in self.t.items()})

    def __sub__(self, o):
        if _is_arr(o):
            return _elementwise(o, lambda v: self - v)
        return self + (-PhSum.of(o))

    def __rsub__(self, o):
        if _is_arr(o):
            return _elementwise(o, lambda v: v - self)
        return PhSum.of(o) + (-self)

    def __mul__(self, o):
        if _is_arr(o):
            return _elementwise(o, lambda v: self * v)
        o = PhSum.of(o)
        t = {}
        for k1, v1 in self.t.items():
            for k2, v2 in o.t.items():
                f = {}
                for a, b in k1 + k2:
                    a = 1 if a == "#" else a
                    f[a] = f.get(a, 0) + b
                k, (ua, ub) = _key_of(Ph(f))
                v = v1 * v2
                if (ua, ub) != (1, 0):
                    v = v * SCplx(ua, ub)
                t[k] = t[k] + v if k in t else v
        return PhSum(t)._clean()
    __rmul__ = __mul__

    def __truediv__(self, o):
        if isinstance(o, (Ph, Scaled, PhSum)):
            if isinstance(o, Ph):
                return self * o.inv()
            raise Undecided("division by a phase sum")
        return PhSum({k: v / o for k, v in self.t.items()})

    def conj(self):
        out = {}
        for k, v in self.t.items():
            kk, (ua, ub) = _key_of(Ph({(1 if a == "#" else a): -b for a, b in k}))
            out[kk] = v.conj() * SCplx(ua, ub) if (ua, ub) != (1, 0) else v.conj()
        return PhSum(out)
    conjugate = conj

    def coef(self, k):
        return self.t.get(k, SCplx(0, 0))

    def __repr__(self):
        return "PhSum(%d terms: %s)" % (len(self.t), ", ".join(str(k) for k in list(self.t)[:4]))


def _promote_add(cls):
    def add(self, o):
        if _is_arr(o):
            return _elementwise(o, lambda v: PhSum.of(self) + v)
        try:
            return PhSum.of(self) + o
        except (Undecided, TypeError):
            return NotImplemented

    def sub(self, o):
        return PhSum.of(self) - o

    def rsub(self, o):
        return PhSum.of(o) - PhSum.of(self)
    cls.__add__ = add
    cls.__radd__ = add
    cls.__sub__ = sub
    cls.__rsub__ = rsub
    cls.__neg__ = lambda self: -PhSum.of(self)


_promote_add(Ph)
_promote_add(Scaled)


def phsum_eq(a, b):
    """SBool: the two phase sums have equal coefficients on every character"""
    from .core import land
    a, b = PhSum.of(a), PhSum.of(b)
    cl = []
    for k in set(a.t) | set(b.t):
        x, y = a.coef(k), b.coef(k)
        cl.append(x.re == y.re)
        cl.append(x.im == y.im)
    return land(*cl) if cl else SBool(z3.BoolVal(True))


def fourier_spec(X, Rs, k, extra=None):
    """sum_R X[R] * ph(k . R)  for an integer vector list Rs and a k given as 3 linear forms / numbers"""
    out = PhSum({})
    for iR, R in enumerate(Rs):
        f = {}
        for j in range(3):
            r = int(R[j])
            if r == 0:
                continue
            kj = k[j]
            if isinstance(kj, dict):
                for a, b in kj.items():
                    f[a] = f.get(a, 0) + b * r
            else:
                f[1] = f.get(1, 0) + Fraction(kj) * r
        out = out + PhSum.of(Ph(f)) * X[iR]
    return out
