"""pyvc.extract -- mechanical extraction of one function from /repo's working tree, on every run.

What is read: the file under $VERIF_REPO (default /repo), parsed with `ast`; the function is located by qualified
name ("Class.method" or "func").  The text compiled and executed by the engine is that AST, with exactly these
changes (recorded per function in the evidence under `dropped` / `rewritten`):

  dropped    decorators (@njit, @lru_cache, @cached_property, @property, @classmethod, @staticmethod),
             the docstring, argument/return annotations.
  rewritten  (semantics-preserving for concrete iterables -- the original loop is kept verbatim and used whenever
             the iterable is an ordinary python/numpy object)
             * `for`/`while` loops: a second copy of the loop is added that is taken only when the iterable has a
               symbolic length; that copy is the classical invariant cut (assert inv on entry; havoc the variables the
               body assigns; assume inv; run the body once; assert inv; stop -- and the exit path assumes inv at the
               end position).  `break` leaves to the code after the loop with the current state, `continue` goes to
               the invariant check.
             * single-generator list comprehensions / generator expressions: `[E for T in IT if C]` becomes
               `__vc.comp(kind, IT, lambda T: E, lambda T: C)`, which is the python comprehension itself for concrete
               iterables and a map/filter on the model sequence otherwise.
             * private names `__x` inside a class body are mangled to `_Class__x` as python does.
Nothing else is changed; the module globals the function sees are supplied by the contract (model numpy or the real
module's globals).
"""
import ast
import copy
import hashlib
import os
import textwrap

REPO = os.environ.get("VERIF_REPO", "/repo")

MUTATORS = {"append", "extend", "insert", "pop", "remove", "add", "update", "sort", "clear", "discard", "setdefault",
            "reverse", "fill", "popitem"}


class ContractUnbound(Exception):
    """the sidecar contract names a loop / local that no longer exists in the code"""


class FunctionNotFound(ContractUnbound):
    pass


def read_source(relpath):
    path = relpath if os.path.isabs(relpath) else os.path.join(REPO, relpath)
    with open(path) as f:
        return f.read(), path


def find_def(tree, qualname):
    parts = qualname.split(".")
    body = tree.body
    cls = None
    node = None
    for i, p in enumerate(parts):
        node = None
        for n in body:
            if isinstance(n, (ast.FunctionDef, ast.ClassDef)) and n.name == p:
                node = n          # last definition wins, as in python
        if node is None:
            raise FunctionNotFound(qualname)
        if isinstance(node, ast.ClassDef):
            cls = node
        body = node.body
    return node, cls


def class_bases(tree, clsname):
    for n in tree.body:
        if isinstance(n, ast.ClassDef) and n.name == clsname:
            return [ast.unparse(b) for b in n.bases]
    return None


class _Mangle(ast.NodeTransformer):
    def __init__(self, cls):
        self.cls = cls.lstrip("_")

    def _m(self, s):
        if s.startswith("__") and not s.endswith("__"):
            return "_%s%s" % (self.cls, s)
        return s

    def visit_Attribute(self, node):
        self.generic_visit(node)
        node.attr = self._m(node.attr)
        return node

    def visit_Name(self, node):
        node.id = self._m(node.id)
        return node


def _assigned_names(stmts):
    """names (re)bound or mutated in place by these statements, syntactically; nested defs/lambdas excluded"""
    out = []

    def add(n):
        if n not in out:
            out.append(n)

    def target(t):
        if isinstance(t, ast.Name):
            add(t.id)
        elif isinstance(t, (ast.Tuple, ast.List)):
            for e in t.elts:
                target(e)
        elif isinstance(t, ast.Starred):
            target(t.value)
        elif isinstance(t, (ast.Subscript, ast.Attribute)):
            b = t
            while isinstance(b, (ast.Subscript, ast.Attribute)):
                b = b.value
            if isinstance(b, ast.Name):
                add(b.id)

    class V(ast.NodeVisitor):
        def visit_FunctionDef(self, n): add(n.name)
        def visit_Lambda(self, n): pass
        def visit_ListComp(self, n): pass
        def visit_SetComp(self, n): pass
        def visit_DictComp(self, n): pass
        def visit_GeneratorExp(self, n): pass

        def visit_Assign(self, n):
            for t in n.targets:
                target(t)
            self.generic_visit(n)

        def visit_AugAssign(self, n):
            target(n.target)
            self.generic_visit(n)

        def visit_AnnAssign(self, n):
            target(n.target)
            self.generic_visit(n)

        def visit_For(self, n):
            target(n.target)
            self.generic_visit(n)

        def visit_With(self, n):
            for it in n.items:
                if it.optional_vars is not None:
                    target(it.optional_vars)
            self.generic_visit(n)

        def visit_NamedExpr(self, n):
            target(n.target)
            self.generic_visit(n)

        def visit_Expr(self, n):
            # a mutator call used as a statement (`x.append(..)`, `d[k].update(..)`); a call whose value is used
            # (`np.sort(a)`, `s.pop()` in an expression is still caught through the assignment it feeds) is not a mutation of its base
            c = n.value
            if isinstance(c, ast.Call) and isinstance(c.func, ast.Attribute) and c.func.attr in MUTATORS:
                b = c.func.value
                while isinstance(b, (ast.Subscript, ast.Attribute)):
                    b = b.value
                if isinstance(b, ast.Name):
                    add(b.id)
            self.generic_visit(n)

        def visit_Delete(self, n):
            for t in n.targets:
                target(t)
    v = V()
    for s in stmts:
        v.visit(s)
    return out


def _p(src):
    return ast.parse(textwrap.dedent(src)).body


class _BreakCont(ast.NodeTransformer):
    """rewrite break statements that belong to the loop being cut"""

    def __init__(self, flag):
        self.flag = flag

    def visit_For(self, n): return n
    def visit_While(self, n): return n
    def visit_FunctionDef(self, n): return n
    def visit_Lambda(self, n): return n

    def visit_Break(self, n):
        return _p("%s = True\nbreak" % self.flag)


class _Rewriter(ast.NodeTransformer):
    def __init__(self, rewrite_comps=True):
        self.k = -1
        self.loops = []     # (id, kind, header text, lineno, modified names)
        self.ncomp = 0
        self.rewrite_comps = rewrite_comps

    def visit_FunctionDef(self, node):
        # nested function definitions: rewrite inside as well (they are part of the text)
        self.generic_visit(node)
        return node

    def _cut(self, node, kind):
        self.k += 1
        k = self.k
        header = ast.unparse(node.iter) if kind == "for" else ast.unparse(node.test)
        mods = _assigned_names(node.body) + (_assigned_names([ast.Assign(targets=[node.target], value=ast.Constant(0))])
                                              if kind == "for" else [])
        mods = [m for i, m in enumerate(mods) if m not in mods[:i] and not m.startswith("__vc")]
        self.loops.append(dict(id=k, kind=kind, header=header, lineno=node.lineno, modifies=mods))
        orig = copy.deepcopy(node)
        # recursive rewriting of both copies (inner loops get their own ids; the two copies share them)
        k_after = self.k
        orig.body = self._block(orig.body)
        orig.orelse = self._block(orig.orelse)
        self.k = k_after
        saved = len(self.loops)
        body2 = self._block(copy.deepcopy(node.body))
        orelse2 = self._block(copy.deepcopy(node.orelse))
        del self.loops[saved:]       # ids of the second copy duplicate the first
        flag = "__vc_brk%d" % k
        body2 = [_BreakCont(flag).visit(s) for s in body2]
        body2 = [x for s in body2 for x in (s if isinstance(s, list) else [s])]
        h = "__vc_h%d" % k
        pre = _p("%s = __vc.enter(%d, %r, %s)" % (h, k, kind, "None" if kind == "while" else "__VC_ITER__"))
        if kind == "for":
            pre[0].value.args[2] = node.iter
        cut = []
        cut += _p("__vc.inv_entry(%s, locals())" % h)
        cut += _p("__vc_new%d = __vc.havoc(%s, locals(), %r)" % (k, h, tuple(mods)))
        for m in mods:
            cut += _p("if %r in __vc_new%d: %s = __vc_new%d[%r]" % (m, k, m, k, m))
        cut += _p("__vc.inv_assume(%s, locals())" % h)
        asg = []
        if kind == "for":
            asg = [ast.Assign(targets=[copy.deepcopy(node.target)], value=_p("__vc.target(%s)" % h)[0].value)]
        test = _p("if __vc.more(%s): pass\nelse: pass" % h)[0]
        if kind == "while":
            test.test = copy.deepcopy(node.test)
        once = _p("%s = False\nfor __vc_once in (0,): pass" % flag)
        once[1].body = body2 or [ast.Pass()]
        tail = _p("if not %s:\n    __vc.advance(%s)\n    __vc.inv_preserve(%s, locals())\n    __vc.stop(%s)" % (flag, h, h, h))
        test.body = asg + once + tail
        test.orelse = orelse2 or [ast.Pass()]
        cut.append(test)
        sel = _p("if %s.concrete: pass\nelse: pass" % h)[0]
        if kind == "for":
            orig.iter = _p("%s.it" % h)[0].value
        sel.body = [orig]
        sel.orelse = cut
        out = pre + [sel]
        for s in out:
            ast.copy_location(s, node)
        return out

    def _block(self, stmts):
        out = []
        for s in stmts:
            r = self.visit(s)
            if isinstance(r, list):
                out.extend(r)
            elif r is not None:
                out.append(r)
        return out

    def visit_For(self, node):
        return self._cut(node, "for")

    def visit_While(self, node):
        return self._cut(node, "while")

    def _comp(self, node, kind):
        self.generic_visit(node)
        if not self.rewrite_comps or len(node.generators) != 1 or node.generators[0].is_async:
            return node
        g = node.generators[0]
        names = []

        def flat(t):
            if isinstance(t, ast.Name):
                names.append(t.id)
                return True
            if isinstance(t, (ast.Tuple, ast.List)):
                return all(flat(e) for e in t.elts)
            return False
        if not flat(g.target):
            return node
        self.ncomp += 1

        def lam(expr):
            if isinstance(g.target, ast.Name):
                return ast.Lambda(args=ast.arguments(posonlyargs=[], args=[ast.arg(arg=g.target.id)], kwonlyargs=[],
                                                     kw_defaults=[], defaults=[]), body=expr)
            # tuple target: lambda __t: (lambda a, b: expr)(*unpack(__t))   -- generic nested unpacking via helper
            inner = ast.Lambda(args=ast.arguments(posonlyargs=[], args=[ast.arg(arg=n) for n in names], kwonlyargs=[],
                                                  kw_defaults=[], defaults=[]), body=expr)
            shape = ast.unparse(g.target)
            call = ast.Call(func=inner, args=[ast.Starred(value=ast.Call(
                func=ast.Attribute(value=ast.Name(id="__vc", ctx=ast.Load()), attr="unpack", ctx=ast.Load()),
                args=[ast.Constant(shape), ast.Name(id="__vc_t", ctx=ast.Load())], keywords=[]), ctx=ast.Load())], keywords=[])
            return ast.Lambda(args=ast.arguments(posonlyargs=[], args=[ast.arg(arg="__vc_t")], kwonlyargs=[],
                                                 kw_defaults=[], defaults=[]), body=call)
        if kind == "dict":
            elt = ast.Tuple(elts=[node.key, node.value], ctx=ast.Load())
        else:
            elt = node.elt
        conds = ast.List(elts=[lam(c) for c in g.ifs], ctx=ast.Load())
        new = ast.Call(func=ast.Attribute(value=ast.Name(id="__vc", ctx=ast.Load()), attr="comp", ctx=ast.Load()),
                       args=[ast.Constant(kind), g.iter, lam(elt), conds], keywords=[])
        return ast.copy_location(new, node)

    def visit_Compare(self, node):
        # `a in b` / `a not in b` coerce the answer to a python bool; route them through __vc.contains so that a model
        # container can answer symbolically (for ordinary containers this is operator.contains)
        self.generic_visit(node)
        if len(node.ops) == 1 and isinstance(node.ops[0], (ast.In, ast.NotIn)):
            call = ast.Call(func=ast.Attribute(value=ast.Name(id="__vc", ctx=ast.Load()), attr="contains", ctx=ast.Load()),
                            args=[node.comparators[0], node.left, ast.Constant(isinstance(node.ops[0], ast.NotIn))], keywords=[])
            return ast.copy_location(call, node)
        if len(node.ops) == 1 and isinstance(node.ops[0], (ast.Eq, ast.NotEq)) and isinstance(node.left, ast.Attribute) \
                and node.left.attr == "dtype":
            # `x.dtype == T`: an object array of symbolic scalars stands for an array of the scalars' type; for every other
            # array this is the comparison itself
            call = ast.Call(func=ast.Attribute(value=ast.Name(id="__vc", ctx=ast.Load()), attr="dtype_eq", ctx=ast.Load()),
                            args=[node.left.value, node.comparators[0], ast.Constant(isinstance(node.ops[0], ast.NotEq))], keywords=[])
            self.ndtype = getattr(self, "ndtype", 0) + 1
            return ast.copy_location(call, node)
        return node

    def visit_ListComp(self, node): return self._comp(node, "list")
    def visit_GeneratorExp(self, node): return self._comp(node, "gen")
    def visit_DictComp(self, node): return self._comp(node, "dict")
    def visit_SetComp(self, node): return self._comp(node, "set")


class Extracted:
    pass


def _insert_cuts(fn, cuts):
    """insert `__vc.cut(k, locals())` after the first statement whose text equals cuts[k]['after']"""
    for k, c in enumerate(cuts or []):
        done = []

        def walk(stmts):
            for i, st in enumerate(stmts):
                if done:
                    return
                if ast.unparse(st) == c["after"]:
                    new = _p("__vc_cut%d = __vc.cut(%d, locals())" % (k, k))
                    for v in c["vars"]:
                        new += _p("if %r in __vc_cut%d: %s = __vc_cut%d[%r]" % (v, k, v, k, v))
                    stmts[i + 1:i + 1] = new
                    done.append(1)
                    return
                for fld in ("body", "orelse", "finalbody"):
                    sub = getattr(st, fld, None)
                    if isinstance(sub, list) and sub and isinstance(sub[0], ast.stmt):
                        walk(sub)
        walk(fn.body)
        if not done:
            raise ContractUnbound("cut #%d: no statement `%s` in the function" % (k, c["after"]))


def extract(relpath, qualname, rewrite_comps=True, keep_decorators=(), cuts=None):
    """-> Extracted with .code (compiled module code defining the function under its bare name), .name, .info"""
    src, path = read_source(relpath)
    tree = ast.parse(src)
    node, cls = find_def(tree, qualname)
    if not isinstance(node, ast.FunctionDef):
        raise FunctionNotFound(qualname)
    seg = ast.get_source_segment(src, node) or ""
    fn = copy.deepcopy(node)
    dropped = []
    decs = [ast.unparse(d) for d in fn.decorator_list]
    if decs:
        dropped.append("decorators: " + ", ".join(decs))
    fn.decorator_list = []
    if fn.body and isinstance(fn.body[0], ast.Expr) and isinstance(getattr(fn.body[0], "value", None), ast.Constant) \
            and isinstance(fn.body[0].value.value, str):
        fn.body = fn.body[1:] or [ast.Pass()]
        dropped.append("docstring")
    ann = False
    for a in fn.args.posonlyargs + fn.args.args + fn.args.kwonlyargs + [fn.args.vararg, fn.args.kwarg]:
        if a is not None and a.annotation is not None:
            a.annotation = None
            ann = True
    if fn.returns is not None:
        fn.returns = None
        ann = True
    if ann:
        dropped.append("annotations")
    if cls is not None:
        fn = _Mangle(cls.name).visit(fn)
    _insert_cuts(fn, cuts)
    rw = _Rewriter(rewrite_comps)
    fn.body = rw._block(fn.body)
    mod = ast.Module(body=[fn], type_ignores=[])
    ast.fix_missing_locations(mod)
    ex = Extracted()
    names = set()
    for n_ in tree.body:
        if isinstance(n_, (ast.Import, ast.ImportFrom)):
            for a_ in n_.names:
                names.add((a_.asname or a_.name).split(".")[0])
        elif isinstance(n_, (ast.FunctionDef, ast.ClassDef)):
            names.add(n_.name)
        elif isinstance(n_, ast.Assign):
            for t_ in n_.targets:
                if isinstance(t_, ast.Name):
                    names.add(t_.id)
    ex.module_names = names
    ex.name = fn.name
    ex.qualname = qualname
    ex.relpath = relpath
    ex.code = compile(mod, "<extracted %s::%s>" % (relpath, qualname), "exec")
    ex.rewritten_source = ast.unparse(mod)
    ex.loops = rw.loops
    ex.cls = cls.name if cls is not None else None
    ex.defaults_node = node.args
    ex.info = dict(qualname="%s::%s" % (relpath, qualname), file=path, lines=[node.lineno, node.end_lineno],
                   sha256=hashlib.sha256(seg.encode()).hexdigest(), dropped=dropped,
                   rewritten=["%d loop(s) given an invariant-cut twin" % len(rw.loops)] * (1 if rw.loops else 0) +
                             ["%d comprehension(s) routed through __vc.comp" % rw.ncomp] * (1 if rw.ncomp else 0) +
                             ["%d `.dtype == T` test(s) routed through __vc.dtype_eq" % getattr(rw, "ndtype", 0)] * (1 if getattr(rw, "ndtype", 0) else 0))
    return ex


def literal_in_function(relpath, qualname, varname):
    """the AST of the (last) value assigned to `varname` inside the function -- for tables read from the source"""
    src, _ = read_source(relpath)
    node, _ = find_def(ast.parse(src), qualname)
    val = None
    for n in ast.walk(node):
        if isinstance(n, ast.Assign):
            for t in n.targets:
                if ast.unparse(t) == varname:
                    val = n.value
    if val is None:
        raise ContractUnbound("%s not assigned in %s" % (varname, qualname))
    return val
