"""pyvc.unit -- proof units and the check driver (parallel discharge, replay, evidence, exit codes).

A *unit* is one function (or a small group) under contract with one configuration of its parameters.  A unit's
`prove(U)` builds symbolic inputs, calls the extracted real function, and states the contract clauses with
U.ensure(...).  The driver discharges every obligation; exit codes: 0 held, 1 violation, 2 undecided, 3 crash.
"""
import json
import multiprocessing as mp
import os
import random
import sys
import time
import traceback
import zlib

import z3

from . import core, solve
from .core import Undecided, PathRaise, Q, ctx
from .extract import ContractUnbound, REPO
from .runtime import build_function, run_paths, MODEL_BUILTINS

VERIF = os.path.dirname(os.path.dirname(os.path.abspath(__file__)))
UNITS = {}      # property id -> list of Unit


class Unit:
    def __init__(self, prop, name, prove=None, replay=None, concrete=None, scope="unbounded", tiers=("quick", "thorough"),
                 timeout_ms=None, expect_min=1, may_raise=None, assumptions=(), bounded_desc=None, weight=1, hints=None,
                 array_mode="cells", replay_once=False, replay_free=False):
        self.prop, self.name = prop, name
        self.prove, self.replay, self.concrete = prove, replay, concrete
        self.scope = scope              # "unbounded" | "shape:<desc>"  (per-shape proofs are reported separately)
        self.tiers = tiers
        self.timeout_ms = timeout_ms
        self.expect_min = expect_min
        self.may_raise = may_raise
        self.assumptions = list(assumptions)
        self.bounded_desc = bounded_desc
        self.weight = weight
        self.hints = hints
        self.array_mode = array_mode
        self.replay_once = replay_once
        self.replay_free = replay_free      # the replay needs no solver model (fixed native inputs): it is also run when the solver answers unknown
        UNITS.setdefault(prop, []).append(self)


def unit(prop, name, **kw):
    def deco(f):
        u = Unit(prop, name, prove=f, **kw)
        f.unit = u
        return f
    return deco


def _mk_super(cls):
    import builtins as _b
    import sys as _sys

    def _super(*a):
        if a:
            return _b.super(*a)
        fr = _sys._getframe(1)
        me = fr.f_locals[fr.f_code.co_varnames[0]]
        if "__class__" in fr.f_locals:              # a method of a class defined inside the extracted text: its own class cell
            return _b.super(fr.f_locals["__class__"], me)
        return _b.super(cls, me)
    return _super


class U:
    """what a unit's prove() function sees"""

    def __init__(self, unit):
        self.unit = unit
        self.functions = []
        self.paths = []
        self.assumptions = list(unit.assumptions)
        self.externals = []
        self.samples = []
        self.extra_obligations = []
        self.raise_policy = unit.may_raise
        self.notes = []

    def fn(self, relpath, qualname, globs=None, loops=None, rewrite_comps=True, model=True, cuts=None):
        g = dict(MODEL_BUILTINS) if model else {}
        g.update(globs or {})
        f, ex = build_function(relpath, qualname, g, loops=loops, unit_name=self.unit.name, rewrite_comps=rewrite_comps,
                               cuts=cuts)
        if ex.info not in self.functions:
            self.functions.append(ex.info)
        return f

    def siblings(self, relpath, fns, globs=None, model=False, rewrite_comps=False):
        """module-level functions of `relpath` that the extracted functions `fns` name but were not handed: extracted from the real text as well
        and put into their globals (a helper split off by a refactoring is then part of the verified text instead of a NameError = undecided)"""
        import ast as _ast
        from .extract import read_source
        src, _ = read_source(relpath)
        tops = {n.name for n in _ast.parse(src).body if isinstance(n, _ast.FunctionDef)}
        raws = [getattr(f, "raw", f) for f in fns]
        have = set()
        for fr in raws:
            have |= set(fr.__globals__)
        todo = [n for n in sorted(tops) if n not in have and any(n in fr.__code__.co_names for fr in raws)]
        seen = set()
        while todo:
            n = todo.pop()
            if n in seen:
                continue
            seen.add(n)
            g = dict(globs or {})
            f = self.fn(relpath, n, globs=g, model=model, rewrite_comps=rewrite_comps)
            fr = getattr(f, "raw", f)
            raws.append(fr)
            for r in raws:
                r.__globals__.setdefault(n, f)
            todo += [m for m in tops if m not in seen and m not in fr.__globals__ and m in fr.__code__.co_names]
        return sorted(seen)

    def klass(self, relpath, clsname, globs=None, model=False, only=None, skip=(), bases=(), extra=None, rewrite_comps=True):
        """a python class assembled from the EXTRACTED text of every method of `clsname` (real source, read now); the
        decorators property / cached_property / staticmethod / classmethod are re-applied with their standard meaning,
        any other decorator is dropped (listed in the evidence per function).  The class object is put into the
        functions' globals under its own name, so `ClassName(...)` inside the methods builds this class."""
        import ast as _ast
        import functools
        from .extract import read_source, find_def
        src, _ = read_source(relpath)
        node, _c = find_def(_ast.parse(src), clsname)
        g = dict(globs or {})
        ns = {}
        for item in node.body:
            if not isinstance(item, _ast.FunctionDef):
                continue
            if (only is not None and item.name not in only) or item.name in skip:
                continue
            decs = [_ast.unparse(d) for d in item.decorator_list]
            f = self.fn(relpath, "%s.%s" % (clsname, item.name), globs=g, model=model, rewrite_comps=rewrite_comps)
            fr = getattr(f, "raw", f)
            # a method is never reachable by its bare name: the module-level name (if any) stays what the caller supplied
            fr.__globals__.pop(item.name, None)
            if item.name in g:
                fr.__globals__[item.name] = g[item.name]
            name = item.name
            if name.startswith("__") and not name.endswith("__"):
                name = "_%s%s" % (clsname.lstrip("_"), name)
            if any(d.endswith("setter") for d in decs):
                continue
            if "cached_property" in decs or "functools.cached_property" in decs:
                ns[name] = functools.cached_property(fr)
            elif "property" in decs:
                ns[name] = property(fr)
            elif "staticmethod" in decs:
                ns[name] = staticmethod(fr)
            elif "classmethod" in decs:
                ns[name] = classmethod(fr)
            else:
                ns[name] = fr
        ns.update(extra or {})
        ns["__module__"] = "extracted:" + relpath        # exceptions raised on these objects are the code's, not the model's
        # every name the source class defines (methods, properties, class attributes): one that was not assembled (`only` / `skip`)
        # is a gap of the harness, not a missing attribute of the code
        src_names = set()
        for item in node.body:
            if isinstance(item, (_ast.FunctionDef, _ast.ClassDef)):
                src_names.add(item.name)
            elif isinstance(item, _ast.Assign):
                src_names.update(t.id for t in item.targets if isinstance(t, _ast.Name))
        ns["__vc_source_names__"] = src_names
        ns.setdefault("__doc__", _ast.get_docstring(node, clean=False))      # the class docstring is data some classes read (self.__doc__)
        cls = type(clsname, tuple(bases) or (object,), ns)
        for v in ns.values():
            fr = v.func if isinstance(v, functools.cached_property) else v.fget if isinstance(v, property) else \
                v.__func__ if isinstance(v, (staticmethod, classmethod)) else v
            if hasattr(fr, "__globals__"):
                fr.__globals__[clsname] = cls
                fr.__globals__["super"] = _mk_super(cls)      # zero-argument super() needs the class cell of a class body
        return cls

    def assume(self, c, why=None):
        ctx().assume(c)

    assume_ensures = True      # a unit whose clauses are independent of each other switches this off: a refuted clause then
                               # does not become a (strange) hypothesis of the clauses that follow it on the path

    def ensure(self, name, clause, kind="ensures"):
        """clause: SBool / Q, or a zero-argument callable producing one (evaluated in spec mode)"""
        if callable(clause) and not isinstance(clause, Q):
            with core.spec_mode():
                clause = clause()
        ctx().oblige("%s/%s" % (self.unit.name, name), clause, kind=kind, then_assume=self.assume_ensures)

    def spec(self):
        return core.spec_mode()

    def external(self, text):
        if text not in self.externals:
            self.externals.append(text)

    def assumption(self, text):
        if text not in self.assumptions:
            self.assumptions.append(text)

    def run(self, body, max_paths=4000, check_feasible=True):
        ps = run_paths(body, max_paths=max_paths, check_feasible=check_feasible)
        self.paths.extend(ps)
        return ps

    def lemma(self, name, build):
        """stand-alone lemma (no code path).  build() -> (hyps, goal), evaluated in spec mode"""
        c = core.Ctx(check_feasible=False)
        prev = core._CUR[0]
        core._CUR[0] = c
        try:
            with core.spec_mode():
                hyps, goal = build()
            for h in hyps:
                c.assume(h)
            c.oblige("%s/lemma:%s" % (self.unit.name, name), goal, kind="lemma")
        finally:
            core._CUR[0] = prev
        c.outcome = "lemma"
        c.result = None
        self.paths.append(c)


def _unit_worker(args):
    prop, uname, tier, seed, repo = args
    os.environ["VERIF_REPO"] = repo
    t0 = time.time()
    unit = [u for u in UNITS[prop] if u.name == uname][0]
    res = dict(unit=uname, scope=unit.scope, obligations=[], functions=[], status="ok", notes=[], assumptions=[],
               externals=[], paths=0, returns=0, raises=0, bounded=None, samples=[])
    tmo = unit.timeout_ms or (10000 if tier == "quick" else 60000)
    try:
        core.ARRAY_MODE[0] = unit.array_mode
        u = U(unit)
        if unit.prove is not None:
            unit.prove(u)
        res["functions"] = u.functions
        res["assumptions"] = u.assumptions
        res["externals"] = u.externals
        res["notes"] = u.notes
        res["paths"] = len(u.paths)
        nret = 0
        sat_witness = None
        for c in u.paths:
            if c.outcome == "return" or c.outcome == "lemma":
                nret += 1
            if c.outcome == "raise":
                res["raises"] += 1
                pol = u.raise_policy
                allowed = pol(c.result, c) if pol else False
                if not allowed:
                    pr = c.result
                    c.obligations.append(dict(name="%s/total[%s]" % (uname, pr.args[0][:80]), kind="total", pc=list(c.pc),
                                              goal=z3.BoolVal(False), trivial=False, meta=dict(where=getattr(pr, "where", [])),
                                              cells=dict(c.cells), array_mode=c.array_mode))
        res["returns"] = nret
        # vacuity guard: some returning path must have a satisfiable path condition
        if unit.prove is not None:
            ok = False
            for c in u.paths:
                if c.outcome in ("return", "lemma") or c.outcome.startswith("stop:loop"):
                    if solve.check_sat(c.pc, 3000) != "unsat":
                        ok = True
                        break
            if not ok and u.paths:
                res["_vacuous"] = True
        seen = set()
        nobl = 0
        for c in u.paths:
            for ob in c.obligations:
                nobl += 1
                r = solve.discharge(ob, timeout_ms=(tmo if not res.get("_open") else min(tmo, 5000)), hints=(unit.hints or ()))
                if r["verdict"] != "valid":
                    res["_open"] = True        # the unit is no longer proved: the remaining obligations get a short budget
                rec = dict(name=ob["name"], kind=ob["kind"], verdict=r["verdict"], backend=r.get("backend"),
                           time_s=round(r.get("time_s", 0.0), 4), stage=r.get("stage"))
                if r["verdict"] == "refuted":
                    rec["model"] = {k: str(v) for k, v in list(r["model"].items())[:200]}
                    rec["trusted"] = r.get("trusted", False)
                    rec["solver_output"] = r.get("solver_output", "")[:4000]
                    rec["meta"] = ob.get("meta", {})
                    if unit.replay is not None:
                        try:
                            mv = ModelView(r["model"], r.get("cells", []))
                            if unit.replay_once and "_replay_cache" in res:
                                rp = res["_replay_cache"]
                            else:
                                rp = unit.replay(mv, ob)
                                res["_replay_cache"] = rp
                            rec["replay"] = rp
                        except Exception as e:
                            frames = traceback.extract_tb(e.__traceback__)
                            in_repo = [fr for fr in frames if os.path.abspath(fr.filename).startswith(os.path.abspath(repo) + os.sep)]
                            if in_repo:      # the real code raised on the replayed input
                                rec["replay"] = dict(reproduced=True, clause="total: the real function must not raise",
                                                     error="%s: %s" % (type(e).__name__, e), where="%s:%d" % (in_repo[-1].filename, in_repo[-1].lineno))
                            else:
                                rec["replay"] = dict(reproduced=False, error="replay harness failed: %s: %s" % (type(e).__name__, e),
                                                     tb=traceback.format_exc()[-1500:])
                            res["_replay_cache"] = rec["replay"]
                if r["verdict"] == "unknown":
                    rec["reason"] = r.get("reason", "")
                    if unit.replay is not None and unit.replay_free:
                        # no counter-model, but the unit has model-free native inputs: an obligation that is no longer discharged AND a
                        # failing input of the real code together are a violation; without a failing input it stays undecided
                        try:
                            if "_replay_cache" not in res:
                                res["_replay_cache"] = unit.replay(ModelView({}, []), ob)
                            if res["_replay_cache"].get("reproduced"):
                                rec["replay"] = res["_replay_cache"]
                                rec["solver_output"] = "solver: unknown (%s); failing input found by the unit's native replay" % rec["reason"]
                        except Exception as e:
                            res["_replay_cache"] = dict(reproduced=False, error="replay harness failed: %s: %s" % (type(e).__name__, e))
                if len(res["samples"]) < 3 and not ob.get("trivial") and r["verdict"] == "valid":
                    try:
                        res["samples"].append(dict(obligation=ob["name"], verdict="valid", backend=r.get("backend"),
                                                   goal=str(z3.simplify(ob["goal"]))[:600], n_hyps=len(ob["pc"])))
                    except Exception:
                        pass
                res["obligations"].append(rec)
        if res.get("_vacuous") and all(o["verdict"] == "valid" for o in res["obligations"]):
            res["status"] = "vacuous"       # every path condition unsatisfiable and nothing refuted: the proofs would be vacuous
        res.pop("_vacuous", None)
        if nobl < unit.expect_min and unit.prove is not None:
            res["status"] = "too-few-obligations(%d<%d)" % (nobl, unit.expect_min)
    except ContractUnbound as e:
        res["status"] = "unbound"
        res["detail"] = str(e)
    except Undecided as e:
        res["status"] = "undecided"
        res["detail"] = str(e)
    except Exception as e:
        res["status"] = "crash"
        res["detail"] = "%s: %s\n%s" % (type(e).__name__, e, traceback.format_exc()[-3000:])
    # bounded stand-in / CPython cross-check on the real function
    need_conc = unit.concrete is not None
    if need_conc:
        try:
            rng = random.Random(seed * 7919 + zlib.crc32(uname.encode()) % 1000)
            n = 25 if tier == "quick" else 300
            tb0 = time.time()
            out = unit.concrete(rng, n)
            res["bounded"] = dict(name="run-time contract on the real function: " + uname, bound=unit.bounded_desc or "",
                                  cases=out.get("cases", n), failures=out.get("failures", [])[:5],
                                  time_s=round(time.time() - tb0, 2), distinct=out.get("distinct", out.get("cases", n)),
                                  sample=out.get("sample"))
        except Exception as e:
            frames = traceback.extract_tb(e.__traceback__)
            in_repo = [fr for fr in frames if os.path.abspath(fr.filename).startswith(os.path.abspath(repo) + os.sep)]
            if in_repo:
                # the real code raised while the harness exercised it inside the contract's precondition: a failing case
                res["bounded"] = dict(name="run-time contract on the real function: " + uname, bound=unit.bounded_desc or "", cases=1,
                                      failures=[dict(clause="total: the real function must not raise on inputs satisfying the precondition",
                                                     error="%s: %s" % (type(e).__name__, e),
                                                     where="%s:%d" % (in_repo[-1].filename, in_repo[-1].lineno))], distinct=1)
            else:
                res["bounded"] = dict(name=uname, bound=unit.bounded_desc or "", cases=0, failures=[],
                                      error="%s: %s" % (type(e).__name__, e), tb=traceback.format_exc()[-2000:])
    res["time_s"] = round(time.time() - t0, 3)
    res.pop("_replay_cache", None)
    res.pop("_open", None)
    return res


class ModelView:
    """solver model, looked up by constant name; array cells by (array, index)"""

    def __init__(self, model, cells):
        self.model = dict(model)
        self.cells = list(cells)

    def get(self, name, default=0):
        v = self.model.get(name, default)
        return default if v is None or isinstance(v, str) else v

    def array(self, name):
        out = {}
        for arr, idx, val in self.cells:
            if arr == name:
                out[tuple(idx)] = val
        return out

    def array1(self, name, n, default=0):
        cells = self.array(name)
        out = []
        for i in range(n):
            v = cells.get((i,), default)
            out.append(default if v is None or isinstance(v, str) else v)
        return out

    def prefixed(self, prefix):
        return {k: v for k, v in self.model.items() if k.startswith(prefix)}


# ----------------------------------------------------------------------------- known findings

def load_known():
    known, fixed = [], []
    p = os.path.join(VERIF, "KNOWN_FINDINGS.txt")
    if os.path.exists(p):
        for line in open(p):
            line = line.strip()
            if line.startswith("known:"):
                parts = line[len("known:"):].strip().split(None, 2)
                d = dict(property=parts[0].split("=", 1)[1], match=parts[1].split("=", 1)[1], what=parts[2] if len(parts) > 2 else "")
                known.append(d)
            elif line.startswith("fixed:"):
                fixed.append(line)
    return known, fixed


# ----------------------------------------------------------------------------- the check driver

def run_check(prop, tier="quick", level_note=None):
    t0 = time.time()
    seed = int(os.environ.get("VERIF_SEED", "0") or 0)
    repo = os.environ.get("VERIF_REPO", "/repo")
    units = [u for u in UNITS.get(prop, []) if tier in u.tiers]
    if not units:
        print("no units registered for", prop)
        return 3
    nproc = int(os.environ.get("VERIF_JOBS", "16"))
    args = [(prop, u.name, tier, seed, repo) for u in units]
    if nproc > 1 and len(args) > 1:
        with mp.get_context("fork").Pool(min(nproc, len(args))) as pool:
            results = pool.map(_unit_worker, args, chunksize=1)
    else:
        results = [_unit_worker(a) for a in args]
    known, _fixed = load_known()
    known = [k for k in known if k["property"] == prop]
    # evidence/replay files of runs against a scratch copy (self-tests, seeded changes) must not overwrite those of /repo
    scratch_run = os.path.abspath(repo) != "/repo"
    ev_dir = os.path.join(VERIF, "evidence") if not scratch_run else os.path.join(os.environ.get("VERIF_TMP", repo), "evidence")
    rp_dir = os.path.join(VERIF, "replay") if not scratch_run else os.path.join(VERIF, "replay", "scratch")
    os.makedirs(ev_dir, exist_ok=True)
    os.makedirs(rp_dir, exist_ok=True)
    violations = []
    undecided = []
    crashes = []
    unbound = []
    known_hit = []
    n_obl = n_dis = n_obl_shape = n_dis_shape = 0
    by_backend = {}
    solver_time = 0.0
    functions = {}
    assumptions = []
    externals = []
    bounded = []
    samples = []
    for r in results:
        for f in r["functions"]:
            f = dict(f)
            key = f["qualname"]
            cnt = len([o for o in r["obligations"]])
            if key in functions:
                functions[key]["obligations"] += cnt
                functions[key]["units"].append(r["unit"])
            else:
                f["obligations"] = cnt
                f["units"] = [r["unit"]]
                functions[key] = f
        for a in r["assumptions"]:
            if a not in assumptions:
                assumptions.append(a)
        for a in r["externals"]:
            if a not in externals:
                externals.append(a)
        samples.extend(r.get("samples", [])[:1])
        if r["status"] == "crash":
            crashes.append(r)
        elif r["status"] == "undecided" or r["status"].startswith("too-few") or r["status"] == "vacuous":
            undecided.append(dict(unit=r["unit"], reason=r["status"] + ": " + r.get("detail", "")))
        elif r["status"] == "unbound":
            unbound.append(r)
        for o in r["obligations"]:
            shape = r["scope"] != "unbounded"
            if shape:
                n_obl_shape += 1
            else:
                n_obl += 1
            solver_time += o.get("time_s", 0.0)
            if o["verdict"] == "valid":
                by_backend[o["backend"]] = by_backend.get(o["backend"], 0) + 1
                if shape:
                    n_dis_shape += 1
                else:
                    n_dis += 1
            elif o["verdict"] == "refuted":
                rp = o.get("replay") or {}
                kf = [k for k in known if k["match"] in o["name"]]
                if kf and rp.get("reproduced", False) is not False or (kf and not rp):
                    known_hit.append((kf[0], o))
                    continue
                if rp.get("reproduced"):
                    violations.append((r, o, "replayed"))
                elif o.get("trusted"):
                    violations.append((r, o, "no-failing-input-found"))
                else:
                    undecided.append(dict(unit=r["unit"], reason="candidate counter-model of %s did not replay and the query had partially instantiated quantifiers" % o["name"]))
            elif (o.get("replay") or {}).get("reproduced"):
                kf = [k for k in known if k["match"] in o["name"]]
                if kf:
                    known_hit.append((kf[0], o))
                else:
                    violations.append((r, o, "replayed"))
            else:
                undecided.append(dict(unit=r["unit"], reason="solver unknown on %s (%s)" % (o["name"], o.get("reason", ""))))
        b = r.get("bounded")
        if b:
            bounded.append({k: v for k, v in b.items() if k != "failures"})
            if b.get("error"):
                crashes.append(dict(unit=r["unit"], detail="bounded harness: " + b["error"] + "\n" + b.get("tb", "")))
            for fcase in b.get("failures", []):
                # a known finding is identified by the specific failing input and clause, not by the unit alone
                hay = r["unit"] + "/bounded " + json.dumps(fcase.get("input"), sort_keys=True, default=str) + " " + str(fcase.get("clause", ""))
                kf = [k for k in known if k["match"] in hay]
                if kf:
                    known_hit.append((kf[0], dict(name=r["unit"] + "/bounded", replay=fcase)))
                else:
                    violations.append((r, dict(name=r["unit"] + "/bounded-contract", kind="bounded", replay=dict(fcase, reproduced=True),
                                               model={}, solver_output="(found by the run-time contract on the real function)"), "replayed"))
    # contracts that no longer bind: the bounded stand-in decides (never a violation by itself)
    downgraded = False
    for r in unbound:
        b = r.get("bounded")
        if b and not b.get("failures") and not b.get("error") and b.get("cases", 0) > 0:
            downgraded = True
            print("PROOF-NOT-REESTABLISHED property=%s unit=%s (%s); bounded stand-in passed %d cases" % (prop, r["unit"], r.get("detail", ""), b["cases"]))
        elif b and b.get("failures"):
            pass        # already reported above as a violation
        else:
            undecided.append(dict(unit=r["unit"], reason="contract unbound (%s) and no bounded stand-in" % r.get("detail", "")))
    # ---- output
    code = 0
    lines = []
    seen_rep = set()
    for r, o, how in violations:
        rid = "%s-%s" % (prop, "".join(ch if ch.isalnum() or ch in "-_." else "_" for ch in o["name"])[:120])
        if rid in seen_rep:
            continue
        seen_rep.add(rid)
        path = os.path.join(rp_dir, rid + ".json")
        with open(path, "w") as f:
            json.dump(dict(property=prop, obligation=o["name"], kind=o.get("kind"), verdict="refuted", unit=r["unit"],
                           model=o.get("model", {}), replay=o.get("replay"), solver_output=o.get("solver_output", ""),
                           how=how, repo=repo), f, indent=1, default=str)
        tail = "" if how == "replayed" else " no-failing-input-found"
        lines.append("VIOLATION property=%s replay=%s%s" % (prop, os.path.relpath(path, VERIF), tail))
        code = 1
    for k, o in known_hit:
        lines.append("KNOWN-FINDING: property=%s %s [%s]" % (prop, k["what"], o["name"]))
    if code == 0 and crashes:
        code = 3
    if code == 0 and undecided:
        code = 2
    for l in dict.fromkeys(lines):
        print(l)
    for u_ in undecided[:20]:
        print("UNDECIDED property=%s unit=%s %s" % (prop, u_["unit"], u_["reason"][:300]))
    for c in crashes[:5]:
        print("CRASH property=%s unit=%s\n%s" % (prop, c.get("unit"), c.get("detail", "")[:3000]))
    wall = time.time() - t0
    level = "proof"
    total_obl = n_obl + n_obl_shape
    total_dis = n_dis + n_dis_shape
    cov = dict(obligations=total_obl, discharged=total_dis, obligations_unbounded=n_obl, discharged_unbounded=n_dis,
               obligations_per_shape=n_obl_shape, discharged_per_shape=n_dis_shape,
               by_backend=by_backend, solver_time_s=round(solver_time, 2),
               checker_cmd="./check %s %s" % (prop, tier),
               functions=list(functions.values()),
               units=[dict(unit=r["unit"], scope=r["scope"], status=r["status"], paths=r["paths"], obligations=len(r["obligations"]),
                           time_s=r.get("time_s")) for r in results],
               bounded=bounded, samples=samples[:6] or [dict(note="no discharged obligation to show")],
               trusted_base=["pyvc engine (/verif/pyvc)", "CPython %s executing the extracted function text" % sys.version.split()[0],
                             "z3 %s" % z3.get_version_string(), "cvc5 1.0.3 (only for z3 unknowns)",
                             "float64 arithmetic treated as exact real arithmetic"] + externals,
               undecided=undecided[:20], known_findings=[k["what"] for k, _ in known_hit],
               explanation="contract-based deductive verification: VCs generated from the function text read from %s on this run" % repo)
    if downgraded or total_obl == 0 or total_dis != total_obl:
        # evidence for a run that did not re-establish the proof is reported as exploration-level
        ncases = sum(b.get("cases", 0) for b in bounded)
        if downgraded and code == 0:
            level = "exploration"
            cov.update(evaluations=max(ncases, 1), distinct_nontrivial=max(2, sum(b.get("distinct", 0) for b in bounded)),
                       rule="bounded stand-in only (contract unbound): " + "; ".join(b.get("bound", "") for b in bounded))
        else:
            level = "other"
    ev = dict(property_id=prop, tier=tier, seed=seed, level=level, coverage=cov,
              assumptions=assumptions + ["every `external` listed in trusted_base is an assumed contract"],
              wall_s=round(wall, 2), violations=len([1 for l in lines if l.startswith("VIOLATION")]))
    with open(os.path.join(ev_dir, prop + ".json"), "w") as f:
        json.dump(ev, f, indent=1, default=str)
    print("%s %s: units=%d obligations=%d discharged=%d (unbounded %d/%d, per-shape %d/%d) bounded-cases=%d exit=%d wall=%.1fs" % (
        prop, tier, len(results), total_obl, total_dis, n_dis, n_obl, n_dis_shape, n_obl_shape,
        sum(b.get("cases", 0) for b in bounded), code, wall))
    return code
