"""pyvc.arr -- lambda arrays of symbolic shape (the numpy model used by the unbounded proofs).

An SArr is a shape (each extent a python int or an int SNum) plus an element function from an index tuple to a
scalar.  A base (input) array is a family of *cells*: one fresh constant per distinct index tuple, registered in the
path context so that the discharger can add the functional-consistency (Ackermann) constraints
  idx1 == idx2  =>  cell1 == cell2 ;
stores are resolved by the engine as if-then-else chains, so the solver never sees an array theory.
"""
import z3
from .core import (ctx, SNum, SBool, SCplx, lift, conc, Undecided, PathRaise, ite, land, lor, implies, forall, Q,
                   fresh_int, fresh_real, is_sym, to_bool_term, lnot, ite_pc)

__all__ = ["SArr", "sym_array", "slen", "as_index"]


def as_index(i):
    """index value -> python int or int SNum"""
    if isinstance(i, bool):
        raise Undecided("bool index")
    if isinstance(i, int):
        return i
    if isinstance(i, SNum):
        c = conc(i)
        if isinstance(c, int):
            return c
        if i.kind != "int":
            raise PathRaise("IndexError: non-integer index")
        return i
    c = conc(i)
    if isinstance(c, int):
        return c
    raise Undecided("index of type %s" % type(i))


def _key(t):
    return z3.simplify(t).sexpr() if z3.is_expr(t) else str(t)


_SORT = {"real": z3.RealSort, "int": z3.IntSort, "bool": z3.BoolSort}


def _cell(name, idx, dtype):
    c = ctx()
    terms = tuple(lift(i).t for i in idx)
    if getattr(c, "array_mode", "cells") == "uf":
        # uninterpreted-function representation (linear index reasoning with native quantifiers)
        dom = [z3.IntSort()] * len(terms)
        if dtype == "cplx":
            fr = z3.Function(name + ".re", *(dom + [z3.RealSort()]))
            fi = z3.Function(name + ".im", *(dom + [z3.RealSort()]))
            return SCplx(SNum(fr(*terms), "real"), SNum(fi(*terms), "real"))
        f = z3.Function(name, *(dom + [_SORT[dtype]()]))
        v = f(*terms)
        return SBool(v) if dtype == "bool" else SNum(v, dtype)
    key = (name,) + tuple(_key(t) for t in terms)
    if key not in c.cells:
        nm = "%s[%s]" % (name, ",".join(k.replace(" ", "_") for k in key[1:]))
        if dtype == "real":
            v = z3.Real(nm)
        elif dtype == "int":
            v = z3.Int(nm)
        elif dtype == "bool":
            v = z3.Bool(nm)
        elif dtype == "cplx":
            v = (z3.Real(nm + ".re"), z3.Real(nm + ".im"))
        else:
            raise Undecided(dtype)
        c.cells[key] = (name, terms, v, dtype)
    v = c.cells[key][2]
    if dtype == "bool":
        return SBool(v)
    if dtype == "cplx":
        return SCplx(SNum(v[0], "real"), SNum(v[1], "real"))
    return SNum(v, dtype)


def sym_array(name, shape, dtype="real"):
    shape = tuple(shape)
    return SArr(shape, lambda idx: _cell(name, idx, dtype), dtype, base=name)


def slen(x):
    if isinstance(x, SArr):
        if not x.shape:
            raise PathRaise("TypeError: len() of unsized object")
        return x.shape[0]
    if hasattr(x, "__slen__"):
        return x.__slen__()
    return len(x)


def _dim_eq(a, b):
    ca, cb = conc(a), conc(b)
    if ca is not None and cb is not None:
        return ca == cb
    return lift(a) == lift(b)


class SArr:
    __array_priority__ = 2000

    def __init__(self, shape, fn, dtype="real", base=None):
        self.shape = tuple(shape)
        self._fn = fn
        self.dtype = dtype
        self.base = base

    # ------------------------------------------------------------------ basics
    @property
    def ndim(self):
        return len(self.shape)

    def __slen__(self):
        return self.shape[0]

    def __len__(self):
        n = conc(self.shape[0])
        if isinstance(n, int):
            return n
        raise Undecided("len() of symbolic-length array through __len__ (use the model `len`)")

    def get(self, idx):
        """element at a full index tuple, no bounds obligation"""
        return self._fn(tuple(idx))

    def _norm_index(self, i, n, what="index"):
        i = as_index(i)
        if isinstance(i, int):
            cn = conc(n)
            if i < 0:
                return lift(n) + i if cn is None else cn + i
            if cn is not None:
                if i >= cn:
                    raise PathRaise("IndexError")
                return i
            ctx().oblige("safety:index<len", lift(i) < lift(n), kind="safety")
            return i
        ctx().oblige("safety:%s-in-range" % what, land(i >= 0, i < lift(n)), kind="safety")
        return i

    def _slice(self, s, n):
        """python slice on an axis of extent n -> (start, step, length)"""
        step = 1 if s.step is None else conc(s.step)
        if not isinstance(step, int) or step == 0:
            raise Undecided("symbolic slice step")
        if step < 0:
            if s.start is None and s.stop is None:
                return (lift(n) - 1 if conc(n) is None else conc(n) - 1, step, n)   # full reversal a[::-1]
            raise Undecided("negative slice step with bounds")

        def clamp(v, default):
            if v is None:
                return default
            v = as_index(v)
            cn = conc(n)
            if isinstance(v, int) and cn is not None:
                v = v + cn if v < 0 else v
                return min(max(v, 0), cn)
            v = lift(v)
            nn = lift(n)
            v = ite_pc(v < 0, v + nn, v)
            v = ite_pc(v < 0, 0, v)
            return ite_pc(v > nn, nn, v)
        lo = clamp(s.start, 0)
        hi = clamp(s.stop, n)
        clo, chi = conc(lo), conc(hi)
        if clo is not None and chi is not None:
            ln = max(0, -(-(chi - clo) // step))
        else:
            d = lift(hi) - lift(lo)
            d = ite_pc(d < 0, 0, d)
            ln = d if step == 1 else (d + (step - 1)) // step
        return (lo, step, ln)

    def __getitem__(self, key):
        if isinstance(key, SArr):
            if key.dtype == "bool":
                raise Undecided("boolean mask indexing of a lambda array")
            # integer-array indexing along axis 0
            k = key
            n0 = self.shape[0]
            me = self
            return SArr(k.shape + self.shape[1:],
                        lambda idx: me.get((k.get(idx[:k.ndim]),) + tuple(idx[k.ndim:])), self.dtype)
        if not isinstance(key, tuple):
            key = (key,)
        # expand Ellipsis
        if any(k is Ellipsis for k in key):
            p = [i for i, k in enumerate(key) if k is Ellipsis][0]
            nreal = len([k for k in key if k is not None and k is not Ellipsis])
            key = key[:p] + (slice(None),) * (self.ndim - nreal) + key[p + 1:]
        plan = []       # per source axis: ('i', idx) | ('s', start, step)
        newshape = []
        outmap = []     # per output axis: source-axis number or None (newaxis)
        ax = 0
        for k in key:
            if k is None:
                newshape.append(1)
                outmap.append(None)
                continue
            if ax >= self.ndim:
                raise PathRaise("IndexError: too many indices")
            if isinstance(k, slice):
                lo, step, ln = self._slice(k, self.shape[ax])
                plan.append(("s", lo, step))
                newshape.append(ln)
                outmap.append(ax)
            else:
                plan.append(("i", self._norm_index(k, self.shape[ax])))
            ax += 1
        while ax < self.ndim:
            plan.append(("s", 0, 1))
            newshape.append(self.shape[ax])
            outmap.append(ax)
            ax += 1
        me = self
        if not newshape:
            return self.get(tuple(p[1] for p in plan))

        def fn(idx, plan=tuple(plan), outmap=tuple(outmap)):
            src = [None] * len(plan)
            for o, a in enumerate(outmap):
                if a is not None:
                    _, lo, step = plan[a]
                    src[a] = lo + idx[o] * step if not (conc(lo) == 0 and step == 1) else idx[o]
            for a, p in enumerate(plan):
                if p[0] == "i":
                    src[a] = p[1]
            return me.get(tuple(src))
        return SArr(tuple(newshape), fn, self.dtype)

    def __setitem__(self, key, val):
        if not isinstance(key, tuple):
            key = (key,)
        if len(key) == self.ndim and not any(isinstance(k, slice) or k is None or k is Ellipsis for k in key):
            idx = tuple(self._norm_index(k, n, "store-index") for k, n in zip(key, self.shape))
            for i_ in idx:
                if conc(i_) is None:
                    t_ = lift(i_).t
                    if not any(z3.eq(z3.simplify(t_), z3.simplify(x)) for x in ctx().store_indices):
                        ctx().store_indices.append(t_)
            old = self._fn
            v = val

            def fn(j, idx=idx, old=old, v=v):
                same = True
                for a, b in zip(j, idx):
                    ca, cb = conc(a), conc(b)
                    if ca is not None and cb is not None:
                        if ca != cb:
                            return old(j)
                    else:
                        ta, tb = lift(a).t, lift(b).t
                        if _key(ta) == _key(tb):
                            continue
                        e = lift(a) == lift(b)
                        same = e if same is True else land(same, e)
                if same is True:
                    return v
                return ite(same, v, old(j))
            self._fn = fn
            self.base = None
            return
        # slice assignment  a[lo:hi] = scalar or array   (1 sliced axis, others full/int)
        sub = self[key]       # a view describing which elements are hit -- we need the inverse map: do common cases
        if len(key) == 1 and isinstance(key[0], slice):
            # a[lo:hi:step] = v   (first axis sliced, trailing axes whole)
            lo, step, ln = self._slice(key[0], self.shape[0])
            old = self._fn
            if isinstance(val, SArr):
                e_ = _dim_eq(val.shape[0], ln)
                if e_ is False:
                    raise PathRaise("ValueError: could not broadcast input array into shape")
                if e_ is not True:
                    ctx().oblige("safety:shape-slice-assign (number of rows on both sides)", e_, kind="safety")
                if val.ndim != self.ndim:
                    raise Undecided("slice assignment with different ranks")

                def fn(j, old=old):
                    i = j[0]
                    inr = land(lift(i) >= lo, lift(i) < lift(lo) + lift(ln) * step) if step == 1 else \
                        land(lift(i) >= lo, lift(i) < lift(lo) + lift(ln) * step, (lift(i) - lo) % step == 0)
                    return ite(inr, val.get(((lift(i) - lo) // step if step != 1 else lift(i) - lo,) + tuple(j[1:])), old(j))
            else:
                def fn(j, old=old):
                    i = j[0]
                    inr = land(lift(i) >= lo, lift(i) < lift(lo) + lift(ln) * step) if step == 1 else \
                        land(lift(i) >= lo, lift(i) < lift(lo) + lift(ln) * step, (lift(i) - lo) % step == 0)
                    return ite(inr, val, old(j))
            self._fn = fn
            self.base = None
            return
        raise Undecided("slice assignment pattern %r on rank-%d array" % (key, self.ndim))

    # ------------------------------------------------------------------ elementwise
    def _ew(self, o, f, dtype=None):
        if isinstance(o, SArr):
            a, b = self, o
            if a.ndim != b.ndim:
                # broadcast lower rank on the left
                if a.ndim < b.ndim:
                    a = a._pad(b.ndim)
                else:
                    b = b._pad(a.ndim)
            shape = []
            for x, y in zip(a.shape, b.shape):
                cx, cy = conc(x), conc(y)
                if cx == 1 and cy != 1:
                    shape.append(y)
                elif cy == 1 and cx != 1:
                    shape.append(x)
                else:
                    e = _dim_eq(x, y)
                    if e is False:
                        raise PathRaise("ValueError: operands could not be broadcast together")
                    if e is not True:
                        ctx().oblige("safety:shape-broadcast", e, kind="safety")
                    shape.append(x)
            ash, bsh = a.shape, b.shape

            def fn(idx):
                ia = tuple(0 if conc(s) == 1 and conc(t) != 1 else i for i, s, t in zip(idx, ash, shape))
                ib = tuple(0 if conc(s) == 1 and conc(t) != 1 else i for i, s, t in zip(idx, bsh, shape))
                return f(a.get(ia), b.get(ib))
            return SArr(tuple(shape), fn, dtype or self.dtype)
        me = self
        return SArr(self.shape, lambda idx: f(me.get(idx), o), dtype or self.dtype)

    def _pad(self, nd):
        me = self
        k = nd - self.ndim
        return SArr((1,) * k + self.shape, lambda idx: me.get(idx[k:]), self.dtype)

    def _rdtype(self, o):
        od = o.dtype if isinstance(o, SArr) else ("cplx" if isinstance(o, (complex, SCplx)) else
                                                  "real" if isinstance(o, float) or (isinstance(o, SNum) and o.kind == "real") else "int")
        order = ["bool", "int", "real", "cplx"]
        return order[max(order.index(self.dtype), order.index(od))]

    def __add__(self, o): return self._ew(o, lambda a, b: a + b, self._rdtype(o))
    def __radd__(self, o): return self._ew(o, lambda a, b: b + a, self._rdtype(o))
    def __sub__(self, o): return self._ew(o, lambda a, b: a - b, self._rdtype(o))
    def __rsub__(self, o): return self._ew(o, lambda a, b: b - a, self._rdtype(o))
    def __mul__(self, o): return self._ew(o, lambda a, b: a * b, self._rdtype(o))
    def __rmul__(self, o): return self._ew(o, lambda a, b: b * a, self._rdtype(o))

    def __truediv__(self, o):
        return self._ew(o, lambda a, b: lift(a) / b, "cplx" if self._rdtype(o) == "cplx" else "real")

    def __rtruediv__(self, o):
        return self._ew(o, lambda a, b: lift(b) / a, "cplx" if self._rdtype(o) == "cplx" else "real")

    def __mod__(self, o): return self._ew(o, lambda a, b: lift(a) % b)
    def __floordiv__(self, o): return self._ew(o, lambda a, b: lift(a) // b, "int")
    def __neg__(self):
        me = self
        return SArr(self.shape, lambda idx: -me.get(idx), self.dtype)

    def __lt__(self, o): return self._ew(o, lambda a, b: lift(a) < b, "bool")
    def __le__(self, o): return self._ew(o, lambda a, b: lift(a) <= b, "bool")
    def __gt__(self, o): return self._ew(o, lambda a, b: lift(a) > b, "bool")
    def __ge__(self, o): return self._ew(o, lambda a, b: lift(a) >= b, "bool")
    def __eq__(self, o): return self._ew(o, lambda a, b: lift(a) == b if not isinstance(a, SBool) else a == b, "bool")
    def __ne__(self, o): return self._ew(o, lambda a, b: lift(a) != b if not isinstance(a, SBool) else a != b, "bool")
    __hash__ = None

    def __and__(self, o): return self._ew(o, lambda a, b: a & b, "bool")
    def __or__(self, o): return self._ew(o, lambda a, b: a | b, "bool")
    def __invert__(self):
        me = self
        return SArr(self.shape, lambda idx: ~me.get(idx), "bool")

    def __abs__(self):
        me = self
        return SArr(self.shape, lambda idx: abs(me.get(idx)), "real" if self.dtype == "cplx" else self.dtype)

    def conj(self):
        me = self
        return SArr(self.shape, lambda idx: me.get(idx).conj() if isinstance(me.get(idx), (SCplx, SNum)) else me.get(idx), self.dtype)

    def copy(self):
        return SArr(self.shape, self._fn, self.dtype, self.base)

    @property
    def T(self):
        return self.transpose()

    def transpose(self, *axes):
        if len(axes) == 1 and isinstance(axes[0], (tuple, list)):
            axes = tuple(axes[0])
        if not axes:
            axes = tuple(reversed(range(self.ndim)))
        me = self

        def fn(idx, axes=axes):
            src = [None] * len(axes)
            for o, a in enumerate(axes):
                src[a] = idx[o]
            return me.get(tuple(src))
        return SArr(tuple(self.shape[a] for a in axes), fn, self.dtype)

    def swapaxes(self, a, b):
        ax = list(range(self.ndim))
        ax[a], ax[b] = ax[b], ax[a]
        return self.transpose(*ax)

    # ------------------------------------------------------------------ reductions over a symbolic extent
    def _extreme(self, which):
        if self.ndim != 1:
            raise Undecided("min/max of rank>1 lambda array")
        n = self.shape[0]
        cn = conc(n)
        if cn is not None:
            if cn == 0:
                raise PathRaise("ValueError: zero-size array to reduction")
            out = self.get((0,))
            for i in range(1, cn):
                v = self.get((i,))
                out = ite(v < out, v, out) if which == "min" else ite(v > out, v, out)
            return out
        if not bool(lift(n) > 0):
            raise PathRaise("ValueError: zero-size array to reduction")
        m = fresh_real(which) if self.dtype != "int" else fresh_int(which)
        w = fresh_int("arg" + which)
        me = self
        ctx().assume(land(w >= 0, w < n))
        ctx().assume(lift(me.get((w,))) == m)
        if which == "min":
            ctx().assume(forall(lambda j: implies(land(j >= 0, j < n), m <= me.get((j,))), name=which))
        else:
            ctx().assume(forall(lambda j: implies(land(j >= 0, j < n), m >= me.get((j,))), name=which))
        return m

    def sum(self, axis=None):
        if all(isinstance(conc(s_), int) for s_ in self.shape) and axis is None:
            import itertools
            out = 0
            for idx in itertools.product(*[range(conc(s_)) for s_ in self.shape]):
                out = out + self.get(idx)
            return out
        if self.ndim == 1:
            # abstract finite sum over a symbolic extent: an unconstrained value (contracts that need more use Sum lemmas)
            return fresh_real("sum") if self.dtype != "int" else fresh_int("sum")
        raise Undecided("sum over a symbolic extent of a rank>1 array")

    def mean(self, axis=None):
        if axis is None and all(isinstance(conc(s_), int) for s_ in self.shape):
            n = 1
            for s_ in self.shape:
                n *= conc(s_)
            if n == 0:
                raise Undecided("mean of an empty array")
            return lift(self.sum()) / n
        raise Undecided("mean over a symbolic extent")

    def min(self): return self._extreme("min")
    def max(self): return self._extreme("max")

    def __iter__(self):
        n = conc(self.shape[0])
        if not isinstance(n, int):
            raise Undecided("python iteration over a symbolic-length array (needs a loop contract)")
        for i in range(n):
            yield self[i]

    def __repr__(self):
        return "SArr(shape=%r,dtype=%s)" % (self.shape, self.dtype)
